#!/usr/bin/env python3
"""usage: record_fix.py <property> <what> <witness>   -- records the LAST commit of /repo (a `fix:` commit) in known_findings.json and writes its reverse patch"""
import json, subprocess, sys
prop, what, witness = sys.argv[1:4]
h = subprocess.run(["git", "-C", "/repo", "log", "--format=%h", "-1"], capture_output=True, text=True).stdout.strip()
subj = subprocess.run(["git", "-C", "/repo", "log", "--format=%s", "-1"], capture_output=True, text=True).stdout.strip()
assert subj.startswith("fix:"), subj
rev = subprocess.run(["git", "-C", "/repo", "diff", "HEAD", "HEAD~1"], capture_output=True, text=True).stdout
open("/verif/mutants/prefix/revert_%s.diff" % h, "w").write(rev)
p = "/verif/known_findings.json"
d = json.load(open(p))
d["findings"].append({"property": prop, "id": "fixed-" + h, "status": "fixed", "commit": h, "what": what, "witness": witness,
                      "regression_patch": "mutants/prefix/revert_%s.diff" % h, "text": "fixed: property=%s %s %s" % (prop, h, what[:160])})
json.dump(d, open(p, "w"), indent=1)
print("recorded", h, subj)
