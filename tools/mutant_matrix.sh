#!/bin/bash
# usage: mutant_matrix.sh <out-file> [ids...]   -- runs the property check of every seeded / prefix mutant on a scratch copy
out=$1; shift
V=$(cd "$(dirname "$0")/.." && pwd)
ids="$@"
if [ -z "$ids" ]; then ids=$(ls $V/seeded); fi
: > $out
for m in $ids; do
  p=${m%%-*}
  patch=$V/seeded/$m/patch.diff
  d=$(mktemp -d /tmp/pyvc_mm.XXXXXX); mkdir -p $d/repo; cp -r /repo/Pyro5 $d/repo/Pyro5
  (cd $d/repo && patch -p1 -s < $patch) || { echo "$m PATCH-FAILED" >> $out; rm -rf $d; continue; }
  res=$(cd $V && PYVC_REPO=$d/repo timeout 1800 ./check $p --tier quick --no-evidence 2>&1); rc=$?
  first=$(echo "$res" | grep -m1 '^VIOLATION\|^UNDECIDED\|^CHECKER' | cut -c1-220)
  echo "$m exit=$rc $first" >> $out
  rm -rf $d
done
echo DONE >> $out
