#!/bin/bash
# usage: tools_mutant_run.sh <patch.diff> <command...>   -- runs command with PYVC_REPO pointing at a patched scratch copy of /repo
set -e
patch="$1"; shift
d=$(mktemp -d /tmp/pyvc_scratch.XXXXXX)
mkdir -p $d/repo
cp -r /repo/Pyro5 $d/repo/Pyro5
find $d -name __pycache__ -type d -exec rm -rf {} + 2>/dev/null || true
(cd $d/repo && patch -p1 -s < "$patch")
PYVC_REPO=$d/repo "$@"
rc=$?
rm -rf $d
exit $rc
