#!/bin/bash
# usage: confirm_seeded.sh <Cxx> <variant> <srcdir>   -- confirms a sub-agent's change independently and files it under /verif/seeded/
# checks: patch applies to /repo HEAD; demo PASSes on clean tree; demo FAILs on changed tree; unedited suite passes on changed tree
pid=$1; var=$2; src=$3
dst=/verif/seeded/$pid-$var
wt=$(mktemp -d /tmp/confirm_wt.XXXXXX); rmdir $wt
git -C /repo worktree add -q --detach $wt HEAD || exit 1
clean_out=$(cd $wt && PYTHONPATH=$wt timeout 120 /venv/bin/python $src/demo.py 2>&1 | tail -3); clean_rc=$?
clean_rc=$(cd $wt && PYTHONPATH=$wt timeout 120 /venv/bin/python $src/demo.py >/dev/null 2>&1; echo $?)
git -C $wt apply $src/patch.diff; apply_rc=$?
mut_rc=$(cd $wt && PYTHONPATH=$wt timeout 120 /venv/bin/python $src/demo.py >/dev/null 2>&1; echo $?)
mut_out=$(cd $wt && PYTHONPATH=$wt timeout 120 /venv/bin/python $src/demo.py 2>&1 | tail -3)
suite=$(cd $wt && /venv/bin/python -m pytest -q -p no:cacheprovider --timeout=900 2>&1 | tail -1)
git -C /repo worktree remove --force $wt
ok=false
if [ "$apply_rc" = 0 ] && [ "$clean_rc" = 0 ] && [ "$mut_rc" != 0 ] && echo "$suite" | grep -q "449 passed" && ! echo "$suite" | grep -q failed; then ok=true; fi
mkdir -p $dst && cp $src/patch.diff $src/demo.py $dst/ && cp $src/notes.md $dst/notes.md 2>/dev/null
python3 - "$pid" "$var" "$ok" "$clean_rc" "$mut_rc" "$suite" "$clean_out" "$mut_out" "$dst" <<'PY'
import json,sys
pid,var,ok,crc,mrc,suite,cout,mout,dst=sys.argv[1:10]
notes=open(dst+'/notes.md').read() if __import__('os').path.exists(dst+'/notes.md') else ''
json.dump({"property":pid,"variant":var,"confirmed":ok=="true","breaks":pid,
 "needs_to_manifest":notes[:1500],
 "ran":{"demo_on_clean_tree":{"exit":int(crc),"tail":cout},"demo_on_changed_tree":{"exit":int(mrc),"tail":mout},
        "suite_on_changed_tree":suite,"cmd":"tools/confirm_seeded.sh (scratch worktree of /repo HEAD; PYTHONPATH=<worktree> /venv/bin/python demo.py; pytest -q in the worktree)"},
 "caught_by":None},open(dst+'/meta.json','w'),indent=1)
print(pid,var,"confirmed" if ok=="true" else "NOT CONFIRMED",crc,mrc,suite)
PY
