#!/usr/bin/env python3
"""regenerates /verif/MANIFEST.json from props.py (claimed checks) + properties.jsonl (the rest -> not_applicable)"""
import json, os, sys
V = os.path.dirname(os.path.dirname(os.path.abspath(__file__)))
sys.path.insert(0, V)
import props
allp = [json.loads(l)["id"] for l in open(os.path.join(V, "properties.jsonl"))]
checks = []
for pid in allp:
    P = props.PROPS.get(pid)
    if not P or P.get("unclaimed"):
        continue
    checks.append({
        "property_id": pid,
        "quick_cmd": "./check %s --tier quick" % pid,
        "thorough_cmd": "./check %s --tier thorough" % pid,
        "evidence_file": "/verif/evidence/%s.json" % pid,
        "replay_cmd_template": "./check %s --replay {path}" % pid,
        "engine": "pyvc",
        "level_claimed": {"category": "proof",
                          "text": P.get("level_text", "") or P.get("explanation", ""),
                          "design_ref": "DESIGN.md section 5 (%s), section 9 (as built)" % pid},
        "level_note": P.get("level_note", "") or "; ".join(P.get("assumptions", [])),
        "technique": P.get("technique", "contract-based deductive verification: sidecar contracts (pre/post/exceptional post, loop invariants, ghost state) on the real functions, "
                                        "VCs generated on every run by symbolic execution of the /repo ASTs (pyvc), modular at calls, discharged by z3 / cvc5; an obligation the "
                                        "solvers refute only modulo quantified axioms, leave open, or a function that leaves the verified subset is decided by replaying on the real "
                                        "code with the property's native harness (%s; bounded, never counted as proved), which also runs on every green run"
                                        % (P.get("harness") if isinstance(P.get("harness"), str) else ", ".join(P.get("harness") or []))),
    })
na = []
for pid in allp:
    if pid not in [c["property_id"] for c in checks]:
        reason = getattr(props, "NOT_APPLICABLE", {}).get(pid, "check not built yet (build in progress, see DESIGN.md section 6)")
        na.append({"property_id": pid, "reason": reason})
m = {"version": 1,
     "setup_cmd": "python3-vt -c 'import z3, sys; sys.exit(0)'",
     "hooks": {"guard": "PYRO5_VERIF", "enable": "no source hooks: contracts are sidecar files under /verif/contracts and /verif/specs; the verifier re-reads /repo/Pyro5/*.py on every run (PYVC_REPO=<dir> points it at a scratch copy for self-tests)",
               "baseline_off_cmd": "cd /repo && /venv/bin/python -m pytest -ra -q -p no:cacheprovider --timeout=900 --continue-on-collection-errors",
               "source_commits": [], "add_only": True},
     "engines": [{"name": "pyvc", "path": "/verif/pyvc", "serves_properties": [c["property_id"] for c in checks],
                  "kind_free_text": "VC generator for Python written for this task: parses the real functions from /repo on every run, executes them symbolically against sidecar contracts (pre/post/exceptional post/loop invariants/ghost state), modular at calls; obligations discharged by z3 5.1 (CLI z3-new; quantifier-free part first, then the full query) with cvc5 1.0.3 (--strings-exp) taking z3's unknowns, one generous retry for anything still open"}],
     "checks": checks,
     "notes": "30 fix: commits in /repo repair the defects found (known_findings.json, DESIGN.md 9.5); 17 further departures are listed as known findings; the reverse of every fix (mutants/prefix), 60 seeded property-breaking changes (seeded/), 13 behaviour-preserving refactorings (refactorings/) and hand-written mutations (mutants/Cxx) are the self-test of the thorough tier (DESIGN.md 9.4)",
     "not_applicable": na}
json.dump(m, open(os.path.join(V, "MANIFEST.json"), "w"), indent=1)
print("claimed:", [c["property_id"] for c in checks])
