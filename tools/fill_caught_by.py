#!/usr/bin/env python3
"""usage: fill_caught_by.py <matrix-output-file> [note]   -- writes the `caught_by` entry of seeded/<id>/meta.json from a mutant_matrix.sh result file"""
import json, os, re, sys
V = os.path.dirname(os.path.dirname(os.path.abspath(__file__)))
note = sys.argv[2] if len(sys.argv) > 2 else None
for ln in open(sys.argv[1]):
    m = re.match(r"(C\d\d-\w+) exit=(\d+) ?(.*)", ln.strip())
    if not m:
        continue
    sid, rc, first = m.group(1), int(m.group(2)), m.group(3)
    p = os.path.join(V, "seeded", sid, "meta.json")
    if not os.path.exists(p):
        continue
    meta = json.load(open(p))
    ob = first.split("obligation=")[-1] if "obligation=" in first else first
    how = "harness" if "runtime-contract" in ob else ("outside subset" if "outside-the-verified-subset" in ob else "deductive")
    if first.startswith("UNDECIDED") and rc == 1:
        how = "deductive (obligation left without proof) + harness"
    cb = {"check": "./check %s --tier quick" % sid.split("-")[0], "exit": rc, "how": how if rc == 1 else "NOT CAUGHT", "obligation": ob[:160]}
    if note:
        cb["note"] = note
    elif meta.get("caught_by") and meta["caught_by"].get("note"):
        cb["note"] = meta["caught_by"]["note"]
    meta["caught_by"] = cb
    json.dump(meta, open(p, "w"), indent=1)
    print(sid, rc, how)
