"""Property table: which sidecar modules, functions under contract, lemmas and native harness make up each check."""

PROPS = {
    "C17": {
        "modules": ["specs.socket_model", "contracts.socketutil"],
        "contracts": ["Pyro5.socketutil.receive_data", "Pyro5.socketutil.send_data"],
        "harness": "replay/c17.py",
        "explanation": "receive_data/send_data verified against ghost stream/out sequences of an assumed socket contract; "
                       "all sizes, all fragmentations, all error scripts, any number of loop iterations",
        "assumptions": ["socket objects behave as specs/socket_model.py states (validated against a scripted fake only)",
                        "socket.error instances carry an int errno (None-errno is covered by 'not in ERRNO_RETRIES') and non-empty args",
                        "ERRNO_RETRIES / USE_MSG_WAITALL are arbitrary but fixed during a call"],
    },
}
