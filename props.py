"""Property table: which sidecar modules, functions under contract, lemmas and native harness make up each check."""

PROPS = {
    "C17": {
        "modules": ["specs.socket_model", "contracts.socketutil"],
        "contracts": ["Pyro5.socketutil.receive_data", "Pyro5.socketutil.send_data"],
        "harness": "replay/c17.py",
        "explanation": "receive_data/send_data verified against ghost stream/out sequences of an assumed socket contract; "
                       "all sizes, all fragmentations, all error scripts, any number of loop iterations",
        "assumptions": ["socket objects behave as specs/socket_model.py states (validated against a scripted fake only)",
                        "socket.error instances carry an int errno (None-errno is covered by 'not in ERRNO_RETRIES') and non-empty args",
                        "ERRNO_RETRIES / USE_MSG_WAITALL are arbitrary but fixed during a call"],
    },
    "C06": {
        "modules": ["specs.socket_model", "specs.pystruct", "specs.seqdict", "contracts.socketutil", "contracts.protocol"],
        "contracts": ["Pyro5.protocol.SendingMessage.__init__", "Pyro5.protocol.ReceivingMessage.__init__",
                      "Pyro5.protocol.ReceivingMessage.validate", "Pyro5.protocol.ReceivingMessage.add_payload",
                      "Pyro5.protocol.recv_stub", "Pyro5.socketutil.SocketConnection.recv", "Pyro5.socketutil.receive_data"],
        "harness": "replay/c06.py",
        "explanation": "encoder proved to emit header ++ exact tiling of annotation chunks ++ payload (spec functions tile/off, loop "
                       "invariant, size check before anything is built); decoder proved to accept only payloads whose chunk walk "
                       "(spec function wpos) ends exactly at annotations_size, with every log entry equal to the bytes of its chunk; "
                       "recv_stub proved to consume exactly 40+annotations_size+data_size bytes, to refuse after 6 or 40 bytes "
                       "(too-large: at 40, before the body), and to raise body errors only after the whole message was consumed",
        "assumptions": ["struct big-endian layouts, zlib round trip (uninterpreted compress/decompress/valid), ascii codec pair: specs/pystruct.py, validated against the real libraries in replay/c06.py (bounded)",
                        "the composition decode(encode(f)) == f from the two contracts (tile/off vs wpos, an induction over the chunk index) is NOT machine checked: "
                        "it is covered only by the bounded native round trip in replay/c06.py",
                        "annotations=None and memoryview values with itemsize > 1 are outside the encoder contract's precondition"],
    },
    "C09": {
        "modules": ["specs.socket_model", "specs.opaque", "contracts.socketutil", "contracts.server_instances"],
        "contracts": ["Pyro5.server.Daemon._getInstance"],
        "harness": "replay/c09.py",
        "explanation": "_getInstance verified against the tables `class -> instance` of the daemon (single) and of the connection (session): "
                       "existing non-None entry reused, otherwise exactly one creation stored and returned, other keys and the other table "
                       "untouched, percall stores nothing, failing creations store nothing, creator calls == creations; every access to the "
                       "daemon table and every creation in single mode happens while holding create_single_instance_lock (monitor obligation), "
                       "which gives one instance per daemon for every interleaving",
        "assumptions": ["instances are opaque objects (truthiness/equality uninterpreted)", "threading.Lock provides mutual exclusion; "
                        "the step from `all accesses and the creation are inside one critical section` to `one instance for every interleaving` is the standard monitor argument (DESIGN 2.5), not machine checked",
                        "a connection's session table is only touched by the thread serving that connection"],
    },
}
