"""Property table: which sidecar modules, functions under contract, lemmas and native harness make up each check."""

PROPS = {
    "C17": {
        "modules": ["specs.socket_model", "contracts.socketutil"],
        "contracts": ["Pyro5.socketutil.receive_data", "Pyro5.socketutil.send_data"],
        "lemmas": ["C17:retry-delays-never-end"],
        "harness": "replay/c17.py",
        "explanation": "receive_data/send_data verified against ghost stream/out sequences of an assumed socket contract; "
                       "all sizes, all fragmentations, all error scripts, any number of loop iterations; connection-closed is raised only after a read reported end of "
                       "stream or a fatal socket error.  Lemma retry-delays-never-end (syntactic): the back-off generator both functions draw from with next() closes with "
                       "`while True:` around a yield without break / return / raise, so it is never exhausted (the two contracts assume next(delays) yields a value).",
        "assumptions": ["socket objects behave as specs/socket_model.py states (validated against a scripted fake only)",
                        "socket.error instances carry an int errno (None-errno is covered by 'not in ERRNO_RETRIES') and non-empty args",
                        "ERRNO_RETRIES / USE_MSG_WAITALL are arbitrary but fixed during a call"],
    },
    "C06": {
        "modules": ["specs.socket_model", "specs.pystruct", "specs.seqdict", "contracts.socketutil", "contracts.protocol", "contracts.wire_roundtrip"],
        "contracts": ["Pyro5.protocol.SendingMessage.__init__", "Pyro5.protocol.ReceivingMessage.__init__",
                      "Pyro5.protocol.ReceivingMessage.validate", "Pyro5.protocol.ReceivingMessage.add_payload",
                      "Pyro5.protocol.recv_stub", "Pyro5.socketutil.SocketConnection.recv", "Pyro5.socketutil.receive_data"],
        "lemmas": ["C06:wire-roundtrip"],
        "harness": "replay/c06.py",
        "explanation": "encoder proved to emit header ++ exact tiling of annotation chunks ++ payload (spec functions tile/off, loop "
                       "invariant, size check before anything is built); decoder proved to accept only payloads whose chunk walk "
                       "(spec function wpos) ends exactly at annotations_size, with every log entry equal to the bytes of its chunk; "
                       "recv_stub proved to consume exactly 40+annotations_size+data_size bytes, to refuse after 6 or 40 bytes "
                       "(too-large: at 40, before the body), and to raise body errors only after the whole message was consumed.  "
                       "Lemma wire-roundtrip (over the encoder's and the receiver's postconditions, 90 small proof steps incl. five inductions over the chunk index): "
                       "the bytes the encoder is allowed to produce, placed on a stream, can only be received as the message that was encoded - same type, serializer id, "
                       "sequence number, flags (COMPRESSED cleared), correlation id, the same annotation ids and values in the same order, the same payload (through zlib when "
                       "compressed), and exactly those bytes are consumed",
        "assumptions": ["struct big-endian layouts, zlib round trip (uninterpreted compress/decompress/valid), ascii codec pair: specs/pystruct.py, validated against the real libraries in replay/c06.py (bounded)",
                        "lemma wire-roundtrip: the induction principle over the chunk index and the syntactic instantiation of universally quantified contract clauses / "
                        "definitions at a term are trusted; a Python dict has pairwise distinct keys; the bytes sent are the bytes read (C17 contracts + TCP)",
                        "annotations=None and memoryview values with itemsize > 1 are outside the encoder contract's precondition"],
    },
    "C09": {
        "modules": ["specs.socket_model", "specs.opaque", "contracts.socketutil", "contracts.server_instances"],
        "contracts": ["Pyro5.server.Daemon._getInstance"],
        "lemmas": ["C09:instance-tables-frame"],
        "groups": [{"modules": ["specs.socket_model", "specs.pystruct", "specs.seqdict", "specs.opaque", "specs.daemon_model", "contracts.socketutil",
                                "contracts.protocol", "contracts.server_handshake", "contracts.server_instances", "contracts.servers",
                                "contracts.server_dispatch", "contracts.exception_response", "contracts.connection_close"],
                    "contracts": ["Pyro5.socketutil.SocketConnection.close#body", "Pyro5.svr_threads.ClientConnectionJob.__call__"]}],
        "harness": "replay/c09.py",
        "explanation": "_getInstance verified against the tables `class -> instance` of the daemon (single) and of the connection (session): "
                       "existing non-None entry reused, otherwise exactly one creation stored and returned, other keys and the other table "
                       "untouched, percall stores nothing, failing creations store nothing, creator calls == creations; every access to the "
                       "daemon table and every creation in single mode happens while holding create_single_instance_lock (monitor obligation), "
                       "which gives one instance per daemon for every interleaving.  Lemma instance-tables-frame (syntactic, on the AST of the current tree): no function of the package other than "
                       "Daemon.__init__ / _getInstance (and SocketConnection.__init__ / close for the session table) rebinds, mutates or passes on either instance table (pure reads are "
                       "allowed), so nothing else can drop or replace an instance between two calls.  Second contract group (shared with C13) - 'dropped when the connection ends': SocketConnection.close "
                       "drops the session instances (after the tracked resources were closed), and the thread server's per-connection job closes the connection exactly once on every exit "
                       "path, also when the disconnect hook raises",
        "assumptions": ["instances are opaque objects (truthiness/equality uninterpreted)", "threading.Lock provides mutual exclusion; "
                        "the step from `all accesses and the creation are inside one critical section` to `one instance for every interleaving` is the standard monitor argument (DESIGN 2.5), not machine checked",
                        "a connection's session table is only touched by the thread serving that connection"],
    },
}

_DISPATCH_MODS = ["specs.socket_model", "specs.pystruct", "specs.seqdict", "specs.opaque", "specs.daemon_model", "contracts.socketutil",
                  "contracts.protocol", "contracts.server_handshake", "contracts.server_instances", "contracts.servers",
                  "contracts.server_dispatch", "contracts.exception_response", "contracts.connection_close"]
_HR = "Pyro5.server.Daemon.handleRequest#body"
_COMMON_ASSUME = ["user code called back by Pyro (methods, accessors, validators, hooks, creators) may raise any Exception subclass and returns arbitrary values, "
                  "but does not reach into Pyro-internal state beyond what a contract states (DESIGN 4.4)",
                  "BaseExceptions that are not Exceptions (KeyboardInterrupt, SystemExit) are modelled only where the code names them",
                  "serializer libraries are uninterpreted (dumps/loads may raise); the socket obeys specs/socket_model.py",
                  "callees are represented by their contracts; a contract marked 'declared' (contracts/servers.py, server_dispatch.py *Decl) is the callee's "
                  "interface as assumed by this caller and is verified where its own property lists it"]

PROPS.update({
    "C08": {
        "modules": _DISPATCH_MODS,
        "contracts": ["Pyro5.server.Daemon._handshake", "Pyro5.protocol.recv_stub", "Pyro5.svr_threads.ClientConnectionJob.handleConnection",
                      "Pyro5.svr_threads.ClientConnectionJob.__call__", "Pyro5.svr_multiplex.SocketServer_Multiplex._handleConnection", _HR],
        "groups": [{"modules": ["specs.socket_model", "specs.pystruct", "specs.seqdict", "specs.opaque", "specs.daemon_model", "contracts.registry"],
                    "contracts": ["Pyro5.server.DaemonObject.get_metadata"]}],
        "harness": "replay/dispatch.py",
        "explanation": "DaemonObject.get_metadata (what _handshake asks whether the object exists; own group): metadata is handed out only for an id under which a live "
                       "object is registered at that moment - looked up in the registry on every request - and is the metadata of that very object; otherwise DaemonError.  "
                       "_handshake: CONNECTOK is sent (and True returned) only after a CONNECT message was received, the validator returned and the requested "
                       "object is registered; every other outcome sends exactly one CONNECTFAIL carrying str(reason), or fails while building/sending it; no object "
                       "method runs.  Thread job / multiplex accept path: handleRequest is reached (connection registered) only after _handshake returned True, a refused "
                       "connection is closed.  handleRequest: user code runs only for MSG_INVOKE.",
        "assumptions": _COMMON_ASSUME + ["multiplex events(): the selector holds only connections handed back by _handleConnection (composition, DESIGN C08)",
                                         "socket pairs handed to a daemon pre-connected are exempt (property text)"],
    },
    "C05": {
        "modules": _DISPATCH_MODS,
        "contracts": ["Pyro5.svr_threads.ClientConnectionJob.__call__", "Pyro5.svr_threads.ClientConnectionJob.handleConnection",
                      "Pyro5.svr_threads.ClientConnectionJob.denyConnection", "Pyro5.svr_multiplex.SocketServer_Multiplex.handleRequest",
                      "Pyro5.svr_multiplex.SocketServer_Multiplex._handleConnection", "Pyro5.server.Daemon._handshake", "Pyro5.protocol.recv_stub",
                      "Pyro5.server.Daemon._sendExceptionResponse#body", _HR],
        "groups": [{"modules": ["specs.socket_model", "specs.pystruct", "specs.seqdict", "contracts.socketutil", "contracts.protocol"],
                    "contracts": ["Pyro5.protocol.ReceivingMessage.__init__", "Pyro5.protocol.ReceivingMessage.validate", "Pyro5.protocol.ReceivingMessage.add_payload"]},
                   {"modules": ["specs.socket_model", "specs.pystruct", "specs.seqdict", "specs.opaque", "specs.daemon_model", "contracts.server_loops"],
                    "contracts": ["Pyro5.svr_threads.SocketServer_Threadpool.events", "Pyro5.svr_threads.SocketServer_Threadpool.loop",
                                  "Pyro5.svr_multiplex.SocketServer_Multiplex.events"]},
                   {"modules": ["specs.socket_model", "specs.pystruct", "specs.seqdict", "specs.opaque", "specs.daemon_model", "contracts.server_loops", "contracts.mux_loop"],
                    "contracts": ["Pyro5.svr_multiplex.SocketServer_Multiplex.loop"]},
                   {"modules": ["specs.socket_model", "specs.seqdict", "specs.opaque", "specs.daemon_model", "contracts.threadpool"],
                    "contracts": ["Pyro5.svr_threads.Worker.run", "Pyro5.svr_threads.Pool.notify_done", "Pyro5.svr_threads.Pool.process"]}],
        "harness": ["replay/dispatch.py", "replay/c18.py"],
        "explanation": "Daemon.handleRequest (body): after a normal return the connection is still open - the transport servers learn that a connection is finished only "
                       "from an exception - and a non-oneway request was answered exactly once.  Exception containment proved against the weakest callee contracts (handleRequest / _handshake / _clientDisconnect may raise ANY Exception): "
                       "nothing escapes the per-connection job of the thread server (so the worker always returns to the pool), the refusal path, the multiplex "
                       "per-connection handler and accept path (except ConnectionClosedError when the listening socket itself is gone); recv_stub raises only its declared "
                       "classes on arbitrary bytes; an error reply is produced for any exception that can be reported.  Second contract group (shared with C06): the message "
                       "decoder itself - ReceivingMessage.__init__ / validate / add_payload - raises only ProtocolError (AssertionError for a tiling mismatch) on arbitrary "
                       "header and payload bytes, whatever the length fields say.  Third group: the thread server's accept path - events() turns an accepted connection into exactly "
                       "one job offered to the pool once, denies (with a reason) exactly the jobs the pool refuses, and lets only OS errors of select/accept escape, before any "
                       "job exists; loop() contains those, so that only the caller's own loop condition can end the request loop with an exception; the multiplex server's events() (loop invariant over the "
                       "event sockets) lets only ConnectionClosedError from the accept path (listening socket gone) and the owner's housekeeping hook escape; the multiplex server's loop() (own group, contracts/mux_loop.py) contains a failing select() (counts as 'no events'), swallows socket timeouts, "
                       "ends normally on KeyboardInterrupt, and lets an exception out only from the caller's loopCondition(), a server's events() or the housekeeping hook.  Fourth group (shared with C18): "
                       "the worker side of 'never strands a worker' - Worker.run calls the job in its slot exactly once, whatever the job raises, clears the slot BEFORE it reports done "
                       "(so a job handed over right after notify_done is never lost) and always reports done; notify_done puts the worker back among the idle ones (or tells it to exit); "
                       "process hands a job only to a worker that is idle or new.",
        "assumptions": _COMMON_ASSUME + ["liveness (a silent peer blocking a read without COMMTIMEOUT), resource exhaustion and the scheduler are outside the technique",
                                         "accept path: the pool is open while the loop runs; OS-raised errors carry (errno, text); that the multiplex loop() hands every server exactly the sockets "
                                         "that were readable (the defaultdict grouping) is covered by the bounded harness only"],
    },
    "C13": {
        "modules": _DISPATCH_MODS,
        "contracts": ["Pyro5.svr_threads.ClientConnectionJob.__call__", "Pyro5.svr_multiplex.SocketServer_Multiplex.handleRequest",
                      "Pyro5.svr_multiplex.SocketServer_Multiplex._handleConnection", "Pyro5.socketutil.SocketConnection.close#body", _HR],
        "lemmas": ["C13:tracked-resources-frame"],
        "groups": [{"modules": ["specs.socket_model", "specs.pystruct", "specs.seqdict", "specs.opaque", "specs.daemon_model", "contracts.server_loops"],
                    "contracts": ["Pyro5.svr_multiplex.SocketServer_Multiplex.events"]},
                   {"modules": ["specs.socket_model", "specs.pystruct", "specs.seqdict", "specs.opaque", "specs.daemon_model", "specs.stream_model", "contracts.streams"],
                    "contracts": ["Pyro5.server.Daemon._clientDisconnect#streams"]}],
        "harness": ["replay/dispatch.py", "replay/c13_sched.py"],
        "explanation": "thread job: for an accepted connection every exit path (any exception class out of handleRequest, exception in the hook) runs the disconnect "
                       "handling exactly once and then closes the connection exactly once; a refused connection is closed once without hook.  close(): every tracked "
                       "resource closed exactly once whatever the others raise, nothing else closed, resource set emptied, session instances dropped, socket closed even if "
                       "shutdown() raised, keep_open is a no-op.  handleRequest: constructors of session/percall instances run with the call context already naming this "
                       "connection (so resources they track land on it).  multiplex: handleRequest(conn) reports inactive exactly when the request raised; events() (second contract group, loop invariant per socket event) gives a "
                       "connection that became inactive the disconnect hook, the unregistration and the close - each exactly once, in that order, also when the hook raises - "
                       "leaves active connections and the listening socket alone, and registers a new connection exactly when the accept path handed it back.  Third group (shared with C10): "
                       "Daemon._clientDisconnect itself - the stream-table walk (two loop invariants over a snapshot of the keys) cannot fail, touches only this connection's streams, and on every path the user's "
                       "disconnect hook then runs exactly once; only the hook's own exception can leave the function.",
        "assumptions": _COMMON_ASSUME + ["_clientDisconnect is proved sequentially; its interleavings with concurrent writers of the stream table (another connection registering / closing a stream, the housekeeper) "
                                         "are explored by the bounded schedule harness replay/c13_sched.py at bytecode granularity (found the KeyError race repaired by fix 9cbc9cc)",
                                         "multiplex events(): inactive -> _clientDisconnect, unregister, close is three straight-line statements checked by the native harness only",
                                         "daemon shutdown with open connections and GC-driven __del__ ordering are outside the claim"],
    },
    "C12": {
        "modules": _DISPATCH_MODS + ["contracts.client_invoke"],
        "contracts": [_HR, "Pyro5.server.Daemon._handshake", "Pyro5.server.Daemon._sendExceptionResponse#body", "Pyro5.client.Proxy._pyroInvoke"],
        "groups": [{"modules": ["specs.socket_model", "specs.pystruct", "specs.seqdict", "specs.opaque", "contracts.callcontext"],
                    "contracts": ["Pyro5.callcontext._CallContext.from_global", "Pyro5.callcontext._CallContext.to_global"]},
                   {"modules": ["specs.socket_model", "specs.pystruct", "specs.seqdict", "specs.opaque", "contracts.oneway_thread"],
                    "contracts": ["Pyro5.server._OnewayCallThread.__init__", "Pyro5.server._OnewayCallThread.run", "Pyro5.server._OnewayCallThread._methodcall"]},
                   {"modules": ["specs.socket_model", "specs.pystruct", "specs.seqdict", "specs.opaque", "specs.daemon_model", "contracts.blob_args"],
                    "contracts": ["Pyro5.client.Proxy.__serializeBlobArgs#body", "Pyro5.server.Daemon.__deserializeBlobArgs#body"]}],
        "harness": ["replay/dispatch.py", "replay/c03.py"],
        "explanation": "at every point where handleRequest runs user code the thread-local context holds this request's connection, sequence number, flags, serializer "
                       "id, annotations and a correlation id set during this request; every message sent by handleRequest, _handshake and _sendExceptionResponse carries only "
                       "daemon annotations plus annotations written during this request (ghost provenance on the annotation dict objects); the response-annotation dict "
                       "left by an earlier request is replaced by a fresh object at the start of every request and handshake (identity, which also cuts the sharing with a "
                       "oneway thread).  Oneway thread (third group, contracts/oneway_thread.py): _OnewayCallThread.__init__ takes the context snapshot exactly once, in the constructor (i.e. on the serving thread), and keeps method, arguments, daemon and client address as given; run() installs exactly that snapshot once BEFORE the method runs; _methodcall calls the method exactly once with the request's positional and keyword arguments and hands an Exception to the daemon's error handler.  Blob arguments (fourth group, contracts/blob_args.py): Proxy.__serializeBlobArgs writes exactly one entry (BLBI = marshalled (info, object id, method)) into the annotation dict it is GIVEN and adds the KEEPSERIALIZED flag - and _pyroInvoke (first group) never gives it the thread's own request annotations (fix e57670c); Daemon.__deserializeBlobArgs takes object id and method from that annotation and wraps THIS message.  Second contract group: _CallContext.to_global (the snapshot handed to a oneway-call thread) is a NEW dict holding exactly the eight context fields with their current values (not the live attribute dictionary, so later requests on the dispatching thread do not reach it); _CallContext.from_global (what the oneway-call thread starts from) overwrites every one of the eight context fields with the snapshot's value - nothing the thread had before survives.",
        "assumptions": _COMMON_ASSUME + ["threading.local gives each thread its own context object", "client side: after _pyroInvoke the thread's response annotations are this reply's annotations or a dict created during this call "
                                         "(never one left by an earlier call), also on failure",
                                         "that handleRequest creates the oneway thread while the request's context is installed (the constructor runs inside handleRequest, after the context assignments) is by inspection of the dispatch contract's event order; the values in the snapshot are shared by reference (the response_annotations dict object itself is shared until either side rebinds it - see fix 0299028)"],
    },
    "C07": {
        "modules": _DISPATCH_MODS,
        "contracts": ["Pyro5.server.Daemon._sendExceptionResponse#body", _HR],
        "groups": [{"modules": ["specs.socket_model", "specs.pystruct", "specs.seqdict", "specs.opaque", "specs.daemon_model", "contracts.deserialize"],
                    "contracts": ["Pyro5.serializers.SerializerBase.dict_to_class"]},
                   {"modules": ["specs.socket_model", "specs.pystruct", "specs.seqdict", "specs.opaque", "specs.daemon_model", "contracts.exception_roundtrip"],
                    "contracts": ["Pyro5.serializers.SerializerBase.class_to_dict#exception", "Pyro5.serializers.SerializerBase.make_exception#body"]}],
        "harness": "replay/dispatch.py",
        "explanation": "_sendExceptionResponse: exactly one RESULT message with the exception flag, the request's sequence number and serializer is sent; its payload is "
                       "the serialised exception with the traceback attached, or - for ANY exception raised by the first dumps - the serialised fallback PyroError built "
                       "from str()/type() of the original; it fails only for an unknown serializer id, a fallback that cannot be serialised either, a raising annotations() "
                       "hook, an oversized reply or a failing send.  handleRequest: a non-oneway request is answered exactly once on every normal return (result or error "
                       "reply carrying the request's sequence number), never silently.  Second contract group (shared with C04): dict_to_class rebuilds an exception "
                       "as the class its COMPLETE tag names - the whitelist is consulted with the whole tag, a name is resolved only in the module its namespace prefix spells "
                       "out (Pyro5.errors / builtins / sqlite3) - so a builtin exception never comes back as a same-named Pyro class.  Third contract group (the two ends of the "
                       "journey): class_to_dict turns an exception into exactly the four entries __class__ = module + '.' + name of ITS class, __exception__ = True, args = its args, "
                       "attributes = its instance attributes, all unchanged; make_exception constructs exactly one object, by calling the given class once with exactly the payload's "
                       "args, sets exactly the items of the payload's attribute dict on that object (loop invariant: one setattr per item, name and value of that item), sets nothing "
                       "without an attribute dict, and returns that object.",
        "assumptions": _COMMON_ASSUME + ["that the serializer libraries carry the four entries of the exception dict unchanged (up to the serializer's type mapping), and the composition class_to_dict -> wire -> "
                                         "dict_to_class -> make_exception, are argued in DESIGN 9.2.1 and observed by the bounded native harness (4 serializers x builtin and Pyro exception classes); "
                                         "no class_to_dict converter is registered for exception classes; the exception class is an opaque callable (may raise anything)"],
    },
    "C11": {
        "modules": _DISPATCH_MODS,
        "contracts": [_HR],
        "groups": [{"modules": ["specs.socket_model", "specs.pystruct", "specs.seqdict", "specs.opaque", "contracts.batch_client"],
                    "contracts": ["Pyro5.client.BatchProxy.__call__", "Pyro5.client.BatchProxy._pyroInvoke"]},
                   {"modules": ["specs.socket_model", "specs.pystruct", "specs.seqdict", "specs.opaque", "specs.daemon_model", "contracts.blob_args"],
                    "contracts": ["Pyro5.client.Proxy._pyroInvokeBatch#body"]}],
        "harness": "replay/dispatch.py",
        "explanation": "Proxy._pyroInvokeBatch (third group; what the client-side contracts use by declared interface): exactly one _pyroInvoke of '<batch>' with the call list it was given, no keyword arguments, flags BATCH (+ ONEWAY when asked).  Batch branch of handleRequest, loop invariant over the calls made so far: one result and one invocation per call (ghost counters), each call "
                       "goes through the same exposure gate and the same invocation as a single call; the loop stops at the first failing call whose wrapper is the last "
                       "result; a gate refusal ends the whole request before the refused call runs; a oneway batch sends nothing.  Client side (second contract group): BatchProxy.__call__ / _pyroInvoke send exactly one <batch> request carrying the queue object itself with the caller's oneway choice, hand back the generator over that request's results (nothing for oneway) and leave a new empty queue behind, so a re-used batch proxy never repeats calls.",
        "assumptions": _COMMON_ASSUME + ["the client side (BatchProxy collecting calls in order, replaying results, re-raising the wrapper) and `same effect as sequential calls` on a "
                                         "stateful object are covered by the bounded native harness only"],
    },
    "C16": {
        "modules": _DISPATCH_MODS,
        "contracts": [_HR],
        "groups": [{"modules": ["specs.socket_model", "specs.pystruct", "specs.seqdict", "specs.opaque", "specs.daemon_model", "contracts.registry"],
                    "contracts": ["Pyro5.server.Daemon.register", "Pyro5.server.Daemon.unregister", "Pyro5.server.Daemon.uriFor#body",
                                  "Pyro5.server._pyro_obj_to_auto_proxy", "Pyro5.server.Daemon._unregister_collected", "Pyro5.server.DaemonObject.get_metadata",
                                  "Pyro5.server.Daemon.proxyFor#body", "Pyro5.server.Daemon.resetMetadataCache"],
                    "lemmas": ["C16:registry-frame"]},
                   {"modules": ["specs.socket_model", "specs.pystruct", "specs.seqdict", "specs.opaque", "contracts.type_replacement"],
                    "contracts": ["Pyro5.serializers.JsonSerializer.register_type_replacement", "Pyro5.serializers.MsgpackSerializer.register_type_replacement",
                                  "Pyro5.serializers.JsonSerializer.default#replacement", "Pyro5.serializers.MsgpackSerializer.default#replacement"]}],
        "harness": "replay/dispatch.py",
        "explanation": "dispatch part: the object a request reaches is the registry entry of the request's object id (weak reference unpacked, class instantiated via "
                       "_getInstance); 'unknown object' is answered only when that entry is None; every invoked member was resolved on that object.  Registry operations (own contract group, stated for one arbitrary id = every id): register puts exactly the new id -> this object (a weak reference to it when weak) into the table, leaves every other id alone, sets _pyroId/_pyroDaemon on the object, takes over an id already in use or re-registers a currently registered object only when forced, never registers a class weakly, refuses (DaemonError / TypeError) without touching the table; unregister (by id or by object) removes exactly that id, never the daemon's own, strips the object's id attributes; uriFor hands out a uri for an object only while its id is registered; the auto-proxy hook replaces an object by one proxy made by its daemon exactly when its id currently designates it (or its class) in the registry and otherwise lets it travel by value; the collection callback of a weak registration (_unregister_collected, bound to the id and to the very weak reference stored) forgets the id exactly while it still holds that reference; DaemonObject.get_metadata answers only for an id with a live entry, from the registry as it is now; proxyFor (body) makes exactly one proxy, for the uri uriFor hands out, only for an id under which something is registered now, and gives it the metadata of the object that id designates; resetMetadataCache drops the cached member list exactly of the object its id designates, and only if something is registered there.  Type replacement tables of the json / msgpack serializers (third group; what turns a registered object into a proxy on its way out): register_type_replacement writes exactly the entry of the given class (refusing non-classes and `type`), default() looks the exact type of the object up in the table as it is at that moment, calls the function found there exactly once on that very object and converts what it returned; nothing is called when no entry exists.  Lemma registry-frame (syntactic): objectsById is rebound / mutated / passed on only by these functions and the constructor.",
        "assumptions": _COMMON_ASSUME + ["registry contracts: the registered object is a plain Python object (setting / deleting its Pyro attributes runs no user code), sequential "
                                         "semantics, proxyFor and the type-replacement registration with the serializers as declared; whole histories (falsy, weak, re-used "
                                         "ids, garbage collection) only in the bounded native harness", "GC timing of weak references"],
    },
    "C02": {
        "modules": _DISPATCH_MODS + ["contracts.exposure"],
        "contracts": ["Pyro5.server.is_private_attribute", "Pyro5.server._get_attribute#body", "Pyro5.server._get_exposed_property_value#body",
                      "Pyro5.server._set_exposed_property_value#body", _HR],
        "groups": [{"modules": ["specs.socket_model", "specs.pystruct", "specs.seqdict", "specs.opaque", "specs.daemon_model", "contracts.exposure", "contracts.expose_decorator"],
                    "contracts": ["Pyro5.server.expose#class"]},
                   {"modules": _DISPATCH_MODS + ["contracts.exposure", "contracts.exposed_members"],
                    "contracts": ["Pyro5.server._get_exposed_members#compute", "Pyro5.server._reset_exposed_members"]}],
        "harness": "replay/dispatch.py",
        "explanation": "_get_exposed_members (third group; the advertised member list, computed on a cache miss by a loop over dir(cls) with an inductive invariant): `methods` holds exactly the listed non-private names whose class attribute is a function / method / method descriptor flagged exposed, `oneway` those of them flagged oneway, `attrs` exactly the non-private names whose class attribute is a data descriptor (and none of the former) whose first accessor is flagged exposed - the same predicates the serving gates test - and that result is what gets cached under the key (class, only_exposed); _reset_exposed_members (what Daemon.resetMetadataCache calls) drops exactly that key.  is_private_attribute: every leading-underscore name not of dunder form and every reserved dunder name is private, nothing without a leading "
                       "underscore is.  _get_attribute (object model of attribute lookup): a name is served only if it is not private, the class attribute is not a data "
                       "descriptor (so no property getter ever runs while resolving a method name), the instance has the attribute and it is flagged exposed; exactly that "
                       "attribute is returned; every refusal is an AttributeError and runs no code of the object.  _get/_set_exposed_property_value: the accessor that runs "
                       "is the fget/fset of the class's own property of that non-private name, flagged exposed, called on the target object, exactly once.  "
                       "dispatch part: in all five request kinds user code is reached only through _get_attribute / _get_exposed_property_value / _set_exposed_property_value "
                       "applied to the name taken from the request and the dispatched object (no other path to a call), a refused non-oneway request gets an error reply and a "
                       "oneway request none.  Second contract group: @expose applied to a class (loop invariant over the names of the class's own __dict__) marks only members the class itself defines (or their underlying function / accessors), never a private name, then the class object itself, and nothing else.",
        "assumptions": _COMMON_ASSUME + ["object model of CPython attribute lookup (contracts/exposure.py): uninterpreted class_attribute / instance_getattr / is_data_descriptor / "
                                         "_pyroExposed flag; no __getattr__ or metaclass overrides on registered classes; validated by the native harness on generated class shapes (bounded)",
                                         "that what _get_exposed_members advertises (predicates over getattr(CLASS, name)) coincides with what the gates serve (predicates over getattr(INSTANCE, name)) rests on the object model (no instance attribute shadows a class member: listed findings), the per-class cache's staleness (resetMetadataCache) and the client's use of the metadata are covered by the bounded native harness only"],
    },
    "C03": {
        "modules": _DISPATCH_MODS + ["contracts.client_invoke"],
        "contracts": ["Pyro5.client.Proxy._pyroInvoke", "Pyro5.client._RemoteMethod.__call__", _HR, "Pyro5.protocol.recv_stub",
                      "Pyro5.socketutil.SocketConnection.recv", "Pyro5.socketutil.SocketConnection.send"],
        "groups": [{"modules": ["specs.socket_model", "specs.pystruct", "specs.seqdict", "specs.opaque", "specs.daemon_model", "contracts.socketutil", "contracts.protocol",
                                "contracts.server_handshake", "contracts.servers", "contracts.client_invoke", "contracts.client_connect"],
                    "contracts": ["Pyro5.client.Proxy.__pyroCreateConnection#body"]},
                   {"modules": ["specs.socket_model", "specs.pystruct", "specs.seqdict", "specs.opaque", "specs.daemon_model", "specs.stream_model", "contracts.streams"],
                    "contracts": ["Pyro5.client._StreamResultIterator.__next__", "Pyro5.client._StreamResultIterator.close"]},
                   {"modules": ["specs.socket_model", "specs.pystruct", "specs.seqdict", "specs.opaque", "specs.daemon_model", "contracts.blob_args"],
                    "contracts": ["Pyro5.client.Proxy._pyroGetMetadata#body", "Pyro5.client.Proxy.__processMetadata#body"]}],
        "harness": ["replay/c03.py", "replay/dispatch.py", "replay/c10.py"],
        "explanation": "Metadata request (fourth group; what __pyroCreateConnection uses by declared interface): _pyroGetMetadata makes at most one connection attempt and at most one remote request - get_metadata(<object id>) addressed to the daemon's own object - and none at all when the metadata is already known; __processMetadata turns the metadata's oneway / methods / attrs entries into the proxy's three name sets and never accepts metadata that exposes nothing.  client side (_pyroInvoke): at most one request per call, carrying the 16-bit incremented sequence number; a call that returns has consumed "
                       "exactly one whole RESULT message whose sequence number equals the request's and whose serializer matches, never returns a reply flagged as "
                       "exception as a value; oneway returns None without reading; a communication error or KeyboardInterrupt after the request went out always "
                       "releases the connection; any other exception leaves the reply stream message-aligned (nothing read or one whole reply consumed).  "
                       "_RemoteMethod.__call__: between 1 and MAX_RETRIES+1 sends, a further send only after ConnectionClosedError/TimeoutError, the loop cannot run out "
                       "silently (precondition MAX_RETRIES >= 0).  server side: a reply (result or error) carries the request's sequence number and serializer id, a non-oneway request gets exactly one, a oneway "
                       "request none, a non-batch request invokes at most one member; reads consume exactly one message (C06/C17 contracts).  Second contract group - the body of "
                       "Proxy.__pyroCreateConnection (the base case of the per-proxy invariant): after ANY exit the proxy either holds no connection, or the connection made during this call on which "
                       "exactly one CONNECT message (this proxy's sequence number, the context's annotations) went out and exactly one whole reply, a CONNECTOK, was consumed - a refused, "
                       "malformed or cut-off handshake never leaves a connection behind; an already connected proxy causes no traffic; a nested re-issue of a call (_pyroInvoke calling "
                       "itself) counts as a second request.  Third contract group (shared with C10): a fetch of the next item of a streamed result is ONE get_next_stream_item call for the "
                       "iterator's own stream id whose result (or exception) is handed on unchanged - never re-issued behind the caller's back.",
        "assumptions": _COMMON_ASSUME + ["delivery semantics of real TCP, forged matching sequence numbers",
                                         "the induction over the call history of one proxy (aligned and nothing outstanding, or no connection) is a pencil composition of the per-call contracts",
                                         "_pyroInvoke uses Proxy.__pyroCreateConnection through a declared call-site contract (a fresh message-aligned connection, or an exception leaving no connection or a fully "
                                         "handshaken one); the body is verified against it in the second contract group with core.resolve, create_socket, get_ssl_context, __processMetadata, the "
                                         "_pyroValidateHandshake hook and _pyroGetMetadata (one _pyroInvoke by its own contract) as assumed interfaces (contracts/client_connect.py); connected_socket=None only"],
    },
    "C15": {
        "modules": ["specs.socket_model", "specs.seqdict", "specs.opaque", "specs.storage_model", "contracts.nameserver_locks"],
        "contracts": ["Pyro5.nameserver.NameServer.count", "Pyro5.nameserver.NameServer.lookup", "Pyro5.nameserver.NameServer.register",
                      "Pyro5.nameserver.NameServer.set_metadata", "Pyro5.nameserver.NameServer.remove", "Pyro5.nameserver.NameServer.list",
                      "Pyro5.nameserver.NameServer.yplookup"],
        "lemmas": ["C15:storage-frame"],
        "harness": "replay/c15.py",
        "explanation": "monitor discipline of the seven public NameServer operations: every storage access (contains, getitem, setitem, delitem, len, iteration, "
                       "optimized queries, everything, remove_items) is made while holding self.lock (M1, ghost lock depth on every path incl. exceptional ones), all "
                       "accesses of one operation lie in ONE outermost critical section (M3; nested operations such as remove->list re-enter the held RLock), the lock is "
                       "released on every exit.  With mutual exclusion this makes every operation atomic for every interleaving and any number of clients.  Lemma storage-frame (syntactic): "
                       "nothing but these seven operations, the constructor and the closing of the name server daemon touches the storage.",
        "assumptions": ["threading.RLock provides mutual exclusion; each single storage method is atomic (dict operation under the GIL / one sqlite transaction)",
                        "the step from M1+M3 to linearizability is the standard monitor argument (DESIGN 2.5), not machine checked",
                        "the storage is the abstract interface Sigma of specs/storage_model.py"],
    },
    "C18": {
        "modules": ["specs.socket_model", "specs.seqdict", "specs.opaque", "specs.daemon_model", "contracts.threadpool"],
        "contracts": ["Pyro5.svr_threads.Pool.process", "Pyro5.svr_threads.Pool.notify_done", "Pyro5.svr_threads.Pool.close", "Pyro5.svr_threads.Pool.worker_died",
                      "Pyro5.svr_threads.Worker.run"],
        "lemmas": ["C18:pool-state-frame"],
        "harness": "replay/c18.py",
        "explanation": "Pool.process: the job is handed to exactly one worker that was idle or is a newly started one (started only while fewer than THREADPOOL_SIZE exist), "
                       "that worker is busy afterwards; NoFreeWorkersError exactly when nobody is idle and THREADPOOL_SIZE workers exist, with nothing changed; PoolError when "
                       "closed.  notify_done: the worker leaves busy and is idle again or told to exit, never both.  close: closed set, only None handed out and only to "
                       "idle workers, no lock held while joining, never joins itself.  All three keep the monitor invariant (idle, busy disjoint, |idle|+|busy| <= "
                       "THREADPOOL_SIZE) and access idle/busy/closed only while holding count_lock in one critical section.  worker_died (a worker whose job ended with a BaseException) only takes that worker out of busy.  Worker.run: the job in the slot is called "
                       "exactly once, the slot is cleared before the worker reports done and never written while the pool owns it.  Lemma pool-state-frame (syntactic): idle, busy, closed and a "
                       "worker's job slot are rebound / mutated / passed on only by these functions and the constructors (Worker.process is the three-line hand-off into the slot).",
        "assumptions": ["threading.Lock gives mutual exclusion; M1+M3+sequential invariant => invariant for every interleaving (DESIGN 2.5), not machine checked",
                        "set cardinalities are tracked as ghost integers with the facts card>=1 for a set with a known member",
                        "thread start/exit timing, join time-outs and liveness of close() are outside the technique",
                        "the refusal path in SocketServer_Threadpool.events (NoFreeWorkersError -> denyConnection) is covered by ClientConnectionJob.denyConnection's contract (C05) and the native harness"],
    },
    "C19": {
        "modules": ["specs.socket_model", "specs.pystruct", "specs.seqdict", "specs.opaque", "specs.strings", "contracts.uri"],
        "contracts": ["Pyro5.core.URI._parseLocation", "Pyro5.core.URI.location", "Pyro5.core.URI.__eq__", "Pyro5.core.URI.__setstate__",
                      "Pyro5.core.URI.__init__", "Pyro5.core.URI.__str__", "Pyro5.core.URI.__hash__"],
        "lemmas": ["C19:loc_roundtrip", "C19:uri_text_roundtrip"],
        "harness": "replay/c19.py",
        "explanation": "_parseLocation proved against an exact string-level specification per location form (unix socket, host:port with the first ':' as separator "
                       "and int() of the rest or the default port, bracketed IPv6) and to refuse exactly the invalid inputs; the `location` property proved to print "
                       "'[host]:port' / 'host:port' / './u:name' / None from the state; lemma loc_roundtrip (over the two contracts): for every state the parser can "
                       "produce from a unix-socket or host:port location, the printed location is accepted again and parses to the same (sockname, host, port); "
                       "__eq__ holds exactly when the five state components are equal; __setstate__ (the path behind URI(uri) copies, copy.copy and every serializer's re-creation) takes the five components over unchanged, port 0 and None included.  __init__ (PYRO / PYRONAME texts): the text is split by the uri pattern into protocol / object / location, the protocol upper-cased, the object "
                       "taken literally, the location parsed by _parseLocation with the name-server port (PYRONAME) or no default (PYRO, which must have a location); refused exactly for a "
                       "non-matching text, an unknown protocol, PYRO without location or an invalid location.  __str__: protocol ':' object, then '@' location exactly when there is one.  "
                       "__hash__: a function of exactly the five components __eq__ compares.  Lemma uri_text_roundtrip: the printed text of a uri that __init__ produced is split by the uri "
                       "pattern into the same protocol, the same object and exactly the printed location (none when none was printed) - with loc_roundtrip this is URI(str(u)) == u "
                       "component by component for PYRO / PYRONAME uris with unix-socket or host:port locations.",
        "assumptions": ["SMT string theory for str operations; int() through int_parses/int_val with int('%d' % n) == n; the IPv6 regex as specified in specs/strings.py "
                        "(validated against `re` on all strings <= 5 over an 8-letter alphabet: bounded)",
                        "the uri pattern (uriRegEx) as specified in specs/strings.py uri_split for texts without a newline (validated against `re` exhaustively on short strings and on 20k sampled ones: bounded); "
                        "str.upper uninterpreted with upper('PYRO') == 'PYRO', upper('PYRONAME') == 'PYRONAME'; hash() of the state tuple is a function of its components; the premises of "
                        "lemma uri_text_roundtrip restate the postconditions of __init__ / __str__ / location by hand",
                        "NOT decided deductively (bounded native harness only): the bracketed IPv6 round trip, texts containing newlines, PYROMETA (object is a tag set), the proxy state and serializer paths",
                        "string obligations are decided by cvc5 where z3 gives up; lemma hints are proved before they are used"],
    },
    "C20": {
        "modules": ["specs.socket_model", "specs.pystruct", "specs.seqdict", "specs.opaque", "specs.daemon_model", "specs.strings", "contracts.gateway"],
        "contracts": ["Pyro5.utils.httpgateway.process_pyro_request"],
        "groups": [{"modules": ["specs.socket_model", "specs.pystruct", "specs.seqdict", "specs.opaque", "specs.daemon_model", "specs.strings", "contracts.gateway", "contracts.gateway_app"],
                    "contracts": ["Pyro5.utils.httpgateway.pyro_app", "Pyro5.utils.httpgateway.singlyfy_parameters#body"]},
                   {"modules": ["specs.socket_model", "specs.pystruct", "specs.seqdict", "specs.opaque", "contracts.gateway_replies"],
                    "contracts": ["Pyro5.utils.httpgateway.cors_response_header", "Pyro5.utils.httpgateway.invalid_request#body", "Pyro5.utils.httpgateway.option_request#body",
                                  "Pyro5.utils.httpgateway.not_found#body", "Pyro5.utils.httpgateway.redirect#body"]}],
        "harness": "replay/c20.py",
        "explanation": "process_pyro_request: every piece of Pyro traffic (name server connection, lookup, metadata fetch, remote attribute fetch, remote call) happens only "
                       "on paths where the configured gateway key was presented (header or $key, as a str whose utf-8 bytes equal the key) and the object name matches the "
                       "expose pattern; the name looked up and the member used are the ones named in the path; the call goes through the one proxy made for the looked-up "
                       "URI and passes exactly the query parameters (without $key when a key is configured); at most one lookup and one call per request; every refusal "
                       "(403/404/405) happens without any Pyro traffic; exactly one HTTP status line on every path; the proxy is released.  Second contract group (routing): pyro_app forwards a request to process_pyro_request exactly when its path (leading slashes dropped) starts with "
                       "'pyro/' and its method is GET or POST - with the path behind that prefix, the same environ and start_response, and the parameters parsed ONCE from QUERY_STRING with blank values "
                       "kept (an empty value is a value) and made single; every other request gets exactly one of the fixed replies and nothing is forwarded; singlyfy_parameters (loop invariant) replaces "
                       "every value that is a list / tuple of exactly one element by that element, keeps every other value, every key and the size.  Third group (the fixed replies the other two groups use by declared interface): invalid_request / option_request / not_found / redirect each call start_response exactly once with their fixed status line (405 / 200 / 404 / 302 + Location = the target) and call nothing else; cors_response_header appends exactly the three CORS headers with the configured origin.",
        "assumptions": ["WSGI environ/start_response, the name-server proxy, client.Proxy (incl. that names starting with '_' would be resolved on the local proxy object), "
                        "JSON and a user supplied expose pattern are modelled / uninterpreted (contracts/gateway.py)",
                        "the split regex (.+)/(.+) as specified; second contract group (routing): urllib.parse.parse_qs uninterpreted (its keep_blank_values argument is observed), the four fixed replies "
                        "(redirect, OPTIONS, 405, 404) and process_pyro_request by their interfaces, str.lstrip('/') as 'a suffix that does not start with /'; the parameter dict as an in-place walked association list",
                        "fidelity of JSON and of the remote call itself (C01/C03)"],
    },
    "C01": {
        "modules": ["specs.socket_model", "specs.pystruct", "specs.seqdict", "specs.opaque", "specs.daemon_model", "contracts.serial_symmetry", "contracts.msgpack_ext"],
        "contracts": ["Pyro5.serializers.SerializerBase.recreate_classes"] +
                     ["Pyro5.serializers.%s.%s" % (c, m) for c in ("SerpentSerializer", "MarshalSerializer", "JsonSerializer", "MsgpackSerializer")
                      for m in ("dumps", "dumpsCall", "loads", "loadsCall")] +
                     ["Pyro5.serializers.MsgpackSerializer.default#long", "Pyro5.serializers.MsgpackSerializer.ext_hook#long"] +
                     ["Pyro5.serializers.MsgpackSerializer.%s#%s" % (f, k) for f in ("default", "ext_hook") for k in ("complex", "datetime", "date")] +
                     ["Pyro5.serializers.MsgpackSerializer.ext_hook#unknown-code"],
        "lemmas": ["C01:msgpack-long-roundtrip", "C01:msgpack-ext-roundtrip"],
        "harness": "replay/c01.py",
        "explanation": "what Pyro's own code contributes to the value mapping is proved symmetric: recreate_classes equals the structural spec function `recreated` "
                       "(a set / list / tuple comes back as the same container with EVERY element replaced by its own re-creation, a class-tagged dict goes whole and once "
                       "to dict_to_class, a plain dict keeps every key and re-creates every value in item order (loop invariant), anything else is returned untouched); "
                       "for each of the four serializers dumps and dumpsCall make exactly one library encoder call with the same fixed option set, dumpsCall encodes "
                       "exactly (object, method, vargs, kwargs) unconverted (marshal: every positional and keyword argument through the same `marshallable` conversion "
                       "that dumps applies to a result; absent kwargs stay None), loads and loadsCall make exactly one decoder call with the same fixed option set on "
                       "exactly the payload, and re-create vargs, kwargs and results with the same function; msgpack's `long` extension (integers beyond 64 bit): default(n) is ExtType(0x31, ASCII decimal "
                       "text of n), ext_hook(0x31, d) is the integer d spells, and (lemma over the two contracts) ext_hook undoes default for every integer; the other extension branches of default / ext_hook "
                       "(complex 0x30 = two doubles real, imag; naive datetime 0x32 = one double POSIX timestamp, aware datetimes refused with SerializeError; date 0x33 = ordinal as native long; any other "
                       "code refused) are each proved to be exactly the library pair applied to the value / payload (so e.g. decoding cannot depend on the sign of the timestamp), and lemma "
                       "msgpack-ext-roundtrip composes them: ext_hook undoes default for complex and date values, and for datetimes up to the library's own fromtimestamp(timestamp(d)).  The library codecs' own value mapping (lossless core, "
                       "tuples as lists, ...), the default()/ext_hook conversions, compression (C06 proves the frame transparent) and the end-to-end positions "
                       "(echo method, batch, stream) are observed by the bounded harness only.",
        "assumptions": ["serpent / json / marshal / msgpack encoders and decoders are uninterpreted functions of (input, options) that may raise; that they invert each other on "
                        "the lossless core is NOT proved (bounded harness: ~2.4k quick / ~37k thorough generated values x 4 serializers x positions, compression on/off)",
                        "decoded literals are plain data of exactly one builtin container type or atoms; UTF-8 encode/decode as inverse partial functions",
                        "JsonSerializer.default / MsgpackSerializer.default / ext_hook / object_hook are handed to the library by reference; apart from msgpack's extension "
                        "branches (struct 'd'/'dd'/'l', datetime.timestamp/fromtimestamp, date.toordinal/fromordinal, complex parts as uninterpreted library pairs; the set / uuid / decimal / "
                        "array / class_to_dict branches of default are not under contract) their bodies are covered by the harness (and C04 for object_hook's dict_to_class); int(str(n)) == n and ASCII encode/decode as inverse "
                        "functions are assumed (validated in replay/c19.py)"],
    },
    "C04": {
        "modules": ["specs.socket_model", "specs.pystruct", "specs.seqdict", "specs.opaque", "specs.daemon_model", "contracts.deserialize"],
        "contracts": ["Pyro5.serializers.SerializerBase.dict_to_class"],
        "lemmas": ["C04:decoding-closure"],
        "groups": [{"modules": ["specs.socket_model", "specs.pystruct", "specs.seqdict", "specs.opaque", "specs.daemon_model", "contracts.exception_roundtrip"],
                    "contracts": ["Pyro5.serializers.SerializerBase.make_exception#body"]}],
        "harness": "replay/c04.py",
        "explanation": "Members of a class dict may already be revived objects (msgpack's object_hook runs bottom-up; a Proxy answers iteration, indexing, len() and attribute access by calling its remote object): the state handed to URI / Proxy / Daemon.__setstate__ and the three name collections of a proxy state are taken apart only after they were checked to be plain lists / tuples (sets), make_exception (second group, body) star-expands `args` and walks `attributes` only after the same check (fix f5b7b92).  SerializerBase.dict_to_class proved, for every tag string: the only callable that is not one of Pyro's fixed constructors is a converter "
                       "registered for exactly this tag; Pyro's own classes and make_exception are reached only for tags without a double underscore and without a "
                       "registered converter; names are resolved by getattr only in Pyro5.errors / builtins / sqlite3 with the namespace prefix matched exactly; "
                       "make_exception's precondition (only BaseException subclasses are instantiated) holds at every call site; the exception whitelist and the "
                       "converter registry are never written.  Lemma decoding-closure (syntactic, on the AST of the current tree): the decoding functions name no "
                       "importer, evaluator or opener and import nothing but sqlite3 and Pyro's own modules.  Reachable types of whole decoded payloads per "
                       "serializer, audit events and both decoding paths: bounded native harness only.",
        "assumptions": ["the decoded payload is a dict with string keys whose MEMBERS are arbitrary values (plain data, or - msgpack - objects already revived by this very function); getattr(module, name) and issubclass are uninterpreted, "
                        "issubclass upward closed along the known class lattice; all_exceptions holds only BaseException subclasses (import-time filter, not re-proved)",
                        "recreate_classes, the msgpack hooks, the serpent float case, __setstate__ of URI/Proxy/Daemon and make_exception's body are covered by the "
                        "syntactic lemma and the bounded harness only (audit hook over ~50k quick / ~500k thorough decodes)"],
    },
    "C10": {
        "modules": ["specs.socket_model", "specs.pystruct", "specs.seqdict", "specs.opaque", "specs.daemon_model", "specs.stream_model", "contracts.streams"],
        "contracts": ["Pyro5.server.Daemon._streamResponse#body", "Pyro5.server.DaemonObject.get_next_stream_item", "Pyro5.server.DaemonObject.close_stream",
                      "Pyro5.server.Daemon._clientDisconnect#streams", "Pyro5.server.Daemon._housekeeping#streams",
                      "Pyro5.client._StreamResultIterator.__next__", "Pyro5.client._StreamResultIterator.close"],
        "lemmas": ["C10:stream-table-frame"],
        "groups": [{"modules": _DISPATCH_MODS, "contracts": [_HR]},
                   {"modules": _DISPATCH_MODS + ["contracts.client_invoke"], "contracts": ["Pyro5.client.Proxy._pyroInvoke"]}],
        "harness": ["replay/c10.py", "replay/c10_sched.py"],
        "explanation": "per-operation contracts over the stream table T : id -> (owner, created, linger start, iterator), stated for one arbitrary id (free constant = "
                       "every id): registration adds exactly one entry (this connection, now, not lingering, the iterator) or nothing; get_next_stream_item returns "
                       "item(it, pos) of THIS stream's iterator and advances only it, re-attaches a lingering stream and clears its linger clock, forgets the stream on "
                       "any exception of next() (StopIteration included) and re-raises that exception, answers an unknown id with PyroError touching nothing; "
                       "close_stream forgets exactly that id; _clientDisconnect (loop invariants) turns exactly this connection's streams into lingering ones with a "
                       "clock value read during the disconnect, or forgets exactly those when linger is off, then runs the user hook once; _housekeeping (two loop "
                       "invariants) only deletes, deletes only entries past lifetime / past linger at the clock read, and leaves none that was already expired when it "
                       "began; the client iterator makes exactly one get_next_stream_item call per item for its own id, returns that call's result, ends (sticky "
                       "StopIteration) exactly when the call raised StopIteration/GeneratorExit and stays open on any other error, close() sends at most one oneway "
                       "close_stream and uses its own proxy only while in sequence.  End-to-end sequences (items at the client = the server iterator's items) follow "
                       "from these per-call contracts plus C03 by induction on the number of fetches; that induction is argued in DESIGN.md, not machine-checked.  Second contract group (the stream branch of Daemon.handleRequest): an item-stream announcement (error reply "
                       "flagged ITEMSTREAMRESULT) is sent only after _streamResponse reported a stream for this request's result, it names exactly the registered stream id (one annotation "
                       "STRM = the id, encoded; none when streaming is disabled), and a result that became a stream is never also sent as an ordinary reply.  Lemma stream-table-frame: the table "
                       "is written only by the functions under contract, the constructor and close() / shutdown().",
        "assumptions": ["the deductive contracts are sequential: two workers / the housekeeper touching the stream table at the same time are not covered by them (the code has no common lock); "
                        "the bounded schedule harness replay/c10_sched.py interleaves PAIRS of table operations at bytecode granularity (strict alternation, and 'one thread runs k instructions, then the other') - "
                        "it found the check-then-delete races repaired by fix 9cbc9cc and the listed finding C10-disconnect-resurrects-closed-stream",
                        "next(it) on a server-side iterator = ghost sequence (item(it, pos), pos+1) or any Exception subclass at its end; generators raising "
                        "BaseException subclasses that are not Exceptions are outside the model; time.time() is a non-decreasing positive real",
                        "uuid4 ids are assumed not to collide with ids in the table (the frame condition for other streams is conditional on that)",
                        "Proxy._pyroInvoke by its call-site interface (any result or any exception class); Proxy.__copy__/__enter__/__exit__ as declared; the client half "
                        "of the stream announcement: Proxy._pyroInvoke (third group) returns a stream iterator bound to this proxy exactly for a reply flagged ITEMSTREAMRESULT and never hands such a reply back as plain data; that the iterator's id is the text of the reply's STRM annotation is exercised by the bounded harness only (the annotation lookup is modelled as 'some value of the dict')",
                        "expiry is decided at the housekeeping step following it (an expired, not yet housekept stream may still answer)"],
    },
    "C14": {
        "modules": ["specs.socket_model", "specs.seqdict", "specs.opaque", "specs.storage_model", "contracts.nameserver_locks", "contracts.nameserver_map"],
        "contracts": ["Pyro5.nameserver.NameServer.count#map", "Pyro5.nameserver.NameServer.lookup#map", "Pyro5.nameserver.NameServer.register#map",
                      "Pyro5.nameserver.NameServer.set_metadata#map", "Pyro5.nameserver.NameServer.remove#map"],
        "groups": [{"modules": ["specs.socket_model", "specs.seqdict", "specs.opaque", "specs.storage_model", "contracts.memory_storage"],
                    "contracts": ["Pyro5.nameserver.MemoryStorage.%s" % m for m in ("__setitem__", "optimized_prefix_list", "optimized_regex_list", "optimized_metadata_search",
                                                                                       "everything", "remove_items")]}],
        "harness": "replay/c14.py",
        "explanation": "count, lookup, register (safe and unsafe), set_metadata and remove-by-name proved against the abstract map sigma = (names, uri, tag set) behind "
                       "the storage interface Sigma: exact result, exactly the named entry changes, every other name untouched, count follows, a refused or failing operation "
                       "changes nothing, a safe registration of an existing name never succeeds, the name server's own entry is never removed, names compare literally "
                       "(string equality).  Second contract group - the in-memory back-end REFINES Sigma: MemoryStorage.__setitem__ stores exactly the given uri and tag set (no tags for None / an "
                       "empty collection) under the name and touches nothing else, the count grows by one exactly for a new name; the three optimized_* queries answer None without "
                       "touching anything; everything(return_metadata=True) is a NEW dict with exactly the storage's entries; remove_items (loop invariant) leaves present exactly "
                       "the names that were present and are not listed, skips absent ones, and touches no uri or tag set.  NOT decided deductively: SqlStorage against Sigma (SQL "
                       "statements), list / yplookup / remove by prefix or regex on top of the back-ends, reopen and statement-failure atomicity - bounded differential harness.",
        "assumptions": ["MemoryStorage: the operations it inherits from dict (lookup, deletion, membership, length, iteration, copy) are CPython's dict; a set is falsy exactly when empty; "
                        "everything(return_metadata=False) (a dict comprehension) is covered by the harness only",
                        "the storage object obeys Sigma (specs/storage_model.py); for SqlStorage this is checked only by differential testing against a reference map "
                        "(60 seeded histories quick / 600 thorough, wildcard, case, regex and unicode names; reopen; every sqlite statement as failure point)",
                        "URI text validity is an uninterpreted predicate here (C19)"],
    },
})
