"""pyvc.stdlib -- encoding of the Python builtins / value methods used by the functions under contract.
These are part of the stated encoding of Python's semantics (DESIGN 2.3), listed in the evidence as trusted."""
import z3
from .values import *
from .engine import Res, Out, int_to_str
from .registry import R
from . import classes as CL


def _one(st, v):
    return [Res(st, v)]


@R.spec("builtins.len")
def b_len(E, st, args, kw):
    v = args[0]
    if isinstance(v, VBytes) and v.units is not None:
        return _one(st, VInt(len(v.units)))
    if isinstance(v, (VBytes, VStr, VSeq)):
        return _one(st, VInt(z3.Length(v.e)))
    if isinstance(v, (VTuple, VList)):
        return _one(st, VInt(len(v.items)))
    if isinstance(v, VJoinList):
        return _one(st, VInt(v.count))
    if isinstance(v, VSet):
        return _one(st, VInt(v.card))
    if isinstance(v, VObj):
        return E.call_method(st, v, "__len__", [], {})
    if isinstance(v, VOpaque):
        h = R.specs.get("U.len")
        if h:
            return h(E, st, args, kw)
    if hasattr(v, "len_term"):
        return _one(st, VInt(v.len_term()))
    raise Unsupported("len of %r" % (v,))


@R.spec("builtins.isinstance")
def b_isinstance(E, st, args, kw):
    v, c = args
    if isinstance(c, VOpaque):
        h = R.specs.get("U.instance_of")
        if h:
            return h(E, st, [v, c], kw)
    classes = list(c.items) if isinstance(c, VTuple) else [c]
    names = set()
    for k in classes:
        if isinstance(k, VFunc):
            names.add(k.qname)
        elif isinstance(k, VClass):
            names.add(k.qname)
        else:
            raise Unsupported("isinstance class %r" % (k,))
    tmap = {VBytes: None, VStr: {"builtins.str"}, VInt: {"builtins.int"}, VBool: {"builtins.bool", "builtins.int"},
            VReal: {"builtins.float"}, VTuple: {"builtins.tuple"}, VList: {"builtins.list"}, VNone: set()}
    if isinstance(v, VBytes):
        return _one(st, VBool(("builtins." + v.kind) in names))
    for t, s in tmap.items():
        if isinstance(v, t) and s is not None:
            return _one(st, VBool(bool(s & names)))
    if isinstance(v, VObj):
        if v.cls == "exc":
            vc = st.get(v, "__cls__")
            conds = []
            for n in names:
                if not CL.known(n):
                    continue
                cc = E.cls_cond(vc, n)
                if cc is True:
                    return _one(st, VBool(True))
                if cc is not False:
                    conds.append(cc)
            return _one(st, VBool(z3.Or(conds) if conds else z3.BoolVal(False)))
        m = R.models.get(v.cls)
        if m is not None and hasattr(m, "isinstance"):
            return _one(st, VBool(m.isinstance(E, st, v, names)))
        return _one(st, VBool(v.cls in names))
    if isinstance(v, VOpaque):
        h = R.specs.get("U.isinstance")
        if h:
            return h(E, st, [v, names], kw)
    raise Unsupported("isinstance on %r" % (v,))


@R.spec("builtins.hasattr")
def b_hasattr(E, st, args, kw):
    v, n = args
    name = z3.simplify(n.e).as_string()
    if isinstance(v, VObj):
        m = R.models.get(v.cls)
        if m is not None and hasattr(m, "hasattr"):
            r = m.hasattr(E, st, v, name)
            if r is not None:
                return _one(st, VBool(r))
        if v.cls == "exc":
            return _one(st, VBool(st.has(v, name)))
        return _one(st, VBool(st.has(v, name) or (v.cls + "." + name) in R.contracts))
    if isinstance(v, VOpaque):
        h = R.specs.get("U.hasattr")
        if h:
            return h(E, st, args, kw)
    raise Unsupported("hasattr on %r" % (v,))


@R.spec("builtins.getattr")
def b_getattr(E, st, args, kw):
    v, n = args[0], args[1]
    sn = z3.simplify(n.e) if isinstance(n, VStr) else None
    if sn is None or not z3.is_string_value(sn):
        h = R.specs.get("U.getattr")
        if h:
            return h(E, st, args, kw)
        raise Unsupported("getattr with symbolic name")
    name = sn.as_string()
    rs = E.getattr(st, v, name)
    if len(args) < 3:
        return rs
    out = []
    for r in rs:
        if r.exc is not None:
            vc = r.st.get(r.exc, "__cls__")
            if vc.qname is not None and CL.is_subclass(vc.qname, "builtins.AttributeError"):
                out.append(Res(r.st, args[2]))
                continue
        out.append(r)
    return out


@R.spec("builtins.setattr")
def b_setattr(E, st, args, kw):
    v, n, val = args
    sn = z3.simplify(n.e) if isinstance(n, VStr) else None
    if sn is not None and z3.is_string_value(sn):
        return E.setattr(st, v, sn.as_string(), val)
    h = R.specs.get("U.setattr")
    if h:
        return h(E, st, args, kw)
    raise Unsupported("setattr with symbolic name")


@R.spec("builtins.min")
def b_min(E, st, args, kw):
    if len(args) == 2 and all(isinstance(a, VInt) for a in args):
        a, b = args
        return _one(st, VInt(z3.If(a.e <= b.e, a.e, b.e)))
    if len(args) == 2 and all(isinstance(a, (VInt, VReal)) for a in args):
        a, b = [x.e if isinstance(x, VReal) else z3.ToReal(x.e) for x in args]
        return _one(st, VReal(z3.If(a <= b, a, b)))
    raise Unsupported("min")


@R.spec("builtins.max")
def b_max(E, st, args, kw):
    if len(args) == 2 and all(isinstance(a, VInt) for a in args):
        a, b = args
        return _one(st, VInt(z3.If(a.e >= b.e, a.e, b.e)))
    if len(args) == 2 and all(isinstance(a, (VInt, VReal)) for a in args):
        a, b = [x.e if isinstance(x, VReal) else z3.ToReal(x.e) for x in args]
        return _one(st, VReal(z3.If(a >= b, a, b)))
    raise Unsupported("max")


@R.spec("builtins.bytearray")
def b_bytearray(E, st, args, kw):
    if not args:
        return _one(st, VBytes(z3.Empty(BytesS), "bytearray"))
    if isinstance(args[0], VBytes):
        return _one(st, VBytes(args[0].e, "bytearray", args[0].units))
    raise Unsupported("bytearray(%r)" % (args[0],))


@R.spec("builtins.bytes")
def b_bytes(E, st, args, kw):
    if not args:
        return _one(st, VBytes(z3.Empty(BytesS)))
    if isinstance(args[0], VBytes):
        return _one(st, VBytes(args[0].e, "bytes", args[0].units))
    raise Unsupported("bytes(%r)" % (args[0],))


@R.spec("builtins.memoryview")
def b_memoryview(E, st, args, kw):
    if isinstance(args[0], VBytes):
        return _one(st, VBytes(args[0].e, "memoryview", args[0].units))
    raise Unsupported("memoryview(%r)" % (args[0],))


@R.spec("builtins.str")
def b_str(E, st, args, kw):
    if not args:
        return _one(st, VStr(""))
    v = args[0]
    if isinstance(v, VStr):
        return _one(st, v)
    if isinstance(v, VInt):
        return _one(st, VStr(int_to_str(v.e)))
    if isinstance(v, VOpaque):
        return _one(st, VStr(str_of(v.e)))
    if isinstance(v, VObj):
        # str() of exception / model objects: uninterpreted text, assumed not to raise (DESIGN 4.4)
        key = "__str__"
        if not st.has(v, key):
            st.set(v, key, VStr(fresh("str_of_obj", StrS)))
        return _one(st, st.get(v, key))
    if isinstance(v, VNone):
        return _one(st, VStr("None"))
    return _one(st, VStr(fresh("str", StrS)))


@R.spec("builtins.repr")
def b_repr(E, st, args, kw):
    return _one(st, VStr(fresh("repr", StrS)))


@R.spec("builtins.int")
def b_int(E, st, args, kw):
    v = args[0]
    if isinstance(v, VInt):
        return _one(st, v)
    if isinstance(v, VBool):
        return _one(st, VInt(z3.If(v.e, 1, 0)))
    h = R.specs.get("spec.int_of_str")
    if isinstance(v, VStr) and h:
        return h(E, st, args, kw)
    if isinstance(v, VNone):
        return [E.raise_(st, "builtins.TypeError")]
    if isinstance(v, VOpt):
        out = []
        for s2, isnone in E.branch(st, v.isnone):
            if isnone:
                out.append(E.raise_(s2, "builtins.TypeError"))
            else:
                out.extend(b_int(E, s2, [v.val], kw))
        return out
    if isinstance(v, VOpaque) and h:
        out = []
        for s2, isint in E.branch(st, is_int(v.e)):
            if isint:
                out.append(Res(s2, VInt(unbox_int(v.e))))
                continue
            for s3, isstr in E.branch(s2, is_str(v.e)):
                if isstr:
                    out.extend(h(E, s3, [VStr(unbox_str(v.e))], kw))
                else:
                    out.append(E.raise_(s3, "builtins.TypeError"))
        return out
    raise Unsupported("int(%r)" % (v,))


@R.spec("builtins.bool")
def b_bool(E, st, args, kw):
    return _one(st, VBool(E.truth(args[0], st)))


@R.spec("builtins.type")
def b_type(E, st, args, kw):
    v = args[0]
    if isinstance(v, VObj) and v.cls == "exc":
        return _one(st, st.get(v, "__cls__"))
    if isinstance(v, VObj):
        return _one(st, VClass(v.cls, None))
    tn = {VBytes: None, VStr: "builtins.str", VInt: "builtins.int", VBool: "builtins.bool", VTuple: "builtins.tuple",
          VList: "builtins.list", VReal: "builtins.float"}
    if isinstance(v, VBytes):
        return _one(st, VClass("builtins." + v.kind, None))
    for t, q in tn.items():
        if isinstance(v, t) and q:
            return _one(st, VClass(q, None))
    if isinstance(v, VOpaque):
        return _one(st, VClass(None, typeof(v.e)))
    raise Unsupported("type(%r)" % (v,))


@R.spec("builtins.next")
def b_next(E, st, args, kw):
    v = args[0]
    if isinstance(v, VObj):
        return E.call_method(st, v, "__next__", [], {})
    h = R.specs.get("U.next")
    if h:
        return h(E, st, args, kw)
    raise Unsupported("next(%r)" % (v,))


@R.spec("builtins.list")
def b_list(E, st, args, kw):
    if not args:
        return _one(st, VList([]))
    v = args[0]
    if isinstance(v, (VTuple, VList)):
        return _one(st, VList(v.items))
    if isinstance(v, VSeq):
        return _one(st, v)
    if isinstance(v, VObj):
        m = R.models.get(v.cls)
        if m is not None and hasattr(m, "to_list"):
            return m.to_list(E, st, v)
    if hasattr(v, "to_list_value"):
        return _one(st, v.to_list_value(E, st))
    raise Unsupported("list(%r)" % (v,))


@R.spec("builtins.tuple")
def b_tuple(E, st, args, kw):
    if not args:
        return _one(st, VTuple([]))
    v = args[0]
    if isinstance(v, (VTuple, VList)):
        return _one(st, VTuple(v.items))
    raise Unsupported("tuple(%r)" % (v,))


@R.spec("builtins.id")
def b_id(E, st, args, kw):
    return _one(st, VInt(fresh("id", IntS)))


@R.spec("time.sleep")
def t_sleep(E, st, args, kw):
    return _one(st, NONE)


@R.spec("time.time")
def t_time(E, st, args, kw):
    """time.time(): an arbitrary real, non-decreasing along a path (ghost 'clock')"""
    t = fresh("now", RealS)
    prev = st.ghost.get("clock")
    if prev is not None:
        st.assume(t >= prev.e)
    st.ghost["clock"] = VReal(t)
    return _one(st, VReal(t))


@R.spec("sys.exc_info")
def sys_exc_info(E, st, args, kw):
    if st.handling:
        x = st.handling[-1]
        return _one(st, VTuple([st.get(x, "__cls__"), x, VOpaque(fresh("tb", U))]))
    return _one(st, VTuple([NONE, NONE, NONE]))


# ----------------------------------------------------------------------------------------------------------------------
# methods of typed values

@R.method("VBytes", "startswith")
def by_startswith(E, st, recv, args, kw):
    p = args[0]
    if recv.units is not None and isinstance(p, VBytes) and p.units is not None:
        if len(p.units) > len(recv.units):
            return _one(st, VBool(False))
        return _one(st, VBool(z3.And([x == y for x, y in zip(recv.units, p.units)]) if p.units else True))
    return _one(st, VBool(z3.PrefixOf(z(p), recv.e)))


@R.method("VBytes", "extend")
def by_extend(E, st, recv, args, kw):
    raise Unsupported("bytearray.extend must be handled as rebinding (engine)")


@R.method("VStr", "startswith")
def s_startswith(E, st, recv, args, kw):
    a = args[0]
    if isinstance(a, VTuple):
        return _one(st, VBool(z3.Or([z3.PrefixOf(x.e, recv.e) for x in a.items])))
    return _one(st, VBool(z3.PrefixOf(a.e, recv.e)))


@R.method("VStr", "endswith")
def s_endswith(E, st, recv, args, kw):
    return _one(st, VBool(z3.SuffixOf(args[0].e, recv.e)))


@R.method("VStr", "encode")
def s_encode(E, st, recv, args, kw):
    h = R.specs.get("spec.str_encode")
    if h:
        return h(E, st, [recv] + list(args), kw)
    raise Unsupported("str.encode")


@R.method("VBytes", "decode")
def by_decode(E, st, recv, args, kw):
    h = R.specs.get("spec.bytes_decode")
    if h:
        return h(E, st, [recv] + list(args), kw)
    raise Unsupported("bytes.decode")


@R.method("VBytes", "join")
def by_join(E, st, recv, args, kw):
    v = args[0]
    sep = z3.simplify(recv.e)
    if isinstance(v, VJoinList) and z3.is_true(z3.simplify(z3.Length(sep) == 0)):
        return _one(st, VBytes(v.joined))
    if isinstance(v, (VList, VTuple)) and z3.is_true(z3.simplify(z3.Length(sep) == 0)):
        if not v.items:
            return _one(st, VBytes(b""))
        e = v.items[0].e
        for x in v.items[1:]:
            e = z3.Concat(e, x.e)
        return _one(st, VBytes(e))
    raise Unsupported("bytes.join")


@R.method("VStr", "join")
def s_join(E, st, recv, args, kw):
    v = args[0]
    if isinstance(v, (VList, VTuple)) and all(isinstance(x, VStr) for x in v.items):
        if not v.items:
            return _one(st, VStr(""))
        e = v.items[0].e
        for x in v.items[1:]:
            e = z3.Concat(e, recv.e, x.e)
        return _one(st, VStr(e))
    return _one(st, VStr(fresh("joined", StrS)))


@R.method("VStr", "format")
def s_format(E, st, recv, args, kw):
    return _one(st, VStr(fresh("formatted", StrS)))


@R.method("VInt", "to_bytes")
def i_to_bytes(E, st, recv, args, kw):
    n = E._const_int(args[0])
    order = z3.simplify(args[1].e).as_string()
    if n is None or order != "big":
        raise Unsupported("to_bytes")
    out = []
    for s2, ok in E.branch(st, z3.And(recv.e >= 0, recv.e < 256 ** n)):
        if not ok:
            out.append(E.raise_(s2, "builtins.OverflowError"))
        else:
            units = [z3.Unit((recv.e / (256 ** (n - 1 - i))) % 256) for i in range(n)]
            out.append(Res(s2, VBytes(z3.simplify(z3.Concat(*units)) if n > 1 else units[0])))
    return out


def from_bytes_term(b):
    """closed z3 term for int.from_bytes(b, 'big') of a byte sequence of length <= 8 (longer: uninterpreted)"""
    ln = z3.Length(b)
    maxlen = 8
    if z3.is_app_of(b, z3.Z3_OP_SEQ_EXTRACT) and z3.is_int_value(z3.simplify(b.arg(2))):
        maxlen = min(8, max(0, z3.simplify(b.arg(2)).as_long()))     # an extract of constant length c has length <= c
    t = z3.Function("from_bytes_long", BytesS, IntS)(b) if maxlen == 8 else z3.IntVal(0)
    for n in range(maxlen, -1, -1):
        tot = z3.Sum([b[i] * (256 ** (n - 1 - i)) for i in range(n)]) if n > 1 else (b[0] if n == 1 else z3.IntVal(0))
        t = z3.If(ln == n, tot, t)
    return t


@R.spec("builtins.int.from_bytes")
def i_from_bytes(E, st, args, kw):
    """int.from_bytes(b, 'big'): sum of b[i]*256^(n-1-i) for n = len(b) <= 8 (elements are bytes, 0..255)"""
    b = args[0]
    order = z3.simplify(args[1].e).as_string()
    if order != "big":
        raise Unsupported("from_bytes little")
    if b.units is not None and len(b.units) <= 8:
        n = len(b.units)
        t = z3.Sum([u * (256 ** (n - 1 - i)) for i, u in enumerate(b.units)]) if n > 1 else (b.units[0] if n else z3.IntVal(0))
        st.assume(t >= 0)
        return _one(st, VInt(t))
    t = from_bytes_term(b.e)
    # a bytes-like object holds values 0..255, hence the result is a natural number (Seq(Int) alone does not say so)
    st.assume(t >= 0)
    return _one(st, VInt(t))


# ----------------------------------------------------------------------------------------------------------------------
# mutators (value semantics + store-back, see Engine.try_mutator): return list of (state, new receiver, result, exc)

@R.method("VBytes", "mut:extend")
def by_mut_extend(E, st, recv, vals):
    return [(st, VBytes(z3.Concat(recv.e, vals[0].e), recv.kind), NONE, None)]


@R.method("VList", "mut:append")
def l_mut_append(E, st, recv, vals):
    return [(st, VList(recv.items + (vals[0],)), NONE, None)]


@R.method("VJoinList", "mut:append")
def jl_mut_append(E, st, recv, vals):
    v = vals[0]
    if not isinstance(v, VBytes):
        raise Unsupported("VJoinList.append of non-bytes")
    return [(st, VJoinList(z3.Concat(recv.joined, v.e), recv.count + 1), NONE, None)]


class VRange(V):
    """range(stop) / range(start, stop)"""
    __slots__ = ("start", "stop")

    def __init__(self, start, stop):
        self.start, self.stop = start, stop

    def iter_spec_v(self, E, st):
        n = z3.If(self.stop - self.start > 0, self.stop - self.start, 0)
        return n, (lambda j: VInt(self.start + j))


@R.spec("builtins.range")
def b_range(E, st, args, kw):
    if len(args) == 1 and isinstance(args[0], VInt):
        return _one(st, VRange(z3.IntVal(0), args[0].e))
    if len(args) == 2 and all(isinstance(a, VInt) for a in args):
        return _one(st, VRange(args[0].e, args[1].e))
    raise Unsupported("range(...)")
