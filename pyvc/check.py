"""pyvc.check -- one entry point per property:  python3-vt -m pyvc.check <Cxx> --tier quick|thorough [--replay f]

exit 0 every obligation discharged (known findings printed) | 1 VIOLATION (an obligation refuted by the solver)
     2 undecided (solver unknown / construct outside the subset) | 3 checker error
"""
import argparse
import importlib
import json
import os
import subprocess
import sys
import time
import traceback

VERIF = os.path.dirname(os.path.dirname(os.path.abspath(__file__)))
sys.path.insert(0, VERIF)


def load_property(pid):
    import props
    return props.PROPS[pid]


def _generate_group(pid, G):
    """generate the obligations of one group (module list + contracts + lemmas) with a freshly populated registry"""
    from pyvc.registry import R
    from pyvc import stdlib     # noqa: F401  (registers the builtin encodings)
    from pyvc.engine import Engine, Module, Unsupported
    for m in G["modules"]:
        importlib.import_module(m)
    E = Engine(R)
    E.prop = pid
    funcs = []
    todo = [n for n in G["contracts"]]
    done = set()
    while todo:
        n = todo.pop(0)
        if n in done:
            continue
        done.add(n)
        c = R.contracts[n]
        n0 = len(E.obligations)
        t0 = time.time()
        ok = E.verify(c)
        modq, fq = E.split_func(getattr(c, "real_name", None) or n)
        mod = Module.load(modq)
        funcs.append({"function": n, "file": os.path.relpath(mod.path, os.environ.get("PYVC_REPO", "/repo")),
                      "source_sha256_16": mod.func_hash(fq) if fq in mod.funcs else None,
                      "generated": ok, "obligations": len(E.obligations) - n0, "gen_s": round(time.time() - t0, 2)})
        for ob in E.obligations[n0:]:
            ob.func = n
    for name in G.get("lemmas", []):
        fn = R.lemmas[name]
        n0 = len(E.obligations)
        E.cur = type("L", (), {"name": "lemma:" + name})()
        try:
            fn(E)
        except Unsupported as e:
            del E.obligations[n0:]
            E.unsupported.append(("lemma:" + name, str(e)))
        finally:
            E.cur = None
        for ob in E.obligations[n0:]:
            ob.func = "lemma:" + name
        funcs.append({"function": "lemma:" + name, "generated": True, "obligations": len(E.obligations) - n0})
    return E, R, funcs


def _reset_registry():
    """a further group of contracts is generated against its own set of sidecar modules: empty the registry and forget the imported
    sidecar modules, so that the assumed models of one group cannot leak into the other"""
    from pyvc.registry import R
    R.__init__()
    for m in [m for m in sys.modules if m.startswith(("specs", "contracts")) or m == "pyvc.stdlib"]:
        del sys.modules[m]
    import pyvc
    if hasattr(pyvc, "stdlib"):
        delattr(pyvc, "stdlib")         # so that `from pyvc import stdlib` executes the module again and re-registers the builtins


def generate(pid, P):
    """generate all obligations of a property from the current tree; returns (engine, trusted-base text, per-function info)"""
    groups = [{"modules": P["modules"], "contracts": P["contracts"], "lemmas": P.get("lemmas", [])}] + list(P.get("groups", []))
    E0, tb, funcs = None, [], []
    for i, G in enumerate(groups):
        if i:
            _reset_registry()
        E, R, fs = _generate_group(pid, G)
        for t in trusted_base(R, G, E):
            if t not in tb:
                tb.append(t)
        funcs.extend(fs)
        if E0 is None:
            E0 = E
        else:
            E0.obligations.extend(E.obligations)
            E0.unsupported.extend(E.unsupported)
            E0.feas_checks += E.feas_checks
            for k, v in E.callsite_normal.items():
                t = E0.callsite_normal.setdefault(k, [0, 0])
                t[0] += v[0]
                t[1] += v[1]
            for k, v in E.stats.items():
                E0.stats[k] = E0.stats.get(k, 0) + v
    for t in P.get("trusted", []):
        if t not in tb:
            tb.append(t)
    return E0, tb, funcs


def trusted_base(R, P, E):
    tb = ["pyvc (this VC generator: symbolic execution of the real function ASTs, encoding of Python semantics per DESIGN 2.3) and the SMT solvers z3 5.1 / cvc5 1.0.3",
          "mathematical integers = Python ints; bytes/bytearray/memoryview = Seq(Int); local containers are not aliased; logging calls, docstrings, annotations dropped (DESIGN 2.2)",
          "termination is not proved (loops cut at invariants)"]
    used = getattr(E, "used_specs", None)
    for q, doc in sorted(R.spec_docs.items()):
        if q.startswith(("builtins.", "syntax.", "time.", "sys.")):
            continue
        tb.append("assumed: %s -- %s" % (q, " ".join((doc or "").split())[:300]))
    for n in P["contracts"]:
        for t in getattr(R.contracts[n], "trusted", ()):
            tb.append("assumed (%s): %s" % (n.split(".")[-1], t))
    for t in P.get("trusted", []):
        tb.append(t)
    return tb


def run_known_findings(pid):
    path = os.path.join(VERIF, "known_findings.json")
    if not os.path.exists(path):
        return []
    data = json.load(open(path))
    return [f for f in data.get("findings", []) if f["property"] == pid and f.get("status") == "finding"]


def supervise(pid, tier, argv):
    """run the check in a child process under a wall-clock limit: in-process z3 (path feasibility) has been seen once to ignore its timeout and grow without bound
    on a busy machine; such a run is killed and repeated once, and a second overrun is a checker error (exit 3) - never a verdict"""
    import subprocess
    limit = float(os.environ.get("VERIF_WALL_LIMIT_S", "0") or 0) or (2400 if tier == "quick" else 7200)
    # (a fixed hash seed: set iteration order decides the order in which facts reach the in-process solver, and with it which feasibility checks are decided within
    #  their resource limit - without it the set of explored paths differed from run to run)
    env = dict(os.environ, VERIF_SUPERVISED="1", PYTHONHASHSEED="0")
    for attempt in (1, 2):
        p = subprocess.Popen([sys.executable, "-m", "pyvc.check"] + argv, env=env, cwd=VERIF, start_new_session=True)
        try:
            return p.wait(timeout=limit)
        except subprocess.TimeoutExpired:
            try:
                os.killpg(p.pid, 9)
            except OSError:
                pass
            p.wait()
            print("CHECKER-NOTE property=%s attempt %d exceeded the wall-clock limit of %ds and was killed%s" % (pid, attempt, limit, "; repeating once" if attempt == 1 else ""), flush=True)
    print("CHECKER-ERROR property=%s no verdict within the wall-clock limit (twice)" % pid)
    return 3


def main(argv=None):
    ap = argparse.ArgumentParser()
    ap.add_argument("pid")
    ap.add_argument("--tier", default=os.environ.get("VERIF_TIER", "quick"))
    ap.add_argument("--replay")
    ap.add_argument("--no-evidence", action="store_true")
    ap.add_argument("--verbose", "-v", action="store_true")
    args = ap.parse_args(argv)
    pid = args.pid
    if not args.replay and os.environ.get("VERIF_SUPERVISED") != "1":
        return supervise(pid, "thorough" if args.tier == "thorough" else "quick", list(sys.argv[1:] if argv is None else argv))
    seed = int(os.environ.get("VERIF_SEED", "0") or 0)
    tier = "thorough" if args.tier == "thorough" else "quick"
    t_start = time.time()
    try:
        P = load_property(pid)
    except KeyError:
        print("unknown property", pid)
        return 3
    if args.replay:
        return replay_file(pid, P, args.replay)
    try:
        E, TB, funcs = generate(pid, P)
    except Exception:
        traceback.print_exc()
        print("CHECKER-ERROR property=%s (generation crashed)" % pid)
        return 3
    from pyvc.solve import discharge
    zt = 10000 if tier == "quick" else 60000
    ct = 20000 if tier == "quick" else 90000
    t_solve = time.time()
    discharge(E.obligations, z3_timeout_ms=zt, cvc5_timeout_ms=ct, both=(tier == "thorough"))
    solve_wall = time.time() - t_solve

    real = [ob for ob in E.obligations if ob.kind not in ("canary", "vacuity")]
    canaries = [ob for ob in E.obligations if ob.kind == "canary"]
    vac = [ob for ob in E.obligations if ob.kind == "vacuity"]
    refuted = [ob for ob in real if ob.result == "sat"]
    candidates = [ob for ob in real if ob.result == "sat-relaxed"]      # refuted only modulo the quantified axioms
    unknown = [ob for ob in real if ob.result not in ("sat", "unsat", "sat-relaxed")]
    discharged = [ob for ob in real if ob.result == "unsat"]
    status = 0
    lines = []
    # vacuity
    vacuous = [ob for ob in vac if ob.result == "unsat"]
    by_func_canary = {}
    for ob in canaries:
        by_func_canary.setdefault(ob.func, []).append(ob.result)
    # a function is vacuous only if `False` is *proved* on every sampled exit path (unknown = solver could not build a
    # model under the quantified spec-function axioms; that is not evidence of vacuity)
    dead_funcs = [f for f, rs in by_func_canary.items() if all(r == "unsat" for r in rs)]
    if vacuous or dead_funcs or (not real and not E.unsupported):
        for ob in vacuous:
            lines.append("CHECKER-ERROR property=%s vacuous precondition: %s" % (pid, ob.name))
        for f in dead_funcs:
            lines.append("CHECKER-ERROR property=%s no reachable exit path in %s" % (pid, f))
        if not real:
            lines.append("CHECKER-ERROR property=%s zero obligations generated" % pid)
        status = 3
    for callee, (kept, dropped) in sorted(E.callsite_normal.items()):
        if kept == 0 and dropped > 0:
            # vacuity guard at call sites: a callee whose NORMAL return is infeasible at every call site (a contradiction between its call-site model and its own
            # postcondition looks like that) would leave its callers verified for its failures only
            lines.append("CHECKER-ERROR property=%s the normal return of %s is infeasible at every one of its %d call sites" % (pid, callee, dropped))
            status = 3
    for name, why in E.unsupported:
        lines.append("UNDECIDED property=%s function=%s reason=%s" % (pid, name, why))
        status = max(status, 2)
    for ob in unknown:
        lines.append("UNDECIDED property=%s obligation=%s result=%s %s" % (pid, ob.name, ob.result, getattr(ob, "reason", "")))
        status = max(status, 2)
    if any(ob.result == "disagree" for ob in real):
        status = 3

    # known findings: an obligation listed there (by name prefix) is expected to be refuted; its witness must still fail
    findings = run_known_findings(pid)
    violations = []
    known_hit = {}
    for ob in refuted:
        f = next((f for f in findings if (f.get("obligation") and ob.name.startswith(f["obligation"]))), None)
        if f is not None:
            known_hit.setdefault(f["id"], f)
        else:
            violations.append(ob)
    # Obligations that are no longer discharged but not refuted outright -- candidate counterexamples (a model of the
    # quantifier-free part only) and solver unknowns -- count as violations only when the native harness finds a concrete
    # input on which the real code breaks the sidecar contract; otherwise they stay undecided (exit 2).
    cand_found = None
    open_obs = [ob for ob in candidates + unknown if not any((f.get("obligation") and ob.name.startswith(f["obligation"])) for f in findings)]
    for ob in candidates + unknown:
        f = next((f for f in findings if (f.get("obligation") and ob.name.startswith(f["obligation"]))), None)
        if f is not None:
            known_hit.setdefault(f["id"], f)
    # a function that left the verified subset (its obligations could not even be generated) is treated the same way
    class _Pseudo:
        def __init__(self, name, why):
            self.name, self.kind, self.backend, self.result, self.model = "%s:outside-the-verified-subset (%s)" % (name, why), "unsupported", None, "undecided", None
            self.info = {"trace": []}
    pseudo = [_Pseudo(n, w) for n, w in E.unsupported]
    if (open_obs or pseudo) and P.get("harness"):
        cand_found = run_harness(P["harness"], pid, "find", seed, 600)
    if (open_obs or pseudo) and cand_found and cand_found.get("failing_input") is not None:
        violations = violations + open_obs + pseudo
        lines = [ln for ln in lines if not ln.startswith("UNDECIDED")]
        status = 0 if status == 2 else status
    else:
        for ob in candidates:
            if ob in open_obs:
                lines.append("UNDECIDED property=%s obligation=%s result=candidate-counterexample-not-reproduced" % (pid, ob.name))
                status = max(status, 2)

    kf_pending = {f["id"]: f for f in findings}
    for fid, f in known_hit.items():
        lines.append("KNOWN-FINDING: property=%s %s" % (pid, f["what"]))
        kf_pending.pop(fid, None)

    replay_paths = []
    if violations:
        os.makedirs(os.path.join(VERIF, "out", "replay"), exist_ok=True)
        harness = P.get("harness")
        found = cand_found
        if harness and found is None:
            found = run_harness(harness, pid, "find", seed, 300)
        for i, ob in enumerate(violations[:10]):
            rp = os.path.join(VERIF, "out", "replay", "%s_%d.json" % (pid, i))
            doc = {"property": pid, "obligation": ob.name, "kind": ob.kind, "backend": ob.backend,
                   "solver_result": ob.result, "path_trace": ob.info.get("trace"),
                   "solver_model": {k: v for k, v in (ob.model or {}).items()},
                   "native_replay": found}
            json.dump(doc, open(rp, "w"), indent=1, default=str)
            replay_paths.append(rp)
            tail = "" if (found and found.get("failing_input") is not None) else " no-failing-input-found"
            lines.append("VIOLATION property=%s replay=%s obligation=%s%s" % (pid, rp, ob.name, tail))
        status = 1 if status in (0, 2) else status

    # native cross-check of the engine's assumptions / contracts against CPython (bounded, never counted as proof)
    bounded = []
    traces = 0
    if P.get("harness") and status == 0:
        res = run_harness(P["harness"], pid, tier, seed, 600 if tier == "quick" else 3000)
        if res is None:
            lines.append("CHECKER-ERROR property=%s native harness crashed" % pid)
            status = 3
        else:
            traces = res.get("runs", 0)
            bounded = res.get("bounded", [])
            # listed findings whose witness still fails natively are reported (and only those)
            for fid in res.get("known_findings_reproduced", []):
                f = kf_pending.pop(fid, None)
                if f is not None:
                    lines.append("KNOWN-FINDING: property=%s %s" % (pid, f["what"]))
                    known_hit[fid] = f
            if res.get("failing_input") is not None:
                os.makedirs(os.path.join(VERIF, "out", "replay"), exist_ok=True)
                rp = os.path.join(VERIF, "out", "replay", "%s_native.json" % pid)
                json.dump({"property": pid, "obligation": "runtime-contract(native harness)", "native_replay": res}, open(rp, "w"), indent=1, default=str)
                lines.append("VIOLATION property=%s replay=%s obligation=runtime-contract" % (pid, rp))
                status = 1

    # thorough: mutant self-test
    mutants = []
    if tier == "thorough" and status == 0:
        mutants = mutant_selftest(pid, P)
        for m in mutants:
            if not m["caught"]:
                lines.append("NOTE property=%s self-test %s: %s" % (pid, "refactoring not accepted" if "kind" in m else "mutant not caught", m["patch"]))

    wall = time.time() - t_start
    for ln in lines:
        print(ln)
    by_backend = {}
    for ob in real:
        by_backend[ob.backend or "none"] = by_backend.get(ob.backend or "none", 0) + 1
    samples = []
    for ob in (discharged[:2] + refuted[:2]):
        txt = ob.smt2()
        samples.append({"obligation": ob.name, "result": ob.result, "backend": ob.backend,
                        "path": ob.info.get("trace"), "smt2_head": txt[:1500]})
    summary = "%s %s: %d obligations, %d discharged, %d refuted, %d undecided; %d functions; solve %.1fs; exit %d" % (
        pid, tier, len(real), len(discharged), len(refuted), len(unknown), len(funcs), solve_wall, status)
    print(summary)
    if not args.no_evidence and os.environ.get("PYVC_REPO", "/repo") == "/repo":
        ev = {
            "property_id": pid, "tier": tier, "seed": seed, "level": "proof",
            "coverage": {
                "obligations": len(real), "discharged": len(discharged),
                "checker_cmd": "./check %s --tier %s" % (pid, tier),
                "trusted_base": TB,
                "functions_under_contract": funcs,
                "by_backend": by_backend,
                "solver_time_s": round(sum(ob.time for ob in real), 2),
                "solver_wall_s": round(solve_wall, 2),
                "vacuity": {"pre_sat_checks": len(vac), "reachable_exit_paths": sum(1 for ob in canaries if ob.result == "sat"), "canary_unknown": sum(1 for ob in canaries if ob.result not in ("sat", "unsat")),
                            "exit_paths": len(canaries)},
                "paths": E.stats["paths"], "feasibility_checks": E.feas_checks,
                "callsite_normal_outcomes": {k: {"kept": v[0], "dropped_as_infeasible": v[1]} for k, v in sorted(E.callsite_normal.items())},
                "refuted": [ob.name for ob in refuted], "undecided": [ob.name for ob in unknown] + [u[0] for u in E.unsupported],
                "known_findings_printed": [f["id"] for f in known_hit.values()],
                "bounded": bounded,
                "traces_validated_against_impl": traces,
                "mutant_selftest": mutants,
                "samples": samples,
                "explanation": P.get("explanation", ""),
            },
            "assumptions": P.get("assumptions", []) + ["see coverage.trusted_base"],
            "wall_s": round(wall, 2),
            "violations": len(violations),
        }
        os.makedirs(os.path.join(VERIF, "evidence"), exist_ok=True)
        json.dump(ev, open(os.path.join(VERIF, "evidence", pid + ".json"), "w"), indent=1, default=str)
    return status


def run_harness(harness, pid, mode, seed, timeout):
    """one or several native harnesses; reports are merged (first failing input wins)"""
    if isinstance(harness, (list, tuple)):
        merged = {"runs": 0, "failing_input": None, "bounded": [], "known_findings_reproduced": []}
        for h in harness:
            r = _run_harness(h, pid, mode, seed, timeout)
            if r is None:
                return None
            merged["runs"] += r.get("runs", 0)
            merged["bounded"] += r.get("bounded", [])
            merged["known_findings_reproduced"] += r.get("known_findings_reproduced", [])
            if merged["failing_input"] is None and r.get("failing_input") is not None:
                merged["failing_input"] = dict(r["failing_input"], harness=h)
                if mode == "find":
                    break
        return merged
    return _run_harness(harness, pid, mode, seed, timeout)


def _run_harness(harness, pid, mode, seed, timeout):
    """native harness under /venv/bin/python against the tree under verification; returns its JSON report"""
    repo = os.environ.get("PYVC_REPO", "/repo")
    env = dict(os.environ, PYTHONPATH=repo + os.pathsep + VERIF, VERIF_SEED=str(seed), VERIF_PROP=pid)
    py = "/venv/bin/python" if os.path.exists("/venv/bin/python") else sys.executable
    try:
        p = subprocess.run([py, os.path.join(VERIF, harness), mode], capture_output=True, text=True, timeout=timeout, env=env, cwd=VERIF)
    except subprocess.TimeoutExpired:
        return None
    last = [ln for ln in p.stdout.splitlines() if ln.startswith("{")]
    if not last:
        sys.stderr.write(p.stdout[-2000:] + p.stderr[-2000:])
        return None
    return json.loads(last[-1])


def mutant_selftest(pid, P):
    """apply each self-test patch to a scratch copy (outside /repo and /verif) and expect a refuted obligation"""
    import glob
    import shutil
    import tempfile
    res = []
    pats = sorted(glob.glob(os.path.join(VERIF, "mutants", pid, "*.diff")) + glob.glob(os.path.join(VERIF, "seeded", pid + "*", "patch.diff")))

    def _live(patch):
        # a seeded change that a later fix: commit neutralised (meta.json: confirmed false / superseded) is a record, not a self-test
        meta = os.path.join(os.path.dirname(patch), "meta.json")
        try:
            return not (os.path.basename(patch) == "patch.diff" and os.path.exists(meta) and json.load(open(meta)).get("confirmed") is False)
        except Exception:      # noqa
            return True
    pats = [x for x in pats if _live(x)]
    try:
        # the reverse of every fix: commit recorded for this property must bring the violation back
        for f in json.load(open(os.path.join(VERIF, "known_findings.json")))["findings"]:
            if f.get("status") == "fixed" and f.get("property") == pid and f.get("regression_patch"):
                rp = os.path.join(VERIF, f["regression_patch"])
                if os.path.exists(rp) and rp not in pats:
                    pats.append(rp)
    except Exception:      # noqa
        pass
    benign = sorted(glob.glob(os.path.join(VERIF, "refactorings", pid + "__*.diff")))     # behaviour-preserving edits: the check must stay green
    for patch in pats + benign:
        d = tempfile.mkdtemp(prefix="pyvc_mut_")
        try:
            shutil.copytree("/repo/Pyro5", os.path.join(d, "repo", "Pyro5"), ignore=shutil.ignore_patterns("__pycache__"))
            a = subprocess.run(["patch", "-p1", "-s", "-i", patch], cwd=os.path.join(d, "repo"), capture_output=True, text=True)
            if a.returncode != 0:
                res.append({"patch": os.path.relpath(patch, VERIF), "caught": False, "note": "patch does not apply: " + a.stdout[:200]})
                continue
            env = dict(os.environ, PYVC_REPO=os.path.join(d, "repo"))
            p = subprocess.run([sys.executable, "-m", "pyvc.check", pid, "--tier", "quick", "--no-evidence"], cwd=VERIF, env=env, capture_output=True, text=True, timeout=1800)
            viol = [ln for ln in p.stdout.splitlines() if ln.startswith("VIOLATION")]
            if patch in benign:
                res.append({"patch": os.path.relpath(patch, VERIF), "kind": "behaviour-preserving refactoring (must stay green)", "caught": p.returncode == 0,
                            "exit": p.returncode})
            else:
                res.append({"patch": os.path.relpath(patch, VERIF), "caught": p.returncode == 1, "exit": p.returncode,
                            "obligations_refuted": [v.split("obligation=")[-1] for v in viol][:5]})
        finally:
            shutil.rmtree(d, ignore_errors=True)
    return res


def replay_file(pid, P, path):
    doc = json.load(open(path))
    print(json.dumps(doc, indent=1)[:4000])
    if P.get("harness"):
        res = run_harness(P["harness"], pid, "find", 0, 300)
        print("native replay on the current tree:", json.dumps(res)[:2000])
        return 1 if res and res.get("failing_input") is not None else 0
    return 0


if __name__ == "__main__":
    sys.exit(main())
