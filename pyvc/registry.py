"""pyvc.registry -- where sidecar contracts, assumed external contracts (specs), model classes and symbolic globals are
registered.  Everything registered through `spec`/`model`/`glob` is an *assumption* and is listed in the evidence."""


class Registry:
    def __init__(self):
        self.contracts = {}     # qname -> Contract instance (functions under contract: verified)
        self.specs = {}         # qname -> callable(E, st, args, kwargs) -> [Res]   (assumed external contracts)
        self.models = {}        # class name -> model object (assumed)
        self.globals = {}       # qname -> V or callable(E) -> V  (symbolic configuration / module globals)
        self.methods = {}       # (VType name, method) -> callable(E, st, recv, args, kwargs)
        self.trusted = []       # free text, collected for the evidence
        self.lemmas = {}        # name -> callable(E) generating obligations
        self.spec_docs = {}

    def contract(self, cls):
        inst = cls()
        self.contracts[inst.name] = inst
        return cls

    def inline(self, qname):
        """a small repo function that is executed in place at its call sites (verified as part of each caller)"""
        from .engine import Contract
        c = type("Inline_" + qname.replace(".", "_"), (Contract,), {"name": qname, "inline": True})()
        self.contracts[qname] = c
        return c

    def spec(self, qname, doc=None):
        def deco(fn):
            self.specs[qname] = fn
            self.spec_docs[qname] = doc or (fn.__doc__ or "").strip()
            return fn
        return deco

    def method(self, tname, name):
        def deco(fn):
            self.methods[(tname, name)] = fn
            return fn
        return deco

    def model(self, name):
        def deco(cls):
            self.models[name] = cls()
            self.spec_docs["model:" + name] = (cls.__doc__ or "").strip()
            return cls
        return deco

    def glob(self, qname, value, doc=None):
        self.globals[qname] = value
        self.spec_docs["global:" + qname] = doc or "symbolic module global / configuration item"

    def lemma(self, name, props=()):
        def deco(fn):
            fn.props = tuple(props)
            self.lemmas[name] = fn
            return fn
        return deco


R = Registry()
