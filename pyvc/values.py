"""pyvc.values -- symbolic value domain and sorts of the VC generator.

Every Python value manipulated by the symbolic executor is one of the V* wrappers below.  Typed wrappers carry a z3
term of a fixed sort; VObj is a reference into the path-local heap; VOpaque is a term of the uninterpreted sort U and
stands for "any Python object" (user objects, decoded payloads) about which only uninterpreted facts are known.
"""
import itertools
import z3

IntS = z3.IntSort()
BoolS = z3.BoolSort()
RealS = z3.RealSort()
StrS = z3.StringSort()
BytesS = z3.SeqSort(z3.IntSort())
U = z3.DeclareSort("U")          # opaque python values
Cls = z3.DeclareSort("Cls")      # classes (exception classes, user classes)

_counter = itertools.count()


def fresh_name(base):
    return "%s!%d" % (base, next(_counter))


def fresh(base, sort):
    return z3.Const(fresh_name(base), sort)


class Unsupported(Exception):
    """construct outside the accepted subset: the obligations of the function become *undecided*"""


class V:
    __slots__ = ()


class VInt(V):
    __slots__ = ("e",)

    def __init__(self, e):
        self.e = z3.IntVal(e) if isinstance(e, int) else e

    def __repr__(self):
        return "VInt(%s)" % self.e


class VBool(V):
    __slots__ = ("e",)

    def __init__(self, e):
        self.e = z3.BoolVal(e) if isinstance(e, bool) else e

    def __repr__(self):
        return "VBool(%s)" % self.e


class VReal(V):
    __slots__ = ("e",)

    def __init__(self, e):
        self.e = z3.RealVal(e) if isinstance(e, (int, float)) else e


class VNone(V):
    __slots__ = ()

    def __repr__(self):
        return "VNone"


NONE = VNone()


class VStr(V):
    __slots__ = ("e",)

    def __init__(self, e):
        self.e = z3.StringVal(e) if isinstance(e, str) else e

    def __repr__(self):
        return "VStr(%s)" % self.e


class VBytes(V):
    """bytes / bytearray / memoryview as Seq(Int); elements are in 0..255 (assumed where a byte is decoded).
    `units`: when the length is statically known, the tuple of element terms (then e == Concat(Unit(u)...)); lets fixed
    size headers be handled by plain arithmetic instead of sequence reasoning."""
    __slots__ = ("e", "kind", "units")

    def __init__(self, e, kind="bytes", units=None):
        if isinstance(e, (bytes, bytearray)):
            units = tuple(z3.IntVal(x) for x in bytes(e))
            e = bytes_const(bytes(e))
        self.e = e
        self.kind = kind
        self.units = None if units is None else tuple(units)

    @staticmethod
    def from_units(units, kind="bytes"):
        units = tuple(units)
        return VBytes(units_seq(units), kind, units)

    def __repr__(self):
        return "VBytes(%s)" % self.e


def units_seq(units):
    if len(units) == 0:
        return z3.Empty(BytesS)
    us = [z3.Unit(u) for u in units]
    return us[0] if len(us) == 1 else z3.Concat(*us)


def bytes_const(b):
    if len(b) == 0:
        return z3.Empty(BytesS)
    units = [z3.Unit(z3.IntVal(x)) for x in b]
    return units[0] if len(units) == 1 else z3.Concat(*units)


class VTuple(V):
    __slots__ = ("items",)

    def __init__(self, items):
        self.items = tuple(items)

    def __repr__(self):
        return "VTuple%r" % (self.items,)


class VObj(V):
    """reference to a heap object; `cls` is the (model) class name, fields live in State.heap[ref]"""
    __slots__ = ("ref", "cls")

    def __init__(self, ref, cls):
        self.ref = ref
        self.cls = cls

    def __repr__(self):
        return "VObj(#%d:%s)" % (self.ref, self.cls)


class VOpaque(V):
    __slots__ = ("e",)

    def __init__(self, e):
        self.e = e

    def __repr__(self):
        return "VOpaque(%s)" % self.e


class VOpt(V):
    """value that is either None or a typed value: (isnone: Bool, val: V)"""
    __slots__ = ("isnone", "val")

    def __init__(self, isnone, val):
        self.isnone = isnone
        self.val = val


class VModule(V):
    __slots__ = ("name",)

    def __init__(self, name):
        self.name = name

    def __repr__(self):
        return "VModule(%s)" % self.name


class VFunc(V):
    """a function / class / callable designated by qualified name (resolved through the spec registry)"""
    __slots__ = ("qname",)

    def __init__(self, qname):
        self.qname = qname

    def __repr__(self):
        return "VFunc(%s)" % self.qname


class VClass(V):
    """a class object; `term` is its z3 Cls term (concrete constant for known classes)"""
    __slots__ = ("qname", "term")

    def __init__(self, qname, term=None):
        self.qname = qname
        self.term = term

    def __repr__(self):
        return "VClass(%s)" % self.qname


class VBound(V):
    __slots__ = ("recv", "name")

    def __init__(self, recv, name):
        self.recv = recv
        self.name = name

    def __repr__(self):
        return "VBound(%r.%s)" % (self.recv, self.name)


class VClosure(V):
    """nested def / lambda: inlined at call"""
    __slots__ = ("node", "env", "module")

    def __init__(self, node, env, module):
        self.node = node
        self.env = env
        self.module = module


class VJoinList(V):
    """abstraction of a list of bytes-like chunks by its concatenation and its element count (append/join/len only)"""
    __slots__ = ("joined", "count")

    def __init__(self, joined, count):
        self.joined = joined
        self.count = count


class VList(V):
    """list of statically known length (tuple of V); immutable value semantics, rebinding on mutation of a local"""
    __slots__ = ("items",)

    def __init__(self, items):
        self.items = tuple(items)

    def __repr__(self):
        return "VList%r" % (self.items,)


class VSeq(V):
    """homogeneous list/sequence of symbolic length: z3 Seq term plus element wrapper"""
    __slots__ = ("e", "wrap")

    def __init__(self, e, wrap):
        self.e = e
        self.wrap = wrap     # function: z3 element term -> V


class VSet(V):
    """finite set as z3 Array(elem -> Bool) with a ghost cardinality; `wrap` rebuilds element values"""
    __slots__ = ("e", "card", "esort")

    def __init__(self, e, card, esort):
        self.e = e
        self.card = card
        self.esort = esort


# ---------------------------------------------------------------------------------------------------------------------
# uninterpreted vocabulary for opaque values

truthy = z3.Function("truthy", U, BoolS)
typeof = z3.Function("typeof", U, Cls)
str_of = z3.Function("str_of", U, StrS)           # str(x) of an opaque object (assumed not to raise)
box_int = z3.Function("box_int", IntS, U)
box_str = z3.Function("box_str", StrS, U)
box_bytes = z3.Function("box_bytes", BytesS, U)
box_bool = z3.Function("box_bool", BoolS, U)
unbox_int = z3.Function("unbox_int", U, IntS)
unbox_str = z3.Function("unbox_str", U, StrS)
unbox_bytes = z3.Function("unbox_bytes", U, BytesS)
is_int = z3.Function("is_int", U, BoolS)
is_str = z3.Function("is_str", U, BoolS)
is_bytes = z3.Function("is_bytes", U, BoolS)
U_NONE = z3.Const("U_None", U)
sub = z3.Function("subclass", Cls, Cls, BoolS)


def z(v):
    """z3 term of a typed value"""
    if isinstance(v, (VInt, VBool, VReal, VStr, VBytes, VOpaque, VSeq, VSet)):
        return v.e
    if isinstance(v, (int, bool)) and not isinstance(v, z3.ExprRef):
        return z3.BoolVal(v) if isinstance(v, bool) else z3.IntVal(v)
    if isinstance(v, z3.ExprRef):
        return v
    raise Unsupported("no z3 term for %r" % (v,))


def seq_slice(s, lo, hi, n=None):
    """Python s[lo:hi] on a z3 sequence with CPython's clamping; lo/hi are z3 Int terms or None"""
    ln = z3.Length(s)
    zero = z3.IntVal(0)

    def norm(i):
        return z3.If(i < 0, z3.If(i + ln < 0, zero, i + ln), z3.If(i > ln, ln, i))
    lo2 = zero if lo is None else norm(lo)
    hi2 = ln if hi is None else norm(hi)
    return z3.SubSeq(s, lo2, z3.If(hi2 - lo2 < 0, zero, hi2 - lo2))


def simple_slice(s, lo, hi):
    """s[lo:hi] for bounds known to be non-negative (None = open end): SMT-LIB extract clamps exactly like Python"""
    lo = z3.IntVal(0) if lo is None else lo
    hi = z3.Length(s) if hi is None else hi
    return z3.SubSeq(s, lo, sym_sub(hi, lo))


def _addends(e):
    if z3.is_add(e):
        out = []
        for c in e.children():
            out.extend(_addends(c))
        return out
    return [e]


def sym_sub(hi, lo):
    """hi - lo with common addends cancelled syntactically (no z3.simplify: it rewrites seq.nth into internal forms)"""
    ha, la = _addends(hi), _addends(lo)
    const = 0
    rest_h = []
    for t in ha:
        if z3.is_int_value(t):
            const += t.as_long()
        else:
            rest_h.append(t)
    rest_l = []
    for t in la:
        if z3.is_int_value(t):
            const -= t.as_long()
        else:
            rest_l.append(t)
    for t in list(rest_l):
        for u in rest_h:
            if z3.eq(t, u):
                rest_h.remove(u)
                rest_l.remove(t)
                break
    terms = list(rest_h)
    e = None
    for t in terms:
        e = t if e is None else e + t
    for t in rest_l:
        e = (-t) if e is None else e - t
    if e is None:
        return z3.IntVal(const)
    if const:
        e = e + const
    return e


def simp(e):
    return z3.simplify(e)
