"""pyvc.engine -- symbolic executor over the real function ASTs of /repo (forward, path splitting, modular at calls,
loops cut at sidecar invariants).  See DESIGN.md section 2."""
import ast
import copy
import hashlib
import os
import sys
import itertools
import z3
from .values import *
from . import classes as CL

REPO = os.environ.get("PYVC_REPO", "/repo")

_refs = itertools.count(1)
# feasibility checks only prune (an `unknown` keeps the path), so a short budget is sound; refutations are fast, models of
# sequence constraints are not
FEAS_TIMEOUT_MS = int(os.environ.get("PYVC_FEAS_TIMEOUT_MS", "150"))
FEAS_RLIMIT_PER_MS = int(os.environ.get("PYVC_FEAS_RLIMIT_PER_MS", "1200"))      # z3 resource units that take about one millisecond on the idle sandbox
FEAS_BACKSTOP_FACTOR = int(os.environ.get("PYVC_FEAS_BACKSTOP_FACTOR", "200"))
OUTCOME_FEAS_TIMEOUT_MS = int(os.environ.get("PYVC_OUTCOME_FEAS_TIMEOUT_MS", "40"))
JOIN = os.environ.get("PYVC_JOIN", "1") == "1"
MAX_STEPS = int(os.environ.get("PYVC_MAX_STEPS", "400000"))


class Res:
    """result of evaluating an expression on one path: a value or a raised exception"""
    __slots__ = ("st", "val", "exc")

    def __init__(self, st, val=None, exc=None):
        self.st = st
        self.val = val
        self.exc = exc


class Out:
    """outcome of executing statements on one path"""
    __slots__ = ("kind", "st", "val")

    def __init__(self, kind, st, val=None):
        self.kind = kind      # next | return | break | continue | raise
        self.st = st
        self.val = val


class State:
    def __init__(self):
        self.pc = []
        self.env = {}
        self.heap = {}
        self.ghost = {}
        self.events = []
        self.trace = []
        self.handling = []
        self.locks = {}       # lock key -> depth (python int, paths are explicit)
        self.genv = {}        # module-global names bound by the contract's setup (e.g. current_context)
        self.dead = False

    def fork(self):
        s = State.__new__(State)
        s.pc = list(self.pc)
        s.env = dict(self.env)
        s.heap = {k: dict(v) for k, v in self.heap.items()}
        s.ghost = dict(self.ghost)
        s.events = list(self.events)
        s.trace = list(self.trace)
        s.handling = list(self.handling)
        s.locks = dict(self.locks)
        s.genv = self.genv
        s.dead = self.dead
        return s

    def assume(self, *conds):
        for c in conds:
            if isinstance(c, bool):
                c = z3.BoolVal(c)
            if z3.is_true(c):
                continue
            self.pc.append(c)

    def new_obj(self, cls, **fields):
        ref = next(_refs)
        self.heap[ref] = dict(fields)
        return VObj(ref, cls)

    def get(self, obj, field, default=None):
        return self.heap.get(obj.ref, {}).get(field, default)

    def has(self, obj, field):
        return field in self.heap.get(obj.ref, {})

    def set(self, obj, field, v):
        self.heap[obj.ref][field] = v

    def event(self, *ev):
        self.events.append(ev)


class Obligation:
    def __init__(self, name, pc, goal, info=None, prop=None, kind="post"):
        self.name = name
        self.pc = list(pc)
        self.goal = goal
        self.info = info or {}
        self.prop = prop
        self.kind = kind
        self.result = None
        self.backend = None
        self.time = 0.0
        self.model = None

    def smt2(self, timeout_ms=None):
        s = z3.Solver()
        for c in self.pc:
            s.add(c)
        s.add(z3.Not(self.goal))
        return s.to_smt2()


class Module:
    """one source file of /repo, parsed on every run"""
    _cache = {}

    def __init__(self, qname):
        self.qname = qname
        rel = qname.replace(".", os.sep)
        path = os.path.join(REPO, rel + ".py")
        if not os.path.exists(path):
            path = os.path.join(REPO, rel, "__init__.py")
        self.path = path
        self.src = open(path).read()
        self.tree = ast.parse(self.src)
        self.funcs = {}
        self.classes = {}
        self.names = {}
        pkg = qname.rsplit(".", 1)[0] if "." in qname else ""
        if path.endswith("__init__.py"):
            pkg = qname
        self._scan(self.tree.body, "", pkg)

    def _scan(self, body, prefix, pkg):
        for node in body:
            if isinstance(node, (ast.FunctionDef, ast.AsyncFunctionDef)):
                self.funcs[prefix + node.name] = node
                if not prefix:
                    self.names[node.name] = ("def", self.qname + "." + node.name)
            elif isinstance(node, ast.ClassDef):
                self.classes[prefix + node.name] = node
                if not prefix:
                    self.names[node.name] = ("class", self.qname + "." + node.name)
                self._scan(node.body, prefix + node.name + ".", pkg)
            elif prefix:
                continue
            elif isinstance(node, ast.Import):
                for a in node.names:
                    if a.asname:
                        self.names[a.asname] = ("module", a.name)
                    else:
                        self.names[a.name.split(".")[0]] = ("module", a.name.split(".")[0])
            elif isinstance(node, ast.ImportFrom):
                if node.level:
                    parts = pkg.split(".")
                    base = ".".join(parts[:len(parts) - node.level + 1])
                    modq = base + ("." + node.module if node.module else "")
                else:
                    modq = node.module
                for a in node.names:
                    self.names[a.asname or a.name] = ("from", modq, a.name)
            elif isinstance(node, ast.Assign):
                for t in node.targets:
                    if isinstance(t, ast.Name):
                        self.names[t.id] = ("assign", node.value)
            elif isinstance(node, (ast.If, ast.Try)):
                # conditional module-level definitions (e.g. `if hasattr(errno, ..)`): names assigned inside keep the
                # first binding seen; overridden by sidecar globals where it matters
                for sub_ in ast.walk(node):
                    if isinstance(sub_, ast.Assign):
                        for t in sub_.targets:
                            if isinstance(t, ast.Name) and t.id not in self.names:
                                self.names[t.id] = ("assign", sub_.value)

    @classmethod
    def load(cls, qname):
        if qname not in cls._cache:
            cls._cache[qname] = Module(qname)
        return cls._cache[qname]

    def func_hash(self, fq):
        node = self.funcs[fq]
        seg = ast.get_source_segment(self.src, node) or ""
        return hashlib.sha256(seg.encode()).hexdigest()[:16]


def is_repo_module(qname):
    rel = qname.replace(".", os.sep)
    return os.path.exists(os.path.join(REPO, rel + ".py")) or os.path.exists(os.path.join(REPO, rel, "__init__.py"))


class Contract:
    """sidecar contract of one real function.  Subclasses override the hooks below."""
    name = None            # 'Pyro5.socketutil.receive_data'
    props = ()
    inline = False
    raises = {}            # class qname -> method name giving the exceptional postcondition
    trusted = ()           # free-text assumptions specific to this contract

    def setup(self, E, st):
        """create symbolic parameters in st (and assume their type invariants); return dict name -> V"""
        raise NotImplementedError

    def requires(self, E, st, a):
        return []

    def ensures(self, E, old, st, a, result):
        return []

    def modifies(self, E, st, a):
        """list of (VObj, field) the function may write (call-site havoc)"""
        return []

    def result(self, E, st, a):
        """fresh symbolic result of the right shape (call-site use)"""
        return NONE

    def loop_inv(self, k, E, old, st, a):
        return None

    def loop_hints(self, k, E, old, head, st, a):
        return []

    def loop_modifies(self, k, E, st, a):
        """extra heap fields / ghost names havocked by loop k: list of (VObj, field) or ('ghost', name)"""
        return []

    def exc_fields(self, E, st, a, qname, exc):
        """populate a callee-raised exception object at a call site"""
        return None


class _NoJoin(Exception):
    pass


class QInv:
    """quantified loop invariant  forall k. 0 <= k < bound(st) -> body(st, k)  over a log that grows by at most one entry
    per iteration.  inv-keep is split by hand (ground obligations instead of a skolemised quantifier):
    frame: an arbitrary old entry k0 < bound(head) still satisfies body in the new state;  new: bound grows by <= 1 and the
    new entry satisfies body."""

    def __init__(self, bound, body):
        self.bound, self.body = bound, body

    def formula(self, st):
        k = z3.Int("k!qinv")
        return z3.ForAll([k], z3.Implies(z3.And(0 <= k, k < self.bound(st)), self.body(st, k)))


class Engine:
    callsite_normal = {}

    def __init__(self, registry):
        self.callsite_normal = {}
        self.R = registry             # .contracts, .specs, .models, .globals, .methods
        self.obligations = []
        self.unsupported = []         # (function, reason)
        self.cur = None               # contract being verified
        self.cur_module = None
        self.loop_ordinals = {}
        self.path_counter = 0
        self.feas_checks = 0
        self.user_exc_classes = []
        self.stats = {"paths": 0, "pruned": 0}
        self._relevant = None
        self._canaries = {}

    # ------------------------------------------------------------------------------------------------ solver helpers
    def feasible(self, st, extra=None, timeout=FEAS_TIMEOUT_MS):
        s = z3.Solver()
        # a RESOURCE limit decides which checks are given up (deterministic: the same paths are kept whether the machine is idle or busy); the wall-clock timeout is
        # only a backstop.  (With a wall-clock budget alone, a loaded machine kept paths an idle one pruned, and once such an infeasible path ran into a construct
        # outside the subset - a spurious UNDECIDED.)
        s.set("rlimit", FEAS_RLIMIT_PER_MS * timeout)
        s.set("timeout", FEAS_BACKSTOP_FACTOR * timeout)
        # cone of influence: only the conjuncts that (transitively) share a symbol with the condition can make it
        # infeasible (the rest of the path condition is consistent by construction and independent of it)
        qf = [c for c in st.pc if not _has_quantifier(c)]   # quantified axioms are left out: that can only keep more paths
        if extra is not None:
            syms = set(_symbols(extra))
            if not syms:
                qf = []
            else:
                todo = [(c, _symbols(c)) for c in qf]
                chosen = []
                changed = True
                while changed:
                    changed = False
                    rest = []
                    for c, cs in todo:
                        if cs & syms:
                            chosen.append(c)
                            if not cs <= syms:
                                syms |= cs
                                changed = True
                        else:
                            rest.append((c, cs))
                    todo = rest
                qf = chosen
        for c in qf:
            s.add(c)
        if extra is not None:
            s.add(extra)
        self.feas_checks += 1
        if os.environ.get("PYVC_FEAS_STATS"):
            import time as _t
            t0 = _t.time()
            r = s.check()
            rl = [v for k, v in s.statistics() if k == "rlimit count"]
            sys.stderr.write("FEAS %s %.3f %s %d %s\n" % (r, _t.time() - t0, rl[0] if rl else -1, timeout, s.reason_unknown() if r == z3.unknown else "-"))
            return r != z3.unsat
        r = s.check()
        return r != z3.unsat

    def induction(self, st, name, P, n):
        """lemma by induction on 0..n: obligations P(0) and P(j) => P(j+1) for 0 <= j < n (fresh j), discharged from the
        current path condition; returns the universally quantified conclusion for the caller to assume.  The induction
        principle itself is the only thing trusted."""
        j = fresh("j_ind", IntS)
        self.oblige(st, "lemma:%s[base]" % name, P(z3.IntVal(0)), kind="lemma")
        s2 = st.fork()
        s2.assume(0 <= j, j < n, P(j))
        self.oblige(s2, "lemma:%s[step]" % name, P(j + 1), kind="lemma")
        q = z3.Int("q!" + name)
        return z3.ForAll([q], z3.Implies(z3.And(0 <= q, q <= n), P(q)))

    def branch(self, st, cond):
        """fork on a z3 Bool; returns list of (state, python bool) for the feasible sides"""
        cond = z3.simplify(cond)
        if z3.is_true(cond):
            return [(st, True)]
        if z3.is_false(cond):
            return [(st, False)]
        out = []
        t = self.feasible(st, cond)
        f = self.feasible(st, z3.Not(cond)) if t else True    # pc is feasible: if one side is not, the other is
        if t and f:
            s2 = st.fork()
            st.assume(cond)
            s2.assume(z3.Not(cond))
            return [(st, True), (s2, False)]
        if t:
            st.assume(cond)
            return [(st, True)]
        if f:
            st.assume(z3.Not(cond))
            return [(st, False)]
        self.stats["pruned"] += 1
        return out

    def oblige(self, st, name, goal, kind="post", info=None):
        if isinstance(goal, bool):
            goal = z3.BoolVal(goal)
        full = "%s:%s" % (self.cur.name if self.cur else "?", name)
        if z3.is_and(goal) and goal.num_args() > 1 and kind not in ("canary", "vacuity"):
            # conjunctions are proved conjunct by conjunct (smaller queries are the stable ones)
            for i, g in enumerate(goal.children()):
                self.obligations.append(Obligation("%s/%d" % (full, i), st.pc, g, info=dict(info or {}, trace=list(st.trace)), kind=kind))
            return None
        ob = Obligation(full, st.pc, goal, info=dict(info or {}, trace=list(st.trace)), kind=kind)
        self.obligations.append(ob)
        return ob

    # ------------------------------------------------------------------------------------------------ exceptions
    def relevant_classes(self):
        if self._relevant is None:
            rel = set()
            for q in CL.all_known():
                if q.startswith("Pyro5.") or q in (
                        "builtins.BaseException", "builtins.Exception", "builtins.OSError", "builtins.TimeoutError",
                        "builtins.KeyError", "builtins.LookupError", "builtins.IndexError", "builtins.AttributeError",
                        "builtins.TypeError", "builtins.ValueError", "builtins.AssertionError",
                        "builtins.StopIteration", "builtins.KeyboardInterrupt", "builtins.SystemExit",
                        "builtins.GeneratorExit", "builtins.UnicodeError", "builtins.UnicodeDecodeError",
                        "builtins.UnicodeEncodeError", "builtins.ArithmeticError", "builtins.OverflowError",
                        "builtins.RuntimeError", "builtins.NotImplementedError", "builtins.ConnectionError",
                        "builtins.ConnectionResetError", "builtins.BrokenPipeError", "builtins.ImportError",
                        "struct.error", "zlib.error", "sqlite3.Error", "sqlite3.DatabaseError",
                        "sqlite3.IntegrityError", "sqlite3.OperationalError", "json.decoder.JSONDecodeError"):
                    rel.add(q)
            self._relevant = sorted(rel)
        return self._relevant

    def new_exc(self, st, qname, args=(), **fields):
        q = CL.canon(qname)
        f = {"__cls__": VClass(q, CL.term(q)), "args": VTuple(args)}
        f.update(fields)
        return st.new_obj("exc", **f)

    def new_sym_exc(self, st, base="builtins.Exception", name="uexc", also_not=()):
        """exception of an unknown class below `base`"""
        c = fresh("cls_" + name, Cls)
        st.assume(sub(c, CL.term(base)))
        for ax in CL.closure_axioms(c, self.relevant_classes()):
            st.assume(ax)
        for q in also_not:
            st.assume(z3.Not(sub(c, CL.term(q))))
        o = st.new_obj("exc", __cls__=VClass(None, c), args=VOpaque(fresh("uargs", U)))
        return o

    def exc_class(self, st, exc):
        return st.get(exc, "__cls__")

    def cls_cond(self, vc, target_q):
        """z3 Bool (or python bool) for `class vc is a subclass of target_q`"""
        tq = CL.canon(target_q)
        if vc.qname is not None:
            return CL.is_subclass(vc.qname, tq)
        return sub(vc.term, CL.term(tq))

    def raise_(self, st, qname, *args, **fields):
        return Res(st, exc=self.new_exc(st, qname, args, **fields))

    # ------------------------------------------------------------------------------------------------ truthiness
    def truth(self, v, st):
        """z3 Bool for bool(v)"""
        if isinstance(v, VBool):
            return v.e
        if isinstance(v, VInt):
            return v.e != 0
        if isinstance(v, VReal):
            return v.e != 0
        if isinstance(v, VNone):
            return z3.BoolVal(False)
        if isinstance(v, (VStr, VBytes)):
            return z3.Length(v.e) > 0
        if isinstance(v, (VTuple, VList)):
            return z3.BoolVal(len(v.items) > 0)
        if isinstance(v, VSeq):
            return z3.Length(v.e) > 0
        if isinstance(v, VJoinList):
            return v.count > 0
        if isinstance(v, VSet):
            return v.card > 0
        if isinstance(v, VOpt):
            return z3.And(z3.Not(v.isnone), self.truth(v.val, st))
        if isinstance(v, VOpaque):
            return z3.And(v.e != U_NONE, truthy(v.e))
        if isinstance(v, VObj):
            m = self.R.models.get(v.cls)
            if m is not None and hasattr(m, "truth"):
                return m.truth(self, st, v)
            return z3.BoolVal(True)
        if isinstance(v, (VFunc, VClass, VBound, VModule, VClosure)):
            return z3.BoolVal(True)
        if hasattr(v, "truth_term"):
            return v.truth_term()
        raise Unsupported("truthiness of %r" % (v,))

    # ------------------------------------------------------------------------------------------------ names
    def lookup_name(self, name, st, module):
        if name in st.env:
            return st.env[name]
        if name in st.genv:
            return st.genv[name]
        return self.module_name(module, name)

    def module_name(self, module, name):
        q = module.qname + "." + name
        if q in self.R.globals:
            g = self.R.globals[q]
            return g(self) if callable(g) else g
        if name in module.names:
            ent = module.names[name]
            if ent[0] == "module":
                return VModule(ent[1])
            if ent[0] == "from":
                return self.qualified(ent[1] + "." + ent[2])
            if ent[0] == "def":
                return VFunc(ent[1])
            if ent[0] == "class":
                return self.class_value(ent[1])
            if ent[0] == "assign":
                key = ("const", q)
                if key not in self._const_cache:
                    st0 = State()
                    rs = self.ev(ent[1], st0, module)
                    if len(rs) != 1 or rs[0].exc is not None or rs[0].st.pc:
                        raise Unsupported("module constant %s is not a simple constant" % q)
                    self._const_cache[key] = rs[0].val
                return self._const_cache[key]
        import builtins as _b
        if hasattr(_b, name):
            return self.qualified("builtins." + name)
        raise Unsupported("unresolved name %s in %s" % (name, module.qname))

    _const_cache = {}

    def class_value(self, q):
        q = CL.canon(q)
        return VClass(q, CL.term(q) if CL.known(q) else None)

    def qualified(self, q):
        """value designated by a dotted qualified name"""
        if q in self.R.globals:
            g = self.R.globals[q]
            return g(self) if callable(g) else g
        if CL.known(q):
            return self.class_value(q)
        if any(g.startswith(q + ".") for g in self.R.globals):
            return VModule(q)      # namespace of symbolic globals (e.g. Pyro5.config)
        if q in self.R.contracts or q in self.R.specs:
            return VFunc(q)
        if q in self.R.models:
            return VClass(q, None)
        if is_repo_module(q):
            return VModule(q)
        if "." in q:
            modq, attr = q.rsplit(".", 1)
            if is_repo_module(modq):
                return self.module_name(Module.load(modq), attr)
        if q in ("socket", "struct", "zlib", "time", "uuid", "contextlib", "logging", "threading", "sys", "os",
                 "inspect", "weakref", "warnings", "re", "errno", "sqlite3", "builtins", "traceback", "json",
                 "marshal", "serpent", "msgpack", "base64", "cgi", "urllib.parse", "urllib", "platform", "selectors"):
            return VModule(q)
        raise Unsupported("no specification for %s" % q)

    # ------------------------------------------------------------------------------------------------ expressions
    def ev(self, node, st, module=None):
        module = module or self.cur_module
        m = getattr(self, "ev_" + type(node).__name__, None)
        if m is None:
            raise Unsupported("expression %s at line %s" % (type(node).__name__, getattr(node, "lineno", "?")))
        return m(node, st, module)

    def ev_list(self, nodes, st, module):
        """evaluate nodes left to right; returns (list of (st, [vals]), list of exceptional Res)"""
        oks = [(st, [])]
        excs = []
        for n in nodes:
            nxt = []
            for s, vals in oks:
                for r in self.ev(n, s, module):
                    if r.exc is not None:
                        excs.append(r)
                    else:
                        nxt.append((r.st, vals + [r.val]))
            oks = nxt
        return oks, excs

    def ev_Constant(self, node, st, module):
        v = node.value
        if v is None:
            return [Res(st, NONE)]
        if isinstance(v, bool):
            return [Res(st, VBool(v))]
        if isinstance(v, int):
            return [Res(st, VInt(v))]
        if isinstance(v, float):
            return [Res(st, VReal(v))]
        if isinstance(v, str):
            return [Res(st, VStr(v))]
        if isinstance(v, bytes):
            return [Res(st, VBytes(v))]
        raise Unsupported("constant %r" % (v,))

    def ev_Name(self, node, st, module):
        return [Res(st, self.lookup_name(node.id, st, module))]

    def ev_Tuple(self, node, st, module):
        oks, excs = self.ev_list(node.elts, st, module)
        return [Res(s, VTuple(vals)) for s, vals in oks] + excs

    def ev_List(self, node, st, module):
        oks, excs = self.ev_list(node.elts, st, module)
        return [Res(s, VList(vals)) for s, vals in oks] + excs

    def ev_Dict(self, node, st, module):
        if not node.keys:
            spec = self.R.specs.get("builtins.dict")
            if spec:
                return spec(self, st, [], {})
        hook = self.R.specs.get("syntax.dict_display")
        if hook is None:
            raise Unsupported("dict display at line %d" % node.lineno)
        oksk, excs = self.ev_list([k for k in node.keys], st, module)
        out = list(excs)
        for s, ks in oksk:
            oksv, excs2 = self.ev_list(node.values, s, module)
            out.extend(excs2)
            for s2, vs in oksv:
                out.extend(hook(self, s2, [VTuple(ks), VTuple(vs)], {}))
        return out

    def ev_Set(self, node, st, module):
        raise Unsupported("set display")

    def mangle(self, attr):
        """private name mangling inside a class body (self.__x -> self._Class__x)"""
        cls = getattr(self, "cur_class", None)
        if cls and attr.startswith("__") and not attr.endswith("__"):
            return "_%s%s" % (cls.lstrip("_"), attr)
        return attr

    def ev_Attribute(self, node, st, module):
        out = []
        for r in self.ev(node.value, st, module):
            if r.exc is not None:
                out.append(r)
                continue
            out.extend(self.getattr(r.st, r.val, self.mangle(node.attr), node))
        return out

    def getattr(self, st, v, name, node=None):
        """attribute read; list of Res"""
        if isinstance(v, VModule):
            q = v.name + "." + name
            written = st.ghost.get("module_globals_written")
            if written is not None and q in written:
                return [Res(st, written[q])]        # a module global assigned earlier on this path
            return [Res(st, self.qualified(q))]
        if isinstance(v, VObj):
            if v.cls == "exc":
                if st.has(v, name):
                    return [Res(st, st.get(v, name))]
                if name == "__class__":
                    return [Res(st, st.get(v, "__cls__"))]
                # attribute of an exception object that was never set
                # attributes that were never set are absent (assumption for exceptions raised by user code: they carry
                # no attribute that Pyro itself looks for, e.g. `pyroMsg`)
                return [self.raise_(st, "builtins.AttributeError")]
            m = self.R.models.get(v.cls)
            if m is not None:
                r = m.getattr(self, st, v, name)
                if r is not None:
                    return r
            if st.has(v, name):
                return [Res(st, st.get(v, name))]
            q = v.cls + "." + name
            if q in self.R.contracts and self.is_property(q):
                # a @property of a repo class that is under contract: reading the attribute calls the getter (by its contract)
                return self.call(st, VBound(v, name), [], {}, node)
            if q in self.R.contracts or q in self.R.specs:
                return [Res(st, VBound(v, name))]
            if m is not None and name in getattr(m, "methods", {}):
                return [Res(st, VBound(v, name))]
            short = v.cls.rsplit(".", 1)[-1]
            if name.startswith("_%s__" % short.lstrip("_")):       # mangled private method
                orig = name[len(short.lstrip("_")) + 1:]
                if (v.cls + "." + orig) in self.R.contracts or (v.cls + "." + orig) in self.R.specs:
                    return [Res(st, VBound(v, orig))]
            if self.repo_function(q) is not None:
                return [Res(st, VBound(v, name))]        # a plain method of the repo class (executed in place when called)
            inherited = self.inherited_method(v.cls, name)
            if inherited is not None:
                # a plain helper defined on a base class of the same module (no contract, no spec): executed in place when called
                return [Res(st, VBound(v, name))]
            if "." in v.cls and is_repo_module(v.cls.rsplit(".", 1)[0]):
                # not an instance attribute: a class-level constant of the repo class (e.g. a compiled regular expression)
                try:
                    return self.getattr(st, VClass(v.cls, None), name, node)
                except Unsupported:
                    pass
            raise Unsupported("attribute %s of %r" % (name, v))
        if isinstance(v, VClass):
            q = (v.qname or "?") + "." + name
            if q in self.R.globals:
                g = self.R.globals[q]
                return [Res(st, g(self) if callable(g) else g)]
            if q in self.R.contracts or q in self.R.specs:
                return [Res(st, VFunc(q))]
            if v.qname and "." in v.qname:
                modq, cname = v.qname.rsplit(".", 1)
                if is_repo_module(modq):
                    mod = Module.load(modq)
                    cnode = mod.classes.get(cname)
                    if cnode is not None:
                        for b in cnode.body:
                            if isinstance(b, ast.Assign) and any(isinstance(t, ast.Name) and t.id == name for t in b.targets):
                                rs = self.ev(b.value, State(), mod)
                                if len(rs) == 1 and rs[0].exc is None:
                                    return [Res(st, rs[0].val)]
            if v.qname and self.static_function(q) is not None:
                return [Res(st, VFunc(q))]       # a static helper of a repo class without contract or spec: executed in place when called
            raise Unsupported("class attribute %s" % q)
        if isinstance(v, (VBytes, VStr, VTuple, VList, VInt, VJoinList, VSeq, VSet, VReal)):
            return [Res(st, VBound(v, name))]
        if (type(v).__name__, name) in self.R.methods:
            return [Res(st, VBound(v, name))]       # sidecar-defined value types (e.g. tag sets)
        if isinstance(v, VOpaque):
            h = self.R.specs.get("U.getattr")
            if h:
                return h(self, st, [v, VStr(name)], {})
            raise Unsupported("attribute %s of opaque value" % name)
        if isinstance(v, VNone):
            return [self.raise_(st, "builtins.AttributeError")]
        if isinstance(v, VFunc):
            q = v.qname + "." + name
            if q in self.R.specs or q in self.R.contracts:
                return [Res(st, VFunc(q))]
            raise Unsupported("attribute %s" % q)
        if isinstance(v, VOpt):
            out = []
            for s2, isnone in self.branch(st, v.isnone):
                if isnone:
                    out.append(self.raise_(s2, "builtins.AttributeError"))
                else:
                    out.extend(self.getattr(s2, v.val, name, node))
            return out
        raise Unsupported("attribute %s of %r" % (name, v))

    def ev_BoolOp(self, node, st, module):
        # value semantics of and/or by forking on truthiness
        def go(i, s):
            rs = self.ev(node.values[i], s, module)
            if i == len(node.values) - 1:
                return rs
            out = []
            for r in rs:
                if r.exc is not None:
                    out.append(r)
                    continue
                for s2, t in self.branch(r.st, self.truth(r.val, r.st)):
                    stop = (not t) if isinstance(node.op, ast.And) else t
                    if stop:
                        out.append(Res(s2, r.val))
                    else:
                        out.extend(go(i + 1, s2))
            return out
        return go(0, st)

    def ev_UnaryOp(self, node, st, module):
        out = []
        for r in self.ev(node.operand, st, module):
            if r.exc is not None:
                out.append(r)
                continue
            v = r.val
            if isinstance(node.op, ast.Not):
                out.append(Res(r.st, VBool(z3.Not(self.truth(v, r.st)))))
            elif isinstance(node.op, ast.USub) and isinstance(v, VInt):
                out.append(Res(r.st, VInt(-v.e)))
            elif isinstance(node.op, ast.USub) and isinstance(v, VReal):
                out.append(Res(r.st, VReal(-v.e)))
            elif isinstance(node.op, ast.Invert) and isinstance(v, VInt):
                out.append(Res(r.st, VInt(z3.simplify(-v.e - 1))))
            else:
                raise Unsupported("unary op at line %d" % node.lineno)
        return out

    def ev_IfExp(self, node, st, module):
        out = []
        for r in self.ev(node.test, st, module):
            if r.exc is not None:
                out.append(r)
                continue
            for s2, t in self.branch(r.st, self.truth(r.val, r.st)):
                out.extend(self.ev(node.body if t else node.orelse, s2, module))
        return out

    # --- arithmetic -------------------------------------------------------------------------------------------------
    @staticmethod
    def _const_int(v):
        if isinstance(v, VInt):
            s = z3.simplify(v.e)
            if z3.is_int_value(s):
                return s.as_long()
        return None

    def bit_and(self, x, c):
        """x & c for a python-int constant c (mathematical ints, two's complement semantics)"""
        if c >= 0 and (c + 1) & c == 0:
            return x % (c + 1)            # mask of the low bits: x & (2^k - 1) == x mod 2^k (floor semantics, also for negative x)
        if c >= 0:
            terms = []
            k = 0
            cc = c
            while cc:
                if cc & 1:
                    terms.append((2 ** k) * ((x / (2 ** k)) % 2))
                cc >>= 1
                k += 1
            return (z3.Sum(terms) if len(terms) > 1 else terms[0]) if terms else z3.IntVal(0)
        return x - self.bit_and(x, ~c)

    BIT_LEMMA_WIDTH = 16

    def bit_lemmas(self, st, x, c, r, is_and):
        """true facts of integer arithmetic about r = x & c / r = x | c for a constant c (bit k of y is (y div 2^k) mod 2):
        bit k of r is bit k of x masked / forced by bit k of c, for k < 16; and the order facts.  Added to the path as
        lemmas because the solvers do not derive div/mod identities unprompted."""
        for k in range(self.BIT_LEMMA_WIDTH):
            ck = (c >> k) & 1
            bx = (x / (2 ** k)) % 2
            br = (r / (2 ** k)) % 2
            if is_and:
                st.assume(br == (bx if ck else 0))
            else:
                st.assume(br == (1 if ck else bx))
        if is_and:
            st.assume(z3.Implies(x >= 0, z3.And(r >= 0, r <= x)))
        else:
            st.assume(z3.Implies(x >= 0, z3.And(r >= x, r <= x + c)))

    def bit_or(self, x, c):
        if c >= 0:
            return x + c - self.bit_and(x, c)
        raise Unsupported("| with negative constant")

    def binop(self, op, a, b, st, node):
        """returns list of Res"""
        if isinstance(a, VInt) and isinstance(b, VInt):
            if isinstance(op, ast.Add):
                return [Res(st, VInt(a.e + b.e))]
            if isinstance(op, ast.Sub):
                return [Res(st, VInt(a.e - b.e))]
            if isinstance(op, ast.Mult):
                return [Res(st, VInt(a.e * b.e))]
            if isinstance(op, (ast.BitAnd, ast.BitOr, ast.LShift, ast.RShift, ast.BitXor)):
                ca, cb = self._const_int(a), self._const_int(b)
                if ca is not None and cb is not None:
                    import operator
                    f = {ast.BitAnd: operator.and_, ast.BitOr: operator.or_, ast.LShift: operator.lshift,
                         ast.RShift: operator.rshift, ast.BitXor: operator.xor}[type(op)]
                    return [Res(st, VInt(f(ca, cb)))]
                if isinstance(op, (ast.BitAnd, ast.BitOr)) and (ca is not None or cb is not None):
                    x, c = (a.e, cb) if cb is not None else (b.e, ca)
                    r = self.bit_and(x, c) if isinstance(op, ast.BitAnd) else self.bit_or(x, c)
                    self.bit_lemmas(st, x, c, r, isinstance(op, ast.BitAnd))
                    return [Res(st, VInt(r))]
                raise Unsupported("bit operation on two symbolic ints at line %d" % node.lineno)
            if isinstance(op, (ast.FloorDiv, ast.Mod)):
                out = []
                for s2, zero in self.branch(st, b.e == 0):
                    if zero:
                        out.append(self.raise_(s2, "builtins.ZeroDivisionError"))
                    else:
                        # python floor semantics; z3 div/mod floor for positive divisors
                        cb = self._const_int(b)
                        if cb is None or cb < 0:
                            raise Unsupported("division by non-constant / negative")
                        out.append(Res(s2, VInt(a.e / b.e if isinstance(op, ast.FloorDiv) else a.e % b.e)))
                return out
        if isinstance(a, (VInt, VReal)) and isinstance(b, (VInt, VReal)):
            ae = z3.ToReal(a.e) if isinstance(a, VInt) else a.e
            be = z3.ToReal(b.e) if isinstance(b, VInt) else b.e
            if isinstance(op, ast.Add):
                return [Res(st, VReal(ae + be))]
            if isinstance(op, ast.Sub):
                return [Res(st, VReal(ae - be))]
            if isinstance(op, ast.Mult):
                return [Res(st, VReal(ae * be))]
        if isinstance(a, VStr) and isinstance(b, VStr) and isinstance(op, ast.Add):
            return [Res(st, VStr(z3.Concat(a.e, b.e)))]
        if isinstance(a, VBytes) and isinstance(b, VBytes) and isinstance(op, ast.Add):
            kind = "bytearray" if a.kind == "bytearray" else "bytes"
            if a.units is not None and b.units is not None:
                return [Res(st, VBytes.from_units(a.units + b.units, kind))]
            return [Res(st, VBytes(z3.Concat(a.e, b.e), kind))]
        if isinstance(a, VBytes) and isinstance(b, VInt) and isinstance(op, ast.Mult):
            ca, cb = None, self._const_int(b)
            if cb is not None and cb <= 64:
                e = z3.Empty(BytesS)
                for _ in range(cb):
                    e = z3.Concat(e, a.e) if _ else a.e
                return [Res(st, VBytes(e if cb else z3.Empty(BytesS)))]
        if isinstance(a, VStr) and isinstance(op, ast.Mod):
            return [Res(st, self.percent_format(a, b, st))]
        if isinstance(a, VStr) and isinstance(b, VOpaque) and isinstance(op, ast.Add):
            # str + non-str raises TypeError unless the opaque value is a str
            out = []
            for s2, t in self.branch(st, is_str(b.e)):
                if t:
                    out.append(Res(s2, VStr(z3.Concat(a.e, unbox_str(b.e)))))
                else:
                    out.append(self.raise_(s2, "builtins.TypeError"))
            return out
        if isinstance(a, (VList, VTuple)) and type(a) is type(b) and isinstance(op, ast.Add):
            return [Res(st, type(a)(a.items + b.items))]
        h = self.R.specs.get("syntax.binop")
        if h:
            r = h(self, st, [a, b], {"op": op, "node": node})
            if r is not None:
                return r
        raise Unsupported("binary op %s on %r, %r at line %d" % (type(op).__name__, a, b, node.lineno))

    def percent_format(self, fmt, arg, st):
        s = z3.simplify(fmt.e)
        if not z3.is_string_value(s):
            return VStr(fresh("fmt", StrS))
        text = s.as_string()
        args = list(arg.items) if isinstance(arg, VTuple) else [arg]
        parts = []
        i = 0
        ai = 0
        buf = ""
        while i < len(text):
            ch = text[i]
            if ch == "%" and i + 1 < len(text):
                c2 = text[i + 1]
                if c2 == "%":
                    buf += "%"
                    i += 2
                    continue
                if c2 in "sdr" and ai < len(args):
                    if buf:
                        parts.append(z3.StringVal(buf))
                        buf = ""
                    a = args[ai]
                    ai += 1
                    if c2 == "s" and isinstance(a, VStr):
                        parts.append(a.e)
                    elif c2 in "sd" and isinstance(a, VInt):
                        parts.append(int_to_str(a.e))
                    elif c2 == "s" and isinstance(a, VOpt) and isinstance(a.val, VStr):
                        parts.append(z3.If(a.isnone, z3.StringVal("None"), a.val.e))
                    elif c2 == "d" and isinstance(a, VOpt) and isinstance(a.val, VInt):
                        parts.append(int_to_str(a.val.e))      # (%d of None is a TypeError; callers guard it)
                    else:
                        parts.append(fresh("fmtarg", StrS))
                    i += 2
                    continue
                return VStr(fresh("fmt", StrS))
            buf += ch
            i += 1
        if buf:
            parts.append(z3.StringVal(buf))
        if ai != len(args):
            return VStr(fresh("fmt", StrS))
        if not parts:
            return VStr("")
        return VStr(parts[0] if len(parts) == 1 else z3.Concat(*parts))

    def ev_BinOp(self, node, st, module):
        oks, excs = self.ev_list([node.left, node.right], st, module)
        out = list(excs)
        for s, (a, b) in oks:
            for s1, a1, x1 in self.unopt(s, a):
                if x1 is not None:
                    out.append(Res(s1, exc=x1))
                    continue
                for s2, b1, x2 in self.unopt(s1, b):
                    if x2 is not None:
                        out.append(Res(s2, exc=x2))
                    else:
                        out.extend(self.binop(node.op, a1, b1, s2, node))
        return out

    # --- comparisons ------------------------------------------------------------------------------------------------
    def eq(self, a, b, st):
        """z3 Bool for a == b (python semantics on the modelled types)"""
        if isinstance(a, VNone) or isinstance(b, VNone):
            if isinstance(a, VNone) and isinstance(b, VNone):
                return z3.BoolVal(True)
            o = b if isinstance(a, VNone) else a
            if isinstance(o, VOpaque):
                return o.e == U_NONE
            if isinstance(o, VOpt):
                return o.isnone
            return z3.BoolVal(False)
        if isinstance(a, VOpt) or isinstance(b, VOpt):
            if isinstance(a, VOpt) and isinstance(b, VOpt):
                return z3.Or(z3.And(a.isnone, b.isnone), z3.And(z3.Not(a.isnone), z3.Not(b.isnone), self.eq(a.val, b.val, st)))
            o, p = (a, b) if isinstance(a, VOpt) else (b, a)
            return z3.And(z3.Not(o.isnone), self.eq(o.val, p, st))
        if isinstance(a, (VInt, VBool)) and isinstance(b, (VInt, VBool)):
            ae = a.e if isinstance(a, VInt) else z3.If(a.e, 1, 0)
            be = b.e if isinstance(b, VInt) else z3.If(b.e, 1, 0)
            if isinstance(a, VBool) and isinstance(b, VBool):
                return a.e == b.e
            return ae == be
        if isinstance(a, (VInt, VReal)) and isinstance(b, (VInt, VReal)):
            ae = z3.ToReal(a.e) if isinstance(a, VInt) else a.e
            be = z3.ToReal(b.e) if isinstance(b, VInt) else b.e
            return ae == be
        if isinstance(a, VStr) and isinstance(b, VStr):
            return a.e == b.e
        if isinstance(a, VBytes) and isinstance(b, VBytes):
            if a.units is not None and b.units is not None:
                if len(a.units) != len(b.units):
                    return z3.BoolVal(False)
                return z3.And([x == y for x, y in zip(a.units, b.units)]) if a.units else z3.BoolVal(True)
            return a.e == b.e
        if isinstance(a, (VTuple, VList)) and isinstance(b, (VTuple, VList)):
            if type(a) is not type(b) or len(a.items) != len(b.items):
                return z3.BoolVal(False)
            return z3.And([self.eq(x, y, st) for x, y in zip(a.items, b.items)]) if a.items else z3.BoolVal(True)
        if isinstance(a, VOpaque) and isinstance(b, VOpaque):
            h = self.R.specs.get("U.eq")
            if h:
                return h(self, st, a, b)
            return fresh("ueq", BoolS) if not z3.eq(a.e, b.e) else z3.BoolVal(True)
        if isinstance(a, VOpaque) or isinstance(b, VOpaque):
            o, p = (a, b) if isinstance(a, VOpaque) else (b, a)
            if isinstance(p, VStr):
                return z3.And(is_str(o.e), unbox_str(o.e) == p.e)
            if isinstance(p, VInt):
                return z3.And(is_int(o.e), unbox_int(o.e) == p.e)
            if isinstance(p, VBytes):
                return z3.And(is_bytes(o.e), unbox_bytes(o.e) == p.e)
            return fresh("ueq", BoolS)
        if isinstance(a, VObj) and isinstance(b, VObj):
            m = self.R.models.get(a.cls)
            if m is not None and hasattr(m, "eq"):
                return m.eq(self, st, a, b)
            return z3.BoolVal(a.ref == b.ref)
        if isinstance(a, VClass) and isinstance(b, VClass):
            if a.qname is not None and b.qname is not None:
                return z3.BoolVal(CL.canon(a.qname) == CL.canon(b.qname))
            return a.term == b.term
        if isinstance(a, V) and isinstance(b, V) and type(a) is not type(b):
            simple = (VInt, VBool, VReal, VStr, VBytes, VTuple, VList, VObj, VClass, VFunc, VModule)
            if isinstance(a, simple) and isinstance(b, simple):
                return z3.BoolVal(False)
        raise Unsupported("== on %r, %r" % (a, b))

    def identical(self, a, b, st):
        if isinstance(a, VNone) or isinstance(b, VNone):
            return self.eq(a, b, st)
        if isinstance(a, VObj) and isinstance(b, VObj):
            return z3.BoolVal(a.ref == b.ref)
        if isinstance(a, VOpaque) and isinstance(b, VOpaque):
            return a.e == b.e
        if isinstance(a, VBool) and isinstance(b, VBool):
            return a.e == b.e
        if isinstance(a, (VObj, VOpaque)) and isinstance(b, (VObj, VOpaque)):
            h = self.R.specs.get("U.is")
            if h:
                return h(self, st, a, b)
            # a modelled heap object compared with an opaque value: the opaque value may BE that object (it is stored into opaque containers / attributes as
            # the constant obj#<ref>, see specs.opaque.box) - identity is equality with that constant, not False
            o, p = (a, b) if isinstance(a, VObj) else (b, a)
            return p.e == z3.Const("obj#%d" % o.ref, U)
        if isinstance(a, VClass) and isinstance(b, VClass):
            return self.eq(a, b, st)
        if isinstance(a, VFunc) and isinstance(b, VFunc):
            return z3.BoolVal(a.qname == b.qname)       # builtin type / function objects are singletons
        if isinstance(a, VOpt) or isinstance(b, VOpt):
            raise Unsupported("`is` on optional value")
        for o, p in ((a, b), (b, a)):
            if isinstance(p, VOpaque) and isinstance(o, (VFunc, VClass)) and getattr(o, "qname", None):
                return p.e == z3.Const("%s#ref" % o.qname, U)      # an opaque value may BE that builtin function / class object (e.g. `object_type is type`)
        if type(a) is not type(b):
            return z3.BoolVal(False)
        raise Unsupported("`is` on %r, %r" % (a, b))

    def contains(self, item, cont, st):
        """z3 Bool for `item in cont`"""
        if isinstance(cont, VOpt):
            # `x in None` is a TypeError in Python; the code under contract only does this behind its own truthiness tests
            return z3.And(z3.Not(cont.isnone), self.contains(item, cont.val, st))
        if isinstance(item, VOpt) and isinstance(cont, (VStr, VBytes)):
            return z3.And(z3.Not(item.isnone), self.contains(item.val, cont, st))
        if isinstance(cont, (VTuple, VList)):
            if not cont.items:
                return z3.BoolVal(False)
            return z3.Or([self.eq(item, x, st) for x in cont.items])
        if isinstance(cont, VStr) and isinstance(item, VStr):
            return z3.Contains(cont.e, item.e)
        if isinstance(cont, VBytes) and isinstance(item, VBytes):
            return z3.Contains(cont.e, item.e)
        if isinstance(cont, VSet):
            if isinstance(item, VNone) or not isinstance(item, (VInt, VStr, VBytes, VBool, VOpaque)) or z(item).sort() != cont.esort:
                return z3.BoolVal(False)        # a value of another type is not a member
            return z3.Select(cont.e, z(item))
        if isinstance(cont, VObj):
            m = self.R.models.get(cont.cls)
            if m is not None and hasattr(m, "contains"):
                return m.contains(self, st, cont, item)
        if isinstance(cont, VSeq):
            return z3.Contains(cont.e, z3.Unit(z(item)))
        if hasattr(cont, "contains_term"):
            return cont.contains_term(item)
        if isinstance(cont, VOpaque):
            from specs.opaque import box as _box
            return z3.Function("u_contains", U, U, BoolS)(cont.e, _box(item))
        raise Unsupported("`in` on %r" % (cont,))

    def compare(self, op, a, b, st, node):
        if isinstance(op, ast.Eq):
            return self.eq(a, b, st)
        if isinstance(op, ast.NotEq):
            return z3.Not(self.eq(a, b, st))
        if isinstance(op, ast.Is):
            return self.identical(a, b, st)
        if isinstance(op, ast.IsNot):
            return z3.Not(self.identical(a, b, st))
        if isinstance(op, ast.In):
            return self.contains(a, b, st)
        if isinstance(op, ast.NotIn):
            return z3.Not(self.contains(a, b, st))
        if isinstance(a, (VInt, VReal, VBool)) and isinstance(b, (VInt, VReal, VBool)):
            def num(v):
                if isinstance(v, VBool):
                    return z3.If(v.e, 1, 0)
                return v.e
            ae, be = num(a), num(b)
            if isinstance(a, VReal) != isinstance(b, VReal):
                ae = ae if isinstance(a, VReal) else z3.ToReal(ae)
                be = be if isinstance(b, VReal) else z3.ToReal(be)
            if isinstance(op, ast.Lt):
                return ae < be
            if isinstance(op, ast.LtE):
                return ae <= be
            if isinstance(op, ast.Gt):
                return ae > be
            if isinstance(op, ast.GtE):
                return ae >= be
        raise Unsupported("comparison %s on %r, %r at line %d" % (type(op).__name__, a, b, node.lineno))

    def ev_Compare(self, node, st, module):
        # chained comparisons evaluate operands once, left to right, short-circuiting
        def go(i, s, left, acc):
            out = []
            for r in self.ev(node.comparators[i], s, module):
                if r.exc is not None:
                    out.append(r)
                    continue
                c = self.compare(node.ops[i], left, r.val, r.st, node)
                acc2 = c if acc is None else z3.And(acc, c)
                if i == len(node.ops) - 1:
                    out.append(Res(r.st, VBool(acc2)))
                else:
                    out.extend(go(i + 1, r.st, r.val, acc2))
            return out
        out = []
        for r in self.ev(node.left, st, module):
            if r.exc is not None:
                out.append(r)
            else:
                out.extend(go(0, r.st, r.val, None))
        return out

    # --- subscripts -------------------------------------------------------------------------------------------------
    def ev_Subscript(self, node, st, module):
        out = []
        for r in self.ev(node.value, st, module):
            if r.exc is not None:
                out.append(r)
                continue
            if isinstance(r.val, VOpt):
                for s_u, v_u, x_u in self.unopt(r.st, r.val):
                    if x_u is not None:
                        out.append(Res(s_u, exc=x_u))
                    else:
                        out.extend(self._subscript(node, s_u, v_u, module))
                continue
            out.extend(self._subscript(node, r.st, r.val, module))
        return out

    def _subscript(self, node, st0, base, module):
        out = []
        for r in [Res(st0, base)]:
            if isinstance(node.slice, ast.Slice):
                parts = [node.slice.lower, node.slice.upper]
                if node.slice.step is not None:
                    raise Unsupported("slice step")
                oks = [(r.st, [])]
                for p in parts:
                    nxt = []
                    for s, vals in oks:
                        if p is None:
                            nxt.append((s, vals + [None]))
                        else:
                            for r2 in self.ev(p, s, module):
                                if r2.exc is not None:
                                    out.append(r2)
                                else:
                                    nxt.append((r2.st, vals + [r2.val]))
                    oks = nxt
                for s, (lo, hi) in oks:
                    out.extend(self.slice(s, base, lo, hi, node))
            else:
                for r2 in self.ev(node.slice, r.st, module):
                    if r2.exc is not None:
                        out.append(r2)
                    else:
                        out.extend(self.index(r2.st, base, r2.val, node))
        return out

    def slice(self, st, base, lo, hi, node):
        def ie(v):
            if v is None or isinstance(v, VNone):
                return None
            if isinstance(v, VInt):
                return v.e
            raise Unsupported("slice bound %r" % (v,))
        if isinstance(base, VBytes) and base.units is not None:
            cl = None if lo is None or isinstance(lo, VNone) else self._const_int(lo)
            ch = None if hi is None or isinstance(hi, VNone) else self._const_int(hi)
            if (lo is None or isinstance(lo, VNone) or cl is not None) and (hi is None or isinstance(hi, VNone) or ch is not None):
                return [Res(st, VBytes.from_units(base.units[cl:ch], base.kind))]
        if isinstance(base, (VBytes, VStr)):
            l, h = ie(lo), ie(hi)
            if (l is None or self.nonneg(st, l)) and (h is None or self.nonneg(st, h)):
                # for non-negative bounds s[l:h] is exactly extract(s, l, h-l): SMT-LIB's extract clamps like Python
                t = simple_slice(base.e, l, h)
            else:
                t = seq_slice(base.e, l, h)
            return [Res(st, VBytes(t, base.kind) if isinstance(base, VBytes) else VStr(t))]
        if isinstance(base, (VTuple, VList)):
            l, h = (None if lo is None else self._const_int(lo)), (None if hi is None else self._const_int(hi))
            if (lo is None or l is not None) and (hi is None or h is not None):
                return [Res(st, type(base)(base.items[l:h]))]
        if isinstance(base, VSeq):
            return [Res(st, VSeq(seq_slice(base.e, ie(lo), ie(hi)), base.wrap))]
        raise Unsupported("slice of %r at line %d" % (base, node.lineno))

    def unopt(self, st, v, what="operand"):
        """an optional value used where a definite one is needed: the None case is a TypeError path, otherwise the value"""
        if not isinstance(v, VOpt):
            return [(st, v, None)]
        out = []
        for s2, isnone in self.branch(st, v.isnone):
            if isnone:
                out.append((s2, None, self.new_exc(s2, "builtins.TypeError")))
            else:
                out.append((s2, v.val, None))
        return out

    def nonneg(self, st, e):
        e2 = z3.simplify(e)
        if z3.is_int_value(e2):
            return e2.as_long() >= 0
        return not self.feasible(st, e < 0)

    def index(self, st, base, idx, node):
        if isinstance(base, (VTuple, VList)):
            c = self._const_int(idx)
            if c is not None:
                if -len(base.items) <= c < len(base.items):
                    return [Res(st, base.items[c])]
                return [self.raise_(st, "builtins.IndexError")]
            raise Unsupported("symbolic index into tuple")
        if isinstance(base, VBytes) and base.units is not None and self._const_int(idx) is not None:
            c = self._const_int(idx)
            if -len(base.units) <= c < len(base.units):
                return [Res(st, VInt(base.units[c]))]
            return [self.raise_(st, "builtins.IndexError")]
        if isinstance(base, (VBytes, VStr)) and isinstance(idx, VInt):
            ln = z3.Length(base.e)
            out = []
            for s2, ok in self.branch(st, z3.And(idx.e >= -ln, idx.e < ln)):
                if not ok:
                    out.append(self.raise_(s2, "builtins.IndexError"))
                else:
                    i2 = z3.If(idx.e < 0, idx.e + ln, idx.e)
                    if isinstance(base, VBytes):
                        out.append(Res(s2, VInt(base.e[i2])))
                    else:
                        out.append(Res(s2, VStr(z3.SubString(base.e, i2, 1))))
            return out
        if isinstance(base, VSeq) and isinstance(idx, VInt):
            ln = z3.Length(base.e)
            out = []
            for s2, ok in self.branch(st, z3.And(idx.e >= -ln, idx.e < ln)):
                if not ok:
                    out.append(self.raise_(s2, "builtins.IndexError"))
                else:
                    out.append(Res(s2, base.wrap(base.e[z3.If(idx.e < 0, idx.e + ln, idx.e)])))
            return out
        if isinstance(base, VObj):
            return self.call_method(st, base, "__getitem__", [idx], {}, node)
        if isinstance(base, VOpaque):
            h = self.R.specs.get("U.getitem")
            if h:
                return h(self, st, [base, idx], {})
        if isinstance(base, (VBytes, VStr)) and isinstance(idx, (VStr, VBytes, VNone, VTuple, VList)):
            return [self.raise_(st, "builtins.TypeError")]      # str / bytes indices must be integers or slices
        raise Unsupported("subscript of %r at line %d" % (base, node.lineno))

    # --- calls ------------------------------------------------------------------------------------------------------
    def ev_Call(self, node, st, module):
        out = []
        if any(isinstance(a, ast.Starred) for a in node.args) or any(k.arg is None for k in node.keywords):
            h = self.R.specs.get("syntax.starcall")
            if h is None:
                raise Unsupported("star-args call at line %d" % node.lineno)
        # logging and friends are dropped (DESIGN 2.2)
        if self.is_dropped_call(node, st, module):
            # the logging call itself is dropped, but its arguments are evaluated (they may raise or have effects)
            self.in_dropped_call = getattr(self, "in_dropped_call", 0) + 1
            try:
                oks, excs = self.ev_list(list(node.args) + [k.value for k in node.keywords], st, module)
            finally:
                self.in_dropped_call -= 1
            return [Res(s_, NONE) for s_, _vals in oks] + excs
        if isinstance(node.func, ast.Attribute) and node.func.attr in self.MUTATORS and not node.keywords:
            r = self.try_mutator(node, st, module)
            if r is not None:
                return r
        for r in self.ev(node.func, st, module):
            if r.exc is not None:
                out.append(r)
                continue
            f = r.val
            plain = [a for a in node.args if not isinstance(a, ast.Starred)]
            if len(plain) != len(node.args) or any(k.arg is None for k in node.keywords):
                star = [a.value for a in node.args if isinstance(a, ast.Starred)]
                dstar = [k.value for k in node.keywords if k.arg is None]
                oks, excs = self.ev_list(plain + star + dstar + [k.value for k in node.keywords if k.arg], r.st, module)
                out.extend(excs)
                for s, vals in oks:
                    np_, ns, nd = len(plain), len(star), len(dstar)
                    kw = {k.arg: v for k, v in zip([k for k in node.keywords if k.arg], vals[np_ + ns + nd:])}
                    out.extend(self.R.specs["syntax.starcall"](self, s, [f, vals[:np_], vals[np_:np_ + ns], vals[np_ + ns:np_ + ns + nd], kw], {"node": node}))
                continue
            oks, excs = self.ev_list(list(node.args) + [k.value for k in node.keywords], r.st, module)
            out.extend(excs)
            for s, vals in oks:
                args = vals[:len(node.args)]
                kwargs = {k.arg: v for k, v in zip(node.keywords, vals[len(node.args):])}
                out.extend(self.call(s, f, args, kwargs, node))
        return out

    MUTATORS = ("extend", "append", "add", "remove", "discard", "pop", "clear", "update", "insert")

    def try_mutator(self, node, st, module):
        """in-place mutation of a value-typed container located at an lvalue: compute the new value and store it
        back (value semantics; assumes the container is not aliased, DESIGN 2.3)"""
        target = node.func.value
        if not isinstance(target, (ast.Name, ast.Attribute)):
            return None
        rs = self.ev(target, st, module)
        if len(rs) != 1 or rs[0].exc is not None:
            return None
        recv = rs[0].val
        if not isinstance(recv, (VBytes, VList, VJoinList, VSet, VSeq)) and \
                (type(recv).__name__, "mut:" + node.func.attr) not in self.R.methods:
            return None
        h = self.R.methods.get((type(recv).__name__, "mut:" + node.func.attr))
        if h is None:
            raise Unsupported("mutator %s on %s" % (node.func.attr, type(recv).__name__))
        oks, excs = self.ev_list(list(node.args), rs[0].st, module)
        out = list(excs)
        for s, vals in oks:
            for (s2, newv, result, exc) in h(self, s, recv, vals):
                if exc is not None:
                    out.append(Res(s2, exc=exc))
                    continue
                store = copy.copy(target)
                store.ctx = ast.Store()
                saved = self.cur_module
                self.cur_module = module
                try:
                    for o in self.assign(store, newv, s2):
                        if o.kind == "next":
                            out.append(Res(o.st, result))
                        else:
                            out.append(Res(o.st, exc=o.val))
                finally:
                    self.cur_module = saved
        return out

    DROPPED_RECEIVERS = ("log", "logger", "logging", "warnings")

    def is_dropped_call(self, node, st, module):
        f = node.func
        if isinstance(f, ast.Attribute) and isinstance(f.value, ast.Name):
            if f.value.id in ("log", "logger") and f.value.id not in st.env and f.attr in (
                    "debug", "info", "warning", "error", "exception", "critical", "isEnabledFor"):
                return True
            if f.value.id == "warnings" and f.attr == "warn":
                return True
            if f.value.id == "protocol" and f.attr == "log_wiredata":
                return True
        if isinstance(f, ast.Name) and f.id in ("print", "log_wiredata") and f.id not in st.env:
            return True
        return False

    def call(self, st, f, args, kwargs, node=None):
        if isinstance(f, VFunc):
            return self.call_qname(st, f.qname, args, kwargs, node)
        if isinstance(f, VClass):
            return self.construct(st, f, args, kwargs, node)
        if isinstance(f, VBound):
            return self.call_method(st, f.recv, f.name, args, kwargs, node)
        if isinstance(f, VClosure):
            return self.inline(st, f.node, f.module, args, kwargs, closure_env=f.env)
        if isinstance(f, (VOpaque, VObj)):
            h = self.R.specs.get("U.call")
            if h:
                return h(self, st, [f] + list(args), kwargs)
        raise Unsupported("call of %r at line %s" % (f, getattr(node, "lineno", "?")))

    def call_qname(self, st, q, args, kwargs, node=None):
        if q in self.R.contracts:
            c = self.R.contracts[q]
            if c.inline or getattr(c, "inline_at_calls", False):
                modq, fq = self.split_func(q)
                mod = Module.load(modq)
                return self.inline(st, mod.funcs[fq], mod, args, kwargs)
            return self.apply_contract(st, c, args, kwargs, node)
        if q in self.R.specs:
            return self.R.specs[q](self, st, args, kwargs)
        r = self.auto_inline(st, q, args, kwargs)
        if r is not None:
            return r
        raise Unsupported("call of %s without contract" % q)

    def local(self, st, name):
        """the local variable a sidecar invariant calls `name`: by that name, or - after a rename in the repository - the variable that is now
        first assigned at the same position in the function's source (positions recorded in the contract's `local_positions`)"""
        if name in st.env:
            return st.env[name]
        pos = getattr(self.cur_contract, "local_positions", {}).get(name)
        fnode = getattr(self, "cur_fnode", None)
        if pos is not None and fnode is not None:
            params = {a.arg for a in fnode.args.posonlyargs + fnode.args.args + fnode.args.kwonlyargs}
            names = []
            for n in sorted([x for x in ast.walk(fnode) if isinstance(x, ast.Name)], key=lambda x: (x.lineno, x.col_offset)):
                if isinstance(n.ctx, ast.Store) and n.id not in params and n.id not in names:
                    names.append(n.id)
            if pos < len(names) and names[pos] in st.env:
                return st.env[names[pos]]
        raise Unsupported("the sidecar contract refers to local variable %r, which the function no longer has" % name)

    def is_property(self, q):
        """q names a function of the repository decorated with @property"""
        try:
            modq, fq = self.split_func(q)
            fn = Module.load(modq).funcs.get(fq)
        except Unsupported:
            return False
        return fn is not None and any(isinstance(d, ast.Name) and d.id == "property" for d in fn.decorator_list)

    def inherited_method(self, cls_q, name):
        """qualified name of the plain (undecorated, uncontracted) function `name` found on a base class of cls_q in the same module, or None"""
        if "." not in cls_q:
            return None
        modq, cname = cls_q.rsplit(".", 1)
        if not is_repo_module(modq):
            return None
        try:
            mod = Module.load(modq)
        except Unsupported:
            return None
        seen = set()
        todo = [cname]
        while todo:
            c = todo.pop(0)
            if c in seen or c not in mod.classes:
                continue
            seen.add(c)
            q = "%s.%s.%s" % (modq, c, name)
            if c != cname and q not in self.R.contracts and q not in self.R.specs and self.repo_function(q) is not None:
                return q
            for b in mod.classes[c].bases:
                if isinstance(b, ast.Name):
                    todo.append(b.id)
        return None

    def repo_function(self, q):
        """(module, FunctionDef) of a plain repo function / method named q, or None"""
        try:
            modq, fq = self.split_func(q)
            mod = Module.load(modq)
        except Unsupported:
            return None
        fn = mod.funcs.get(fq)
        if fn is None or fn.decorator_list:
            return None
        return mod, fn

    def static_function(self, q):
        """(module, FunctionDef) of a repo function decorated with exactly @staticmethod (reached through its class: no receiver is bound), or None"""
        try:
            modq, fq = self.split_func(q)
            mod = Module.load(modq)
        except Unsupported:
            return None
        fn = mod.funcs.get(fq)
        if fn is None or len(fn.decorator_list) != 1 or not (isinstance(fn.decorator_list[0], ast.Name) and fn.decorator_list[0].id == "staticmethod"):
            return None
        return mod, fn

    def auto_inline(self, st, q, args, kwargs):
        """a small helper of the repository that has neither contract nor spec (e.g. one a refactoring extracted) is executed in place: it is
        verified as part of its caller, nothing is assumed about it.  Bounded depth, no recursion."""
        stack = getattr(self, "_inline_stack", [])
        if q in stack or len(stack) >= 3:
            return None
        found = self.repo_function(q) or self.static_function(q)
        if found is None:
            return None
        mod, fn = found
        self._inline_stack = stack + [q]
        self.stats.setdefault("auto_inlined", 0)
        self.stats["auto_inlined"] += 1
        self.auto_inlined = getattr(self, "auto_inlined", set()) | {q}
        saved_class = getattr(self, "cur_class", None)
        fq = self.split_func(q)[1]
        self.cur_class = fq.rsplit(".", 1)[0] if "." in fq else None
        try:
            return self.inline(st, fn, mod, args, kwargs)
        finally:
            self._inline_stack = stack
            self.cur_class = saved_class

    def split_func(self, q):
        parts = q.split(".")
        for i in range(len(parts) - 1, 0, -1):
            modq = ".".join(parts[:i])
            if is_repo_module(modq):
                return modq, ".".join(parts[i:])
        raise Unsupported("cannot locate %s" % q)

    def construct(self, st, c, args, kwargs, node):
        q = c.qname
        if q is not None and CL.known(q) and CL.is_subclass(q, "builtins.BaseException"):
            h = self.R.specs.get("construct:" + q)
            if h:
                return h(self, st, args, kwargs)
            return [Res(st, self.new_exc(st, q, args))]
        if c.qname is None and c.term is not None:
            h = self.R.specs.get("Cls.construct")
            if h:
                return h(self, st, [c] + list(args), kwargs)
        if q in self.R.specs:
            return self.R.specs[q](self, st, args, kwargs)
        init = (q or "?") + ".__init__"
        if init in self.R.contracts:
            con = self.R.contracts[init]
            obj = st.new_obj(q)
            m = self.R.models.get(q)
            if m is not None and hasattr(m, "alloc"):
                m.alloc(self, st, obj)
            rs = self.apply_contract(st, con, [obj] + list(args), kwargs, node)
            return [Res(r.st, obj) if r.exc is None else r for r in rs]
        if q in self.R.models and hasattr(self.R.models[q], "construct"):
            return self.R.models[q].construct(self, st, args, kwargs)
        raise Unsupported("construction of %s" % q)

    def call_method(self, st, recv, name, args, kwargs, node=None):
        if isinstance(recv, VObj):
            q = recv.cls + "." + name
            if q in self.R.contracts:
                c = self.R.contracts[q]
                if c.inline or getattr(c, "inline_at_calls", False):
                    modq, fq = self.split_func(q)
                    mod = Module.load(modq)
                    return self.inline(st, mod.funcs[fq], mod, [recv] + list(args), kwargs)
                return self.apply_contract(st, c, [recv] + list(args), kwargs, node)
            if q in self.R.specs:
                return self.R.specs[q](self, st, [recv] + list(args), kwargs)
            m = self.R.models.get(recv.cls)
            if m is not None and name in getattr(m, "methods", {}):
                return m.methods[name](m, self, st, recv, args, kwargs)
            r = self.auto_inline(st, q, [recv] + list(args), kwargs)
            if r is not None:
                return r
            iq = self.inherited_method(recv.cls, name)
            if iq is not None:
                r = self.auto_inline(st, iq, [recv] + list(args), kwargs)
                if r is not None:
                    return r
            raise Unsupported("method %s without contract" % q)
        tname = type(recv).__name__
        # an optional argument reaching a method of a typed value is used as that value (the None case is a TypeError path
        # guarded by the code's own truthiness tests)
        args = [x.val if isinstance(x, VOpt) else x for x in args]
        h = self.R.methods.get((tname, name))
        if h is not None:
            return h(self, st, recv, args, kwargs)
        raise Unsupported("method %s of %s" % (name, tname))

    # --- modular call -------------------------------------------------------------------------------------------------
    def bind_params(self, fnode, args, kwargs, st, module, skip_self=False):
        """python-style parameter binding; returns dict (defaults evaluated in `module`)"""
        a = fnode.args
        names = [x.arg for x in a.posonlyargs + a.args]
        bound = {}
        args = list(args)
        if len(args) > len(names) and not a.vararg:
            raise Unsupported("too many positional arguments")
        for n, v in zip(names, args):
            bound[n] = v
        if a.vararg:
            bound[a.vararg.arg] = VTuple(args[len(names):])
        extra = {}
        for k, v in kwargs.items():
            if k.startswith("**"):
                continue
            if k in names or k in [x.arg for x in a.kwonlyargs]:
                bound[k] = v
            elif a.kwarg:
                extra[k] = v
            else:
                raise Unsupported("unexpected keyword %s" % k)
        if a.kwarg:
            if extra:
                raise Unsupported("**kwargs parameter with explicit keywords")
            bound[a.kwarg.arg] = kwargs.get("**" + a.kwarg.arg) or VOpaque(fresh("kwargs", U))
        defaults = a.defaults
        for n, d in zip(names[len(names) - len(defaults):], defaults):
            if n not in bound:
                rs = self.ev(d, State(), module)
                bound[n] = rs[0].val
        for x, d in zip(a.kwonlyargs, a.kw_defaults):
            if x.arg not in bound and d is not None:
                bound[x.arg] = self.ev(d, State(), module)[0].val
        for n in names:
            if n not in bound:
                raise Unsupported("missing argument %s" % n)
        return bound

    def contract_fnode(self, c):
        modq, fq = self.split_func(getattr(c, "real_name", None) or c.name)
        mod = Module.load(modq)
        if fq not in mod.funcs:
            raise Unsupported("function %s not found in %s" % (fq, modq))
        return mod, mod.funcs[fq]

    def apply_contract(self, st, c, args, kwargs, node=None):
        """call site of a function under contract: assert pre, havoc frame, assume (exceptional) post"""
        prev = getattr(self, "at_call_site", False)
        self.at_call_site = True        # lets a contract tell a (self-recursive) call site from the verification of its own body
        try:
            return self._apply_contract(st, c, args, kwargs, node)
        except (AttributeError, KeyError, TypeError, IndexError) as e:
            # a sidecar hook written for the verification of the callee's own body met a call site it was not written for (e.g. after a refactoring that makes one
            # function under contract call another): the caller leaves the verified subset - decided by the native harness, never a checker crash
            raise Unsupported("contract of %s cannot be applied at this call site (%s: %s)" % (c.name, type(e).__name__, e))
        finally:
            self.at_call_site = prev

    def _apply_contract(self, st, c, args, kwargs, node=None):
        mod, fnode = self.contract_fnode(c)
        if any(isinstance(d, ast.Name) and d.id == "classmethod" for d in fnode.decorator_list):
            owner = (getattr(c, "real_name", None) or c.name).rsplit(".", 1)[0]
            nparams = len(fnode.args.posonlyargs + fnode.args.args)
            if args and isinstance(args[0], VObj) and len(args) + len(kwargs) == nparams:
                args = [VClass(args[0].cls, None)] + list(args[1:])      # instance.method(...): cls is the instance's class
            else:
                args = [VClass(owner, None)] + list(args)       # Class.method(...): cls is the class it was reached through
        a = self.bind_params(fnode, args, kwargs, st, mod)
        site = "%s@L%s" % (c.name.split(".")[-1], getattr(node, "lineno", "?"))
        caller = getattr(self, "cur_contract", None)
        if caller is not None and hasattr(caller, "on_contract_call"):
            caller.on_contract_call(self, st, c, a)
        for label, cond in c.requires(self, st, a):
            self.oblige(st, "pre@%s[%s]" % (site, label), cond, kind="pre")
        out = []
        old = st
        # normal exit
        s1 = st.fork()
        self.havoc(s1, c.modifies(self, s1, a))
        if hasattr(c, "prepare_call"):
            c.prepare_call(self, s1, a, None)      # e.g. give a freshly constructed object its (fresh) fields
        res = c.result(self, s1, a)
        posts = [cond if not isinstance(cond, bool) else z3.BoolVal(cond) for label, cond in c.ensures(self, old, s1, a, res)]
        ok1 = self.feasible(s1, z3.And(posts), timeout=OUTCOME_FEAS_TIMEOUT_MS) if posts else True
        for cond in posts:
            s1.assume(cond)
        if hasattr(c, "refine_result"):
            res = c.refine_result(self, old, s1, a, res)
        if getattr(c, "can_return", True) and ok1:
            if getattr(c, "log_calls", True):
                s1.event("call", c.name, a, "return", res)
            out.append(Res(s1, res))
            self.callsite_normal.setdefault(c.name, [0, 0])[0] += 1
        elif getattr(c, "can_return", True):
            # the callee's normal outcome contradicts the caller's path here (its postcondition is infeasible): counted, so that a callee
            # whose normal return is dropped at EVERY call site (a modelling gap would look like that) shows up in the evidence
            self.callsite_normal.setdefault(c.name, [0, 0])[1] += 1
        for q, meth in c.raises.items():
            s2 = st.fork()
            self.havoc(s2, c.modifies(self, s2, a))
            if hasattr(c, "prepare_call"):
                c.prepare_call(self, s2, a, q)
            s2.trace.append("%s raises %s" % (site, q.split(".")[-1]))
            if q in getattr(c, "raises_any_subclass", ()):
                exc = self.new_sym_exc(s2, q, "exc_from_" + c.name.split(".")[-1])   # any class below q
            else:
                exc = self.new_exc(s2, q)
            c.exc_fields(self, s2, a, q, exc)
            xposts = [cond if not isinstance(cond, bool) else z3.BoolVal(cond) for label, cond in getattr(c, meth)(self, old, s2, a, exc)]
            ok2 = self.feasible(s2, z3.And(xposts), timeout=OUTCOME_FEAS_TIMEOUT_MS) if xposts else True
            for cond in xposts:
                s2.assume(cond)
            if ok2:
                if getattr(c, "log_calls", True):
                    s2.event("call", c.name, a, "raise", exc)
                out.append(Res(s2, exc=exc))
        return out

    def havoc(self, st, frame):
        for item in frame:
            if item[0] == "ghost":
                st.ghost[item[1]] = self.fresh_like(st.ghost[item[1]], item[1])
            else:
                obj, field = item
                st.set(obj, field, self.fresh_like(st.get(obj, field), field))

    def fresh_like(self, v, name):
        if isinstance(v, VInt):
            return VInt(fresh(name, IntS))
        if isinstance(v, VBool):
            return VBool(fresh(name, BoolS))
        if isinstance(v, VReal):
            return VReal(fresh(name, RealS))
        if isinstance(v, VStr):
            return VStr(fresh(name, StrS))
        if isinstance(v, VBytes):
            return VBytes(fresh(name, BytesS), v.kind)
        if isinstance(v, VOpaque):
            return VOpaque(fresh(name, U))
        if isinstance(v, VTuple):
            return VTuple([self.fresh_like(x, name) for x in v.items])
        if isinstance(v, VJoinList):
            return VJoinList(fresh(name + "_joined", BytesS), fresh(name + "_count", IntS))
        if isinstance(v, VOpt):
            return VOpt(fresh(name + "_isnone", BoolS), self.fresh_like(v.val, name))
        if isinstance(v, VSeq):
            return VSeq(fresh(name, v.e.sort()), v.wrap)
        if isinstance(v, VSet):
            return VSet(fresh(name, v.e.sort()), fresh(name + "_card", IntS), v.esort)
        if isinstance(v, (VObj, VNone, VModule, VFunc, VClass, VBound, VClosure)):
            return v
        if hasattr(v, "fresh_like"):
            return v.fresh_like(name)
        if isinstance(v, z3.ExprRef):
            return fresh(name, v.sort())
        if hasattr(v, "e") and isinstance(getattr(v, "e"), z3.ExprRef):
            return type(v)(fresh(name, v.e.sort()))       # ghost wrappers around a z3 term
        raise Unsupported("cannot havoc %r" % (v,))

    # --- inlining -----------------------------------------------------------------------------------------------------
    def inline(self, st, fnode, module, args, kwargs, closure_env=None):
        saved_env = st.env
        bound = self.bind_params(fnode, args, kwargs, st, module)
        env = dict(closure_env or {})
        env.update(bound)
        st.env = env
        body = fnode.body if not isinstance(fnode, ast.Lambda) else [ast.Return(value=fnode.body)]
        saved_module = self.cur_module
        self.cur_module = module
        try:
            outs = self.exec_block(body, st)
        finally:
            self.cur_module = saved_module
        res = []
        for o in outs:
            o.st.env = dict(saved_env) if o.st is not st else saved_env
            if o.kind == "raise":
                res.append(Res(o.st, exc=o.val))
            elif o.kind == "return":
                res.append(Res(o.st, o.val))
            else:
                res.append(Res(o.st, NONE))
        # note: states forked inside share nothing with saved_env (copied per fork)
        for r in res:
            r.st.env = dict(saved_env)
        return res

    def ev_Lambda(self, node, st, module):
        return [Res(st, VClosure(node, dict(st.env), module))]

    def ev_JoinedStr(self, node, st, module):
        return [Res(st, VStr(fresh("fstr", StrS)))]

    def ev_ListComp(self, node, st, module):
        h = self.R.specs.get("syntax.listcomp")
        if h is None:
            raise Unsupported("list comprehension at line %d" % node.lineno)
        return h(self, st, [node, module], {})

    ev_GeneratorExp = ev_ListComp
    ev_SetComp = ev_ListComp
    ev_DictComp = ev_ListComp

    # ------------------------------------------------------------------------------------------------ statements
    def exec_block(self, stmts, st):
        self._steps = getattr(self, "_steps", 0) + 1
        if self._steps > MAX_STEPS:
            raise Unsupported("step budget exceeded (%d blocks executed): path explosion" % MAX_STEPS)
        outs = [Out("next", st)]
        for s in stmts:
            new = []
            for o in outs:
                if o.kind == "next":
                    new.extend(self.exec_stmt(s, o.st))
                else:
                    new.append(o)
            outs = new
        return outs

    def exec_stmt(self, node, st):
        m = getattr(self, "st_" + type(node).__name__, None)
        if m is None:
            raise Unsupported("statement %s at line %d" % (type(node).__name__, node.lineno))
        if isinstance(node, (ast.Assign, ast.AugAssign, ast.Expr, ast.AnnAssign)) and JOIN:
            pre = st.fork()
            outs = m(node, st)
            return self.join_outcomes(pre, outs) if len(outs) > 1 else outs
        return m(node, st)

    def lift(self, results, k):
        """apply continuation k(st, val) -> [Out] to normal results; raised ones become raise outcomes"""
        outs = []
        for r in results:
            if r.exc is not None:
                outs.append(Out("raise", r.st, r.exc))
            else:
                outs.extend(k(r.st, r.val))
        return outs

    def st_Expr(self, node, st):
        if isinstance(node.value, ast.Constant):
            return [Out("next", st)]       # docstring
        return self.lift(self.ev(node.value, st), lambda s, v: [Out("next", s)])

    def st_Pass(self, node, st):
        return [Out("next", st)]

    def st_Global(self, node, st):
        return [Out("next", st)]

    def st_Import(self, node, st):
        for a in node.names:
            st.env[a.asname or a.name.split(".")[0]] = VModule(a.name if a.asname else a.name.split(".")[0])
        return [Out("next", st)]

    def st_ImportFrom(self, node, st):
        mod = self.cur_module
        pkg = mod.qname.rsplit(".", 1)[0] if "." in mod.qname else ""
        if node.level:
            parts = pkg.split(".")
            base = ".".join(parts[:len(parts) - node.level + 1])
            modq = base + ("." + node.module if node.module else "")
        else:
            modq = node.module
        for a in node.names:
            st.env[a.asname or a.name] = self.qualified(modq + "." + a.name)
        return [Out("next", st)]

    def st_Delete(self, node, st):
        outs = [Out("next", st)]
        for t in node.targets:
            if isinstance(t, ast.Name):
                for o in outs:
                    o.st.env.pop(t.id, None)
            elif isinstance(t, ast.Subscript):
                new = []
                for o in outs:
                    oks, excs = self.ev_list([t.value, t.slice], o.st, self.cur_module)
                    new.extend(Out("raise", r.st, r.exc) for r in excs)
                    for s, (base, key) in oks:
                        rs = self.call_method(s, base, "__delitem__", [key], {}, node)
                        new.extend(self.lift(rs, lambda s2, v: [Out("next", s2)]))
                outs = new
            elif isinstance(t, ast.Attribute):
                new = []
                for o in outs:
                    for r in self.ev(t.value, o.st):
                        if r.exc is not None:
                            new.append(Out("raise", r.st, r.exc))
                        else:
                            rs = self.delattr(r.st, r.val, t.attr)
                            new.extend(self.lift(rs, lambda s2, v: [Out("next", s2)]))
                outs = new
            else:
                raise Unsupported("del target")
        return outs

    def delattr(self, st, obj, name):
        if isinstance(obj, VObj):
            m = self.R.models.get(obj.cls)
            if m is not None and hasattr(m, "delattr"):
                return m.delattr(self, st, obj, name)
            if st.has(obj, name):
                del st.heap[obj.ref][name]
                return [Res(st, NONE)]
            return [self.raise_(st, "builtins.AttributeError")]
        h = self.R.specs.get("U.delattr")
        if h:
            return h(self, st, [obj, VStr(name)], {})
        raise Unsupported("del attribute of %r" % (obj,))

    def st_Assert(self, node, st):
        outs = []
        for r in self.ev(node.test, st):
            if r.exc is not None:
                outs.append(Out("raise", r.st, r.exc))
                continue
            for s2, t in self.branch(r.st, self.truth(r.val, r.st)):
                if t:
                    outs.append(Out("next", s2))
                else:
                    outs.append(Out("raise", s2, self.new_exc(s2, "builtins.AssertionError")))
        return outs

    def st_Return(self, node, st):
        if node.value is None:
            return [Out("return", st, NONE)]
        return self.lift(self.ev(node.value, st), lambda s, v: [Out("return", s, v)])

    def st_Break(self, node, st):
        return [Out("break", st)]

    def st_Continue(self, node, st):
        return [Out("continue", st)]

    def st_Raise(self, node, st):
        if node.exc is None:
            if not st.handling:
                raise Unsupported("bare raise outside handler")
            return [Out("raise", st, st.handling[-1])]
        outs = []
        for r in self.ev(node.exc, st):
            if r.exc is not None:
                outs.append(Out("raise", r.st, r.exc))
                continue
            v = r.val
            if isinstance(v, VClass):
                rs = self.construct(r.st, v, [], {}, node)
                outs.extend(Out("raise", x.st, x.exc if x.exc is not None else x.val) for x in rs)
            elif isinstance(v, VObj) and v.cls == "exc":
                outs.append(Out("raise", r.st, v))
            else:
                h = self.R.specs.get("syntax.raise")
                if h is None:
                    raise Unsupported("raise of %r at line %d" % (v, node.lineno))
                outs.extend(Out("raise", x.st, x.exc) for x in h(self, r.st, [v], {}))
        return outs

    def assign(self, target, val, st):
        """returns list of Out (next or raise)"""
        if isinstance(target, ast.Name):
            if self.cur is not None and hasattr(self.cur, "local_abstraction"):
                val = self.cur.local_abstraction(self, st, target.id, val)
            st.env[target.id] = val
            return [Out("next", st)]
        if isinstance(target, (ast.Tuple, ast.List)):
            if isinstance(val, (VTuple, VList)):
                if len(val.items) != len(target.elts):
                    return [Out("raise", st, self.new_exc(st, "builtins.ValueError"))]
                outs = [Out("next", st)]
                for t, v in zip(target.elts, val.items):
                    new = []
                    for o in outs:
                        if o.kind == "next":
                            new.extend(self.assign(t, v, o.st))
                        else:
                            new.append(o)
                    outs = new
                return outs
            h = self.R.specs.get("syntax.unpack")
            if h:
                outs = []
                for r in h(self, st, [val, VInt(len(target.elts))], {}):
                    if r.exc is not None:
                        outs.append(Out("raise", r.st, r.exc))
                    else:
                        outs.extend(self.assign(target, r.val, r.st))
                return outs
            raise Unsupported("unpacking of %r" % (val,))
        if isinstance(target, ast.Attribute):
            outs = []
            for r in self.ev(target.value, st):
                if r.exc is not None:
                    outs.append(Out("raise", r.st, r.exc))
                    continue
                outs.extend(self.lift(self.setattr(r.st, r.val, self.mangle(target.attr), val), lambda s, v: [Out("next", s)]))
            return outs
        if isinstance(target, ast.Subscript):
            outs = []
            oks, excs = self.ev_list([target.value, target.slice], st, self.cur_module)
            outs.extend(Out("raise", r.st, r.exc) for r in excs)
            for s, (base, key) in oks:
                rs = self.call_method(s, base, "__setitem__", [key, val], {}, target)
                outs.extend(self.lift(rs, lambda s2, v: [Out("next", s2)]))
            return outs
        raise Unsupported("assignment target %s" % type(target).__name__)

    def setattr(self, st, obj, name, val):
        if isinstance(obj, VObj):
            m = self.R.models.get(obj.cls)
            if m is not None and hasattr(m, "setattr"):
                r = m.setattr(self, st, obj, name, val)
                if r is not None:
                    return r
            st.set(obj, name, val)
            return [Res(st, NONE)]
        if isinstance(obj, VOpaque):
            h = self.R.specs.get("U.setattr")
            if h:
                return h(self, st, [obj, VStr(name), val], {})
        if isinstance(obj, VModule):
            # assignment to a module global (e.g. a configuration item): remembered for the rest of the path, logged as a ghost event
            written = dict(st.ghost.get("module_globals_written") or {})
            written[obj.name + "." + name] = val
            st.ghost["module_globals_written"] = written
            st.event("module_global_store", obj.name + "." + name, val)
            return [Res(st, NONE)]
        raise Unsupported("attribute store on %r" % (obj,))

    def st_Assign(self, node, st):
        def k(s, v):
            outs = [Out("next", s)]
            for t in node.targets:
                new = []
                for o in outs:
                    if o.kind == "next":
                        new.extend(self.assign(t, v, o.st))
                    else:
                        new.append(o)
                outs = new
            return outs
        return self.lift(self.ev(node.value, st), k)

    def st_AnnAssign(self, node, st):
        if node.value is None:
            return [Out("next", st)]
        return self.lift(self.ev(node.value, st), lambda s, v: self.assign(node.target, v, s))

    def st_AugAssign(self, node, st):
        load = copy.copy(node.target)
        load.ctx = ast.Load()
        fake = ast.BinOp(left=load, op=node.op, right=node.value)
        ast.copy_location(fake, node)
        # in-place operators on the modelled types have value semantics (no aliasing of local bytearrays, DESIGN 2.3)
        return self.lift(self.ev(fake, st), lambda s, v: self.assign(node.target, v, s))

    def is_noop_block(self, stmts, st):
        for x in stmts:
            if isinstance(x, ast.Pass):
                continue
            if isinstance(x, ast.Expr) and isinstance(x.value, ast.Call) and self.is_dropped_call(x.value, st, self.cur_module):
                continue
            if isinstance(x, ast.Expr) and isinstance(x.value, ast.Constant):
                continue
            return False
        return True

    def st_If(self, node, st):
        if self.is_noop_block(node.body, st) and self.is_noop_block(node.orelse, st):
            # both branches only contain dropped (logging) calls: evaluate the test for its exceptions, do not fork
            return self.lift(self.ev(node.test, st), lambda s, v: [Out("next", s)])
        outs = []
        pre = st.fork()
        for r in self.ev(node.test, st):
            if r.exc is not None:
                outs.append(Out("raise", r.st, r.exc))
                continue
            for s2, t in self.branch(r.st, self.truth(r.val, r.st)):
                s2.trace.append("L%d:%s" % (node.lineno, "T" if t else "F"))
                self.narrow(node.test, t, s2)
                outs.extend(self.exec_block(node.body if t else node.orelse, s2))
        return self.join_outcomes(pre, outs)

    def narrow(self, test, truthy, st):
        """`if x:` / `if not x:` on a local optional value: on the truthy side x is not None"""
        neg = False
        while isinstance(test, ast.UnaryOp) and isinstance(test.op, ast.Not):
            test, neg = test.operand, not neg
        if isinstance(test, ast.Name) and (truthy != neg):
            v = st.env.get(test.id)
            if isinstance(v, VOpt):
                st.env[test.id] = v.val

    # --- exact disjunctive join of the normal outcomes of an if / try statement ---------------------------------------
    def _z3val(self, v):
        """(z3 term, rebuild) for values that can be merged under a disjunction; None if not mergeable"""
        if isinstance(v, VInt):
            return v.e, lambda t: VInt(t)
        if isinstance(v, VBool):
            return v.e, lambda t: VBool(t)
        if isinstance(v, VReal):
            return v.e, lambda t: VReal(t)
        if isinstance(v, VStr):
            return v.e, lambda t: VStr(t)
        if isinstance(v, VBytes):
            return v.e, lambda t, k=v.kind: VBytes(t, k)
        if isinstance(v, VOpaque):
            return v.e, lambda t: VOpaque(t)
        if isinstance(v, VNone):
            return U_NONE, lambda t: VOpaque(t)
        return None

    def _merge_vals(self, vals, name, eqs, outs_n):
        """merge the values a location has in the n outcomes; eqs[i] collects the equalities of disjunct i.
        returns the merged value or raises _NoJoin"""
        first = vals[0]
        if all(v is first for v in vals):
            return first
        zs = [self._z3val(v) for v in vals]
        if all(z is not None for z in zs) and len({z[0].sort() for z in zs}) > 1 and \
                all(isinstance(v, (VBool, VInt, VStr, VOpaque, VNone)) for v in vals):
            # values of different primitive types: merge as one opaque value (boxed), with the facts that make the boxes usable
            t = fresh("join_" + name, U)
            for i, v in enumerate(vals):
                if isinstance(v, VBool):
                    b = box_bool(v.e)
                    eqs[i].extend([t == b, truthy(b) == v.e, b != U_NONE])
                elif isinstance(v, VInt):
                    b = box_int(v.e)
                    eqs[i].extend([t == b, is_int(b), unbox_int(b) == v.e, truthy(b) == (v.e != 0), b != U_NONE])
                elif isinstance(v, VStr):
                    b = box_str(v.e)
                    eqs[i].extend([t == b, is_str(b), unbox_str(b) == v.e, truthy(b) == (z3.Length(v.e) > 0), b != U_NONE])
                else:
                    eqs[i].append(t == (U_NONE if isinstance(v, VNone) else v.e))
            return VOpaque(t)
        if all(z is not None for z in zs):
            sorts = {z[0].sort() for z in zs}
            if len(sorts) == 1:
                if all(z3.eq(z[0], zs[0][0]) for z in zs) and all(type(v) is type(first) for v in vals):
                    return first
                t = fresh("join_" + name, zs[0][0].sort())
                for i, z in enumerate(zs):
                    eqs[i].append(t == z[0])
                # the result wrapper: opaque if any side is None/opaque
                if any(isinstance(v, (VNone, VOpaque)) for v in vals):
                    return VOpaque(t)
                return zs[0][1](t)
        if all(isinstance(v, VTuple) for v in vals) and len({len(v.items) for v in vals}) == 1:
            return VTuple([self._merge_vals([v.items[k] for v in vals], "%s_%d" % (name, k), eqs, outs_n) for k in range(len(first.items))])
        if all(isinstance(v, VObj) for v in vals) and len({v.cls for v in vals}) == 1:
            if all(v.ref == first.ref for v in vals):
                return first
            return ("newobj", vals)
        raise _NoJoin()

    def try_join(self, pre, outs):
        """outs: all-normal outcomes of one statement started in `pre`.  Returns one merged outcome whose path condition is
        pre.pc + [Or_i(new assumptions of i  /\  merged locations == their values in i)], or None when states cannot be
        merged exactly (then the paths stay split).  Exact: no information is lost, only the number of paths shrinks."""
        n = len(outs)
        if n < 2 or any(o.kind != "next" for o in outs):
            return None
        sts = [o.st for o in outs]
        base = len(pre.pc)
        if any(len(s.pc) < base or any(s.pc[i] is not pre.pc[i] for i in range(base)) for s in sts):
            return None
        s0 = sts[0]
        if any(len(s.events) != len(s0.events) or s.locks != s0.locks or len(s.handling) != len(s0.handling) for s in sts):
            return None
        for k in range(len(pre.events), len(s0.events)):
            if any(s.events[k] is not s0.events[k] for s in sts):
                return None
        try:
            eqs = [[] for _ in range(n)]
            m = s0.fork()
            m.pc = list(pre.pc)
            # environment
            keys = set(s0.env)
            for s in sts:
                keys &= set(s.env)
            m.env = {}
            newobjs = []
            for k in sorted(keys):
                r = self._merge_vals([s.env[k] for s in sts], k, eqs, n)
                if isinstance(r, tuple) and r[0] == "newobj":
                    newobjs.append((("env", k), r[1]))
                else:
                    m.env[k] = r
            for k in sorted(set(s0.ghost)):
                if any(k not in s.ghost for s in sts):
                    raise _NoJoin()
                vals = [s.ghost[k] for s in sts]
                if isinstance(vals[0], V):
                    r = self._merge_vals(vals, "ghost_" + k, eqs, n)
                    if isinstance(r, tuple):
                        raise _NoJoin()
                    m.ghost[k] = r
                elif any(v is not vals[0] for v in vals):
                    raise _NoJoin()
            # heap: objects that existed before
            for ref in pre.heap:
                fields = set(s0.heap.get(ref, {}))
                if any(set(s.heap.get(ref, {})) != fields for s in sts):
                    raise _NoJoin()
                for f in fields:
                    vals = [s.heap[ref][f] for s in sts]
                    if all(v is vals[0] for v in vals):
                        continue
                    if not isinstance(vals[0], V):
                        if all(isinstance(v, z3.ExprRef) for v in vals):
                            t = fresh("join_" + f, vals[0].sort())
                            for i, v in enumerate(vals):
                                eqs[i].append(t == v)
                            m.heap[ref][f] = t
                            continue
                        if all(v == vals[0] for v in vals):
                            continue
                        raise _NoJoin()
                    r = self._merge_vals(vals, f, eqs, n)
                    if isinstance(r, tuple) and r[0] == "newobj":
                        newobjs.append((("heap", ref, f), r[1]))
                    else:
                        m.heap[ref][f] = r
            # freshly allocated objects held by a merged location: one merged object, fields merged
            for loc, objs in newobjs:
                if any(o.ref in pre.heap for o in objs):
                    raise _NoJoin()
                fsets = [set(sts[i].heap[o.ref]) for i, o in enumerate(objs)]
                if any(fs != fsets[0] for fs in fsets):
                    raise _NoJoin()
                mo = m.new_obj(objs[0].cls)
                for f in fsets[0]:
                    vals = [sts[i].heap[o.ref][f] for i, o in enumerate(objs)]
                    if isinstance(vals[0], V):
                        r = self._merge_vals(vals, f, eqs, n)
                        if isinstance(r, tuple):
                            raise _NoJoin()
                        m.heap[mo.ref][f] = r
                    elif all(v is vals[0] or v == vals[0] for v in vals):
                        m.heap[mo.ref][f] = vals[0]
                    else:
                        raise _NoJoin()
                if loc[0] == "env":
                    m.env[loc[1]] = mo
                else:
                    m.heap[loc[1]][loc[2]] = mo
            # objects allocated in the branches and still referenced elsewhere keep their cells (first outcome's view)
            for i, s in enumerate(sts):
                for ref, cell in s.heap.items():
                    if ref not in m.heap:
                        m.heap[ref] = dict(cell)
            disj = []
            for i, s in enumerate(sts):
                parts = list(s.pc[base:]) + eqs[i]
                disj.append(z3.And(parts) if parts else z3.BoolVal(True))
            if not any(z3.is_true(z3.simplify(d)) for d in disj):
                m.pc.append(z3.Or(disj))
            m.trace = list(pre.trace) + ["join(%d)" % n]
            self.stats["joins"] = self.stats.get("joins", 0) + 1
            return Out("next", m)
        except _NoJoin:
            return None

    def join_outcomes(self, pre, outs):
        normal = [o for o in outs if o.kind == "next"]
        if len(normal) < 2 or not JOIN or getattr(getattr(self, "cur_contract", None), "no_join", False):
            return outs
        j = self.try_join(pre, normal)
        if j is None:
            return outs
        return [j] + [o for o in outs if o.kind != "next"]

    def st_FunctionDef(self, node, st):
        st.env[node.name] = VClosure(node, st.env, self.cur_module)
        return [Out("next", st)]

    # --- try / with ---------------------------------------------------------------------------------------------------
    def match_handler(self, h, st, exc):
        """list of (state, matched) for one except clause"""
        if h.type is None:
            return [(st, True)]
        rs = self.ev(h.type, st)
        if len(rs) != 1 or rs[0].exc is not None:
            raise Unsupported("except clause expression")
        t = rs[0].val
        classes = list(t.items) if isinstance(t, VTuple) else [t]
        vc = st.get(exc, "__cls__")
        conds = []
        for c in classes:
            if not isinstance(c, VClass) or c.qname is None:
                raise Unsupported("except clause with non-constant class")
            cc = self.cls_cond(vc, c.qname)
            if cc is True:
                return [(st, True)]
            if cc is False:
                continue
            conds.append(cc)
        if not conds:
            return [(st, False)]
        return self.branch(st, z3.Or(conds) if len(conds) > 1 else conds[0])

    def st_Try(self, node, st):
        pre = st.fork()
        res = self._st_Try(node, st)
        return self.join_outcomes(pre, res)

    def _st_Try(self, node, st):
        outs = self.exec_block(node.body, st)
        res = []
        for o in outs:
            if o.kind == "raise":
                cur = [o]
                for h in node.handlers:
                    nxt = []
                    for oo in cur:
                        for s2, matched in self.match_handler(h, oo.st, oo.val):
                            if matched:
                                if h.name:
                                    s2.env[h.name] = oo.val
                                s2.handling.append(oo.val)
                                s2.trace.append("L%d:except" % h.lineno)
                                for ho in self.exec_block(h.body, s2):
                                    if ho.st.handling and ho.st.handling[-1] is oo.val:
                                        ho.st.handling.pop()
                                    res.append(ho)
                            else:
                                nxt.append(Out("raise", s2, oo.val))
                    cur = nxt
                res.extend(cur)
            elif o.kind == "next" and node.orelse:
                res.extend(self.exec_block(node.orelse, o.st))
            else:
                res.append(o)
        if node.finalbody:
            final = []
            for o in res:
                for f in self.exec_block(node.finalbody, o.st):
                    if f.kind == "next":
                        final.append(Out(o.kind, f.st, o.val))
                    else:
                        final.append(f)
            res = final
        return res

    def st_With(self, node, st):
        if len(node.items) != 1:
            inner = ast.With(items=node.items[1:], body=node.body)
            ast.copy_location(inner, node)
            outer = ast.With(items=node.items[:1], body=[inner])
            ast.copy_location(outer, node)
            return self.st_With(outer, st)
        item = node.items[0]
        ce = item.context_expr
        # contextlib.suppress(E...) == try/except E: pass
        if isinstance(ce, ast.Call) and isinstance(ce.func, ast.Attribute) and ce.func.attr == "suppress" \
                and isinstance(ce.func.value, ast.Name) and ce.func.value.id == "contextlib":
            typ = ce.args[0] if len(ce.args) == 1 else ast.Tuple(elts=list(ce.args), ctx=ast.Load())
            handler = ast.ExceptHandler(type=typ, name=None, body=[ast.Pass()])
            ast.copy_location(handler, node)
            t = ast.Try(body=node.body, handlers=[handler], orelse=[], finalbody=[])
            ast.copy_location(t, node)
            ast.fix_missing_locations(t)
            return self.st_Try(t, st)
        outs = []
        for r in self.ev(ce, st):
            if r.exc is not None:
                outs.append(Out("raise", r.st, r.exc))
                continue
            cm = r.val
            for r2 in self.enter(r.st, cm, node):
                if r2.exc is not None:
                    outs.append(Out("raise", r2.st, r2.exc))
                    continue
                s = r2.st
                if item.optional_vars is not None:
                    aouts = self.assign(item.optional_vars, r2.val, s)
                else:
                    aouts = [Out("next", s)]
                for ao in aouts:
                    if ao.kind != "next":
                        outs.append(ao)
                        continue
                    for bo in self.exec_block(node.body, ao.st):
                        outs.extend(self.exit(bo, cm, node))
        return outs

    def enter(self, st, cm, node):
        if isinstance(cm, VObj):
            m = self.R.models.get(cm.cls)
            if m is not None and hasattr(m, "enter"):
                return m.enter(self, st, cm, node)
        raise Unsupported("with-statement on %r at line %d" % (cm, node.lineno))

    def exit(self, out, cm, node):
        m = self.R.models.get(cm.cls)
        return m.exit(self, out, cm, node)

    # --- loops --------------------------------------------------------------------------------------------------------
    def assigned_names(self, body):
        names = set()
        for n in body:
            for sub_ in ast.walk(n):
                if isinstance(sub_, ast.Name) and isinstance(sub_.ctx, (ast.Store, ast.Del)):
                    names.add(sub_.id)
                elif isinstance(sub_, ast.ExceptHandler) and sub_.name:
                    names.add(sub_.name)
                elif isinstance(sub_, ast.AugAssign) and isinstance(sub_.target, ast.Name):
                    names.add(sub_.target.id)
                elif isinstance(sub_, ast.Call) and isinstance(sub_.func, ast.Attribute) and \
                        isinstance(sub_.func.value, ast.Name) and sub_.func.attr in (
                        "extend", "append", "add", "remove", "pop", "clear", "update", "discard", "insert"):
                    names.add(sub_.func.value.id)      # in-place mutation of a local container rebinds it
        return names

    def loop_ordinal(self, node):
        return self.loop_ordinals[id(node)]

    def cut_loop(self, node, st, guard_fn, extra_frame=()):
        """invariant cut.  guard_fn(state) -> list of (state, bool|None, Out|None)"""
        k = self.loop_ordinal(node)
        c = self.cur_contract
        a = self.cur_args
        old = self.cur_old
        inv = c.loop_inv(k, self, old, st, a)
        if inv is None:
            raise Unsupported("loop %d of %s has no invariant" % (k, c.name))
        for label, cond in inv:
            self.oblige(st, "inv-init@loop%d[%s]" % (k, label), cond.formula(st) if isinstance(cond, QInv) else cond, kind="inv")
        # havoc
        h = st.fork()
        names = self.assigned_names(node.body + node.orelse + ([node] if isinstance(node, ast.For) else []))
        if isinstance(node, ast.For):
            for sub_ in ast.walk(node.target):
                if isinstance(sub_, ast.Name):
                    names.add(sub_.id)
        for n in sorted(names):
            if n in h.env:
                h.env[n] = self.fresh_like(h.env[n], n)
        self.havoc(h, list(c.loop_modifies(k, self, h, a)) + list(extra_frame))
        h.events.append(("loop", k))
        for label, cond in c.loop_inv(k, self, old, h, a):
            h.assume(cond.formula(h) if isinstance(cond, QInv) else cond)
        head = h.fork()
        h.trace.append("L%d:loop%d" % (node.lineno, k))
        outs = []
        for s2, enter, pre_out in guard_fn(h):
            if pre_out is not None:
                outs.append(pre_out)
                continue
            if not enter:
                s2.trace.append("loop%d:exit" % k)
                if node.orelse:
                    outs.extend(self.exec_block(node.orelse, s2))
                else:
                    outs.append(Out("next", s2))
                continue
            s2.trace.append("loop%d:iter" % k)
            for bo in self.exec_block(node.body, s2):
                if bo.kind in ("next", "continue"):
                    s3 = bo.st
                    if isinstance(node, ast.For):
                        self.for_advance(node, s3)
                    for label, fact in c.loop_hints(k, self, old, head, s3, a):
                        # lemma hints: proved from the path (usually one instance of a quantified definition), then assumed
                        self.oblige(s3, "hint@loop%d[%s]" % (k, label), fact, kind="lemma")
                        s3.assume(fact)
                    for label, cond in c.loop_inv(k, self, old, s3, a):
                        if isinstance(cond, QInv):
                            n_h, n_3 = cond.bound(head), cond.bound(s3)
                            k0 = fresh("k0", IntS)
                            sf = s3.fork()
                            sf.assume(0 <= k0, k0 < n_h, cond.body(head, k0))
                            self.oblige(sf, "inv-keep@loop%d[%s:frame]" % (k, label), z3.Implies(k0 < n_3, cond.body(s3, k0)), kind="inv")
                            self.oblige(s3, "inv-keep@loop%d[%s:grows<=1]" % (k, label), n_3 <= n_h + 1, kind="inv")
                            sn = s3.fork()
                            sn.assume(n_3 == n_h + 1)
                            self.oblige(sn, "inv-keep@loop%d[%s:new]" % (k, label), cond.body(s3, n_h), kind="inv")
                        else:
                            self.oblige(s3, "inv-keep@loop%d[%s]" % (k, label), cond, kind="inv")
                    self.check_shapes(head, s3, names - self.dead_at_head(node), k)
                elif bo.kind == "break":
                    outs.append(Out("next", bo.st))
                else:
                    outs.append(bo)
        return outs

    def dead_at_head(self, node):
        """variables whose value at the loop head is never read: the for-target, and names that the body's top-level statements assign
        (plain `x = e` with x not in e) before any statement mentions them"""
        dead = set()
        if isinstance(node, ast.For):
            dead |= {n.id for n in ast.walk(node.target) if isinstance(n, ast.Name)}
        seen = set()
        for stmt in node.body:
            mentioned = {n.id for n in ast.walk(stmt) if isinstance(n, ast.Name)}
            if isinstance(stmt, ast.Assign) and len(stmt.targets) == 1 and isinstance(stmt.targets[0], ast.Name):
                x = stmt.targets[0].id
                used = {n.id for n in ast.walk(stmt.value) if isinstance(n, ast.Name)}
                if x not in seen and x not in used:
                    dead.add(x)
            seen |= mentioned
        if isinstance(node, ast.While):
            dead -= {n.id for n in ast.walk(node.test) if isinstance(n, ast.Name)}
        return dead

    def check_shapes(self, h, s3, names, k):
        for n in names:
            if n in h.env and n in s3.env and type(h.env[n]) is not type(s3.env[n]):
                raise Unsupported("variable %s changes shape in loop %d (%s -> %s)" % (
                    n, k, type(h.env[n]).__name__, type(s3.env[n]).__name__))

    def st_While(self, node, st):
        def guard(h):
            res = []
            for r in self.ev(node.test, h):
                if r.exc is not None:
                    res.append((r.st, None, Out("raise", r.st, r.exc)))
                    continue
                for s2, t in self.branch(r.st, self.truth(r.val, r.st)):
                    res.append((s2, t, None))
            return res
        return self.cut_loop(node, st, guard)

    def st_For(self, node, st):
        outs = []
        for r in self.ev(node.iter, st):
            if r.exc is not None:
                outs.append(Out("raise", r.st, r.exc))
                continue
            it = r.val
            if isinstance(it, (VTuple, VList)):
                outs.extend(self.unroll_for(node, r.st, list(it.items)))
                continue
            h = self.R.specs.get("syntax.for")
            if h is None:
                raise Unsupported("for loop over %r at line %d" % (it, node.lineno))
            outs.extend(h(self, r.st, [node, it], {}))
        return outs

    def unroll_for(self, node, st, items):
        cur = [st]
        outs = []
        for item in items:
            nxt = []
            for s in cur:
                for ao in self.assign(node.target, item, s):
                    if ao.kind != "next":
                        outs.append(ao)
                        continue
                    for bo in self.exec_block(node.body, ao.st):
                        if bo.kind in ("next", "continue"):
                            nxt.append(bo.st)
                        elif bo.kind == "break":
                            outs.append(Out("next", bo.st))
                        else:
                            outs.append(bo)
            cur = nxt
        for s in cur:
            if node.orelse:
                outs.extend(self.exec_block(node.orelse, s))
            else:
                outs.append(Out("next", s))
        return outs

    def for_advance(self, node, st):
        k = self.loop_ordinal(node)
        key = "idx%d" % k
        if key in st.ghost:
            st.ghost[key] = VInt(st.ghost[key].e + 1)

    # ------------------------------------------------------------------------------------------------ verification
    def number_loops(self, fnode):
        self.loop_ordinals = {}
        k = 0
        for sub_ in ast.walk(fnode):
            pass
        # source order
        loops = [n for n in ast.walk(fnode) if isinstance(n, (ast.While, ast.For))]
        loops.sort(key=lambda n: (n.lineno, n.col_offset))
        for n in loops:
            self.loop_ordinals[id(n)] = k
            k += 1

    def verify(self, c):
        """generate the obligations of one function under contract (once per declared setup variant)"""
        ok = True
        for variant in getattr(c, "variants", (None,)):
            c.variant = variant
            ok = self._verify(c, variant) and ok
        return ok

    def _verify(self, c, variant):
        n0 = len(self.obligations)
        self.cur = c
        self._steps = 0
        if variant is not None:
            self.cur = type("V", (), {"name": "%s<%s>" % (c.name, variant)})()
            for attr in ("sum_function", "local_abstraction"):
                if hasattr(c, attr):
                    setattr(self.cur, attr, getattr(c, attr))
        try:
            mod, fnode = self.contract_fnode(c)
            self.cur_module = mod
            self.cur_contract = c
            self.cur_fnode = fnode
            fq = self.split_func(getattr(c, "real_name", None) or c.name)[1]
            self.cur_class = fq.rsplit(".", 1)[0] if "." in fq else None
            self.number_loops(fnode)
            st = State()
            a = c.setup(self, st)
            for label, cond in c.requires(self, st, a):
                st.assume(cond)
            old = st.fork()
            self.cur_args = a
            self.cur_old = old
            # vacuity guard: the precondition is satisfiable
            self.oblige(State(), "vacuity:pre-sat", z3.Not(z3.And(st.pc)) if st.pc else z3.BoolVal(False), kind="vacuity")
            names = [x.arg for x in fnode.args.posonlyargs + fnode.args.args + fnode.args.kwonlyargs]
            bound = self.bind_params(fnode, [], {k_: v for k_, v in a.items() if k_ in names}, st, mod)
            st.env = dict(bound)
            if fnode.args.vararg and fnode.args.vararg.arg in a:
                st.env[fnode.args.vararg.arg] = a[fnode.args.vararg.arg]
            if fnode.args.kwarg and fnode.args.kwarg.arg in a:
                st.env[fnode.args.kwarg.arg] = a[fnode.args.kwarg.arg]
            outs = self.exec_block(fnode.body, st)
            npaths = 0
            normal_paths = 0
            for o in outs:
                npaths += 1
                s = o.st
                if o.kind in ("next", "return"):
                    normal_paths += 1
                    res = o.val if o.kind == "return" else NONE
                    s.trace.append("exit:return")
                    for label, cond in c.ensures(self, old, s, a, res):
                        self.oblige(s, "post[%s]#p%d" % (label, npaths), cond)
                    self.canary(s, "return", npaths)
                elif o.kind == "raise":
                    self.check_raise(c, old, s, a, o.val, npaths)
                else:
                    raise Unsupported("%s outside loop" % o.kind)
            self.stats["paths"] += npaths
            nr = getattr(c, "never_returns", ())
            if normal_paths == 0 and nr is not True and variant not in nr:
                # vacuity guard: a function whose contract has a normal postcondition must have a normal exit path explored
                # (a modelling gap that turns every path into an exception would otherwise pass silently)
                self.oblige(State(), "vacuity:normal-exit-explored", z3.BoolVal(True), kind="vacuity")
            return True
        except Unsupported as e:
            del self.obligations[n0:]
            self.unsupported.append((c.name, str(e)))
            return False
        except KeyError as e:
            # a sidecar hook looked up a local variable / field that the (changed) function no longer has: outside the verified subset
            del self.obligations[n0:]
            self.unsupported.append((c.name, "contract refers to %s, which the function no longer has" % (e,)))
            return False
        finally:
            self.cur = None

    def canary(self, s, kind, npaths):
        """vacuity guard: `False` must be refuted on some exit path of each kind (at most 2 per kind are emitted)"""
        key = (self.cur.name, kind)
        n = self._canaries.get(key, 0)
        if n < 2:
            self._canaries[key] = n + 1
            self.oblige(s, "vacuity:canary[%s]#p%d" % (kind.split(".")[-1], npaths), z3.BoolVal(False), kind="canary")

    def check_raise(self, c, old, s, a, exc, npaths):
        vc = s.get(exc, "__cls__")
        s.trace.append("exit:raise %s" % (vc.qname or "<user class>"))
        declared = list(c.raises.items())
        if vc.qname is not None:
            hit = [(q, m) for q, m in declared if CL.is_subclass(vc.qname, q)]
            if not hit:
                self.oblige(s, "noescape[%s]#p%d" % (vc.qname, npaths), z3.BoolVal(False), kind="noescape")
                return
            q, m = hit[0]
            for label, cond in getattr(c, m)(self, old, s, a, exc):
                self.oblige(s, "xpost[%s:%s]#p%d" % (q.split(".")[-1], label, npaths), cond)
            self.canary(s, q, npaths)
            return
        conds = [sub(vc.term, CL.term(q)) for q, m in declared]
        self.oblige(s, "noescape[<user class>]#p%d" % npaths, z3.Or(conds) if conds else z3.BoolVal(False), kind="noescape")
        for q, m in declared:
            s2 = s.fork()
            s2.assume(sub(vc.term, CL.term(q)))
            for label, cond in getattr(c, m)(self, old, s2, a, exc):
                self.oblige(s2, "xpost[%s:%s]#p%d" % (q.split(".")[-1], label, npaths), cond)


_symcache = {}


def _symbols(e):
    """names of the uninterpreted constants / functions occurring in e (cached per term id)"""
    k = e.get_id()
    r = _symcache.get(k)
    if r is not None:
        return r
    out = set()
    todo = [e]
    seen = set()
    while todo:
        x = todo.pop()
        i = x.get_id()
        if i in seen:
            continue
        seen.add(i)
        if z3.is_quantifier(x):
            todo.append(x.body())
            continue
        if z3.is_app(x):
            d = x.decl()
            if d.kind() == z3.Z3_OP_UNINTERPRETED:
                out.add(d.name())
            todo.extend(x.children())
    r = frozenset(out)
    _symcache[k] = r
    return r


_qcache = {}


def _has_quantifier(e):
    k = e.get_id()
    if k in _qcache:
        return _qcache[k]
    r = False
    todo = [e]
    seen = set()
    while todo:
        x = todo.pop()
        if x.get_id() in seen:
            continue
        seen.add(x.get_id())
        if z3.is_quantifier(x):
            r = True
            break
        todo.extend(x.children())
    _qcache[k] = r
    return r


def int_to_str(e):
    """decimal text of a mathematical int (z3 int.to.str is defined for naturals only)"""
    return z3.If(e >= 0, z3.IntToStr(e), z3.Concat(z3.StringVal("-"), z3.IntToStr(-e)))
