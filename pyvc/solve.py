"""pyvc.solve -- discharge obligations: z3 (Python API, in worker processes) first, cvc5 CLI on what z3 leaves unknown.
An obligation is (pc, goal); it is discharged iff pc /\\ not goal is unsat."""
import os
import re
import subprocess
import tempfile
import time
import multiprocessing as mp

Z3_TIMEOUT_MS = int(os.environ.get("PYVC_Z3_TIMEOUT_MS", "10000"))
CVC5_TIMEOUT_MS = int(os.environ.get("PYVC_CVC5_TIMEOUT_MS", "20000"))
CVC5 = "/usr/bin/cvc5"


Z3CLI = "z3-new"
_DEF = re.compile(r"\(define-fun\s+(\S+)\s+\(\)\s+(\([^()]*\)|\S+)\s+((?:.|\n)*?)\)\s*(?=\(define-fun|\)\s*$)")


def _z3_worker(job):
    """z3 through its command line front end: on these VCs the CLI's default pipeline (full preprocessing) decides in
    well under a second what the incremental API solver leaves open"""
    idx, smt2, timeout_ms, want_model = job
    t0 = time.time()
    with tempfile.NamedTemporaryFile("w", suffix=".smt2", delete=False) as f:
        f.write(smt2)
        if "(check-sat)" not in smt2:
            f.write("\n(check-sat)\n")
        path = f.name
    try:
        args = [Z3CLI, "-T:%d" % max(1, timeout_ms // 1000)]
        if want_model:
            args.append("-model")
        p = subprocess.run(args + [path], capture_output=True, text=True, timeout=timeout_ms / 1000.0 + 15)
        out = p.stdout.strip()
        first = out.splitlines()[0].strip() if out else "unknown"
        model = None
        if first == "sat" and want_model:
            model = {}
            body = out[len("sat"):]
            for m in _DEF.finditer(body):
                model[m.group(1)] = " ".join(m.group(3).split())[:400]
        if first not in ("sat", "unsat", "unknown"):
            first = "unknown" if "timeout" in out else "error"
        return idx, first, time.time() - t0, model, ("timeout" if first == "unknown" else (out[:200] if first == "error" else ""))
    except subprocess.TimeoutExpired:
        return idx, "unknown", time.time() - t0, None, "timeout"
    except Exception as e:     # noqa
        return idx, "error", time.time() - t0, None, repr(e)
    finally:
        os.unlink(path)


def _cvc5_run(smt2, timeout_ms, models=False):
    txt = smt2
    # z3 prints (declare-fun x () (Seq Int)) etc., accepted by cvc5; drop z3-only options / commands
    txt = re.sub(r"\(set-info [^)]*\)\n?", "", txt)
    txt = re.sub(r"\(\+ (\([^()]*(?:\([^()]*(?:\([^()]*\)[^()]*)*\)[^()]*)*\))\)", r"\1", txt)   # z3 prints unary (+ t)
    txt = "(set-logic ALL)\n" + txt
    if "(check-sat)" not in txt:
        txt += "\n(check-sat)\n"
    if models:
        txt += "(get-model)\n"
    with tempfile.NamedTemporaryFile("w", suffix=".smt2", delete=False) as f:
        f.write(txt)
        path = f.name
    t0 = time.time()
    try:
        args = [CVC5, "--strings-exp", "--tlimit=%d" % timeout_ms]
        if models:
            args += ["--produce-models", "--strings-fmf"]
        p = subprocess.run(args + [path], capture_output=True, text=True, timeout=timeout_ms / 1000.0 + 10)
        out = p.stdout.strip().splitlines()
        res = out[0].strip() if out else "unknown"
        if res not in ("sat", "unsat", "unknown"):
            res = "unknown" if "timeout" in (p.stdout + p.stderr).lower() or not out else "error:" + (p.stdout + p.stderr)[:300]
        return res, time.time() - t0, "\n".join(out[1:]) if models else None
    except subprocess.TimeoutExpired:
        return "unknown", time.time() - t0, None
    finally:
        os.unlink(path)


def _cvc5_worker(job):
    idx, smt2, timeout_ms = job
    res, t, _ = _cvc5_run(smt2, timeout_ms)
    return idx, res, t


def discharge(obligations, procs=None, z3_timeout_ms=None, cvc5_timeout_ms=None, both=False):
    """sets .result ('unsat' = discharged, 'sat' = refuted, 'unknown', 'error'), .backend, .time, .model"""
    procs = procs or min(16, os.cpu_count() or 4)
    zt = z3_timeout_ms or Z3_TIMEOUT_MS
    ct = cvc5_timeout_ms or CVC5_TIMEOUT_MS
    jobs = []
    texts = {}
    trivial = 0
    import z3
    for i, ob in enumerate(obligations):
        g = z3.simplify(ob.goal)
        if z3.is_true(g):
            ob.result, ob.backend, ob.time = "unsat", "simplifier", 0.0
            trivial += 1
            continue
        texts[i] = ob.smt2()
        # vacuity canaries ask for a model of the path; with quantified axioms that is often `unknown`, which is tolerated
        jobs.append((i, texts[i], min(zt, 5000) if ob.kind in ("canary", "vacuity") else zt, ob.kind not in ("canary", "vacuity")))
    if jobs:
        ctx = mp.get_context("fork")
        with ctx.Pool(min(procs, len(jobs))) as pool:
            for idx, res, t, model, reason in pool.imap_unordered(_z3_worker, jobs, chunksize=1):
                ob = obligations[idx]
                ob.result, ob.backend, ob.time, ob.model = res, "z3", t, model
                ob.reason = reason
    pending = [(i, texts[i], ct) for i in texts if obligations[i].kind not in ("canary", "vacuity")
               and (obligations[i].result in ("unknown", "error") or both)]
    if pending and os.path.exists(CVC5):
        ctx = mp.get_context("fork")
        with ctx.Pool(min(procs, len(pending))) as pool:
            for idx, res, t in pool.imap_unordered(_cvc5_worker, pending, chunksize=1):
                ob = obligations[idx]
                if both and ob.result in ("sat", "unsat"):
                    if res in ("sat", "unsat") and res != ob.result:
                        ob.result = "disagree"
                    continue
                if res in ("sat", "unsat"):
                    ob.result, ob.backend, ob.time = res, "cvc5", ob.time + t
                    if res == "sat":
                        r2, _t2, mtxt = _cvc5_run(texts[idx], ct, models=True)
                        ob.model = {"cvc5_model": mtxt} if mtxt else None
    # what both solvers leave open: retry without the quantified conjuncts of the path condition.  Dropping assumptions is
    # sound for proofs (unsat stays unsat); a model of the relaxed query is only a *candidate* counterexample
    # ("sat-relaxed"), which the check confirms natively before it reports anything.
    from .engine import _has_quantifier
    relaxed = []
    for i in texts:
        ob = obligations[i]
        if ob.kind in ("canary", "vacuity") or ob.result in ("sat", "unsat", "disagree"):
            continue
        s = z3.Solver()
        for c in ob.pc:
            if not _has_quantifier(c):
                s.add(c)
        s.add(z3.Not(ob.goal))
        relaxed.append((i, s.to_smt2(), zt, True))
    if relaxed:
        ctx = mp.get_context("fork")
        with ctx.Pool(min(procs, len(relaxed))) as pool:
            for idx, res, t, model, reason in pool.imap_unordered(_z3_worker, relaxed, chunksize=1):
                ob = obligations[idx]
                ob.time += t
                if res == "unsat":
                    ob.result, ob.backend = "unsat", "z3(quantifier-free part)"
                elif res == "sat":
                    ob.result, ob.backend, ob.model = "sat-relaxed", "z3(quantifier-free part)", model
    return obligations
