"""pyvc.solve -- discharge obligations: z3 (Python API, in worker processes) first, cvc5 CLI on what z3 leaves unknown.
An obligation is (pc, goal); it is discharged iff pc /\\ not goal is unsat."""
import os
import re
import subprocess
import tempfile
import time
import multiprocessing as mp

Z3_TIMEOUT_MS = int(os.environ.get("PYVC_Z3_TIMEOUT_MS", "10000"))
CVC5_TIMEOUT_MS = int(os.environ.get("PYVC_CVC5_TIMEOUT_MS", "20000"))
CVC5 = "/usr/bin/cvc5"


Z3CLI = "z3-new"
_DEF = re.compile(r"\(define-fun\s+(\S+)\s+\(\)\s+(\([^()]*\)|\S+)\s+((?:.|\n)*?)\)\s*(?=\(define-fun|\)\s*$)")


def _z3_worker(job):
    """z3 through its command line front end: on these VCs the CLI's default pipeline (full preprocessing) decides in
    well under a second what the incremental API solver leaves open"""
    idx, smt2, timeout_ms, want_model = job
    t0 = time.time()
    with tempfile.NamedTemporaryFile("w", suffix=".smt2", delete=False) as f:
        f.write(smt2)
        if "(check-sat)" not in smt2:
            f.write("\n(check-sat)\n")
        path = f.name
    try:
        args = [Z3CLI, "-T:%d" % max(1, timeout_ms // 1000)]
        if want_model:
            args.append("-model")
        p = subprocess.run(args + [path], capture_output=True, text=True, timeout=timeout_ms / 1000.0 + 15)
        out = p.stdout.strip()
        first = out.splitlines()[0].strip() if out else "unknown"
        model = None
        if first == "sat" and want_model:
            model = {}
            body = out[len("sat"):]
            for m in _DEF.finditer(body):
                model[m.group(1)] = " ".join(m.group(3).split())[:400]
        if first not in ("sat", "unsat", "unknown"):
            first = "unknown" if "timeout" in out else "error"
        return idx, first, time.time() - t0, model, ("timeout" if first == "unknown" else (out[:200] if first == "error" else ""))
    except subprocess.TimeoutExpired:
        return idx, "unknown", time.time() - t0, None, "timeout"
    except Exception as e:     # noqa
        return idx, "error", time.time() - t0, None, repr(e)
    finally:
        os.unlink(path)


def _cvc5_run(smt2, timeout_ms, models=False):
    txt = smt2
    # z3 prints (declare-fun x () (Seq Int)) etc., accepted by cvc5; drop z3-only options / commands
    txt = re.sub(r"\(set-info [^)]*\)\n?", "", txt)
    txt = re.sub(r"\(\+ (\([^()]*(?:\([^()]*(?:\([^()]*\)[^()]*)*\)[^()]*)*\))\)", r"\1", txt)   # z3 prints unary (+ t)
    txt = "(set-logic ALL)\n" + txt
    if "(check-sat)" not in txt:
        txt += "\n(check-sat)\n"
    if models:
        txt += "(get-model)\n"
    with tempfile.NamedTemporaryFile("w", suffix=".smt2", delete=False) as f:
        f.write(txt)
        path = f.name
    t0 = time.time()
    try:
        args = [CVC5, "--strings-exp", "--tlimit=%d" % timeout_ms]
        if models:
            args += ["--produce-models", "--strings-fmf"]
        p = subprocess.run(args + [path], capture_output=True, text=True, timeout=timeout_ms / 1000.0 + 10)
        out = p.stdout.strip().splitlines()
        res = out[0].strip() if out else "unknown"
        if res not in ("sat", "unsat", "unknown"):
            res = "unknown" if "timeout" in (p.stdout + p.stderr).lower() or not out else "error:" + (p.stdout + p.stderr)[:300]
        return res, time.time() - t0, "\n".join(out[1:]) if models else None
    except subprocess.TimeoutExpired:
        return "unknown", time.time() - t0, None
    finally:
        os.unlink(path)


def _cvc5_worker(job):
    idx, smt2, timeout_ms = job
    res, t, _ = _cvc5_run(smt2, timeout_ms)
    return idx, res, t


def discharge(obligations, procs=None, z3_timeout_ms=None, cvc5_timeout_ms=None, both=False):
    """sets .result ('unsat' = discharged, 'sat' = refuted, 'sat-relaxed' = candidate counterexample, 'unknown', 'error'),
    .backend, .time, .model.

    Stage 1: z3 on the path condition *without its quantified conjuncts* (most obligations do not need the spec-function
             axioms; dropping assumptions is sound for proofs: unsat stays unsat).
    Stage 2: for what stage 1 did not prove, z3 on the full query.   Stage 3: cvc5 on what z3 leaves unknown.
    A model of the relaxed query alone is only a candidate counterexample ('sat-relaxed')."""
    import z3
    from .engine import _has_quantifier
    procs = procs or min(16, os.cpu_count() or 4)
    zt = z3_timeout_ms or Z3_TIMEOUT_MS
    ct = cvc5_timeout_ms or CVC5_TIMEOUT_MS
    stage1, full_text, relaxed_text = [], {}, {}
    has_q = {}
    for i, ob in enumerate(obligations):
        g = z3.simplify(ob.goal)
        if z3.is_true(g):
            ob.result, ob.backend, ob.time = "unsat", "simplifier", 0.0
            continue
        special = ob.kind in ("canary", "vacuity")
        quant = any(_has_quantifier(c) for c in ob.pc)
        has_q[i] = quant
        if special or not quant:
            full_text[i] = ob.smt2()
            # string obligations: z3's sequence solver rarely decides what it has not decided within seconds, cvc5 usually does
            stringy = "str." in full_text[i] or "re." in full_text[i]
            stage1.append((i, full_text[i], min(zt, 5000) if (special or stringy) else zt, not special))
        else:
            s = z3.Solver()
            for c in ob.pc:
                if not _has_quantifier(c):
                    s.add(c)
            s.add(z3.Not(ob.goal))
            ob.false_goal = z3.is_false(g)
            relaxed_text[i] = s.to_smt2()
            stage1.append((i, relaxed_text[i], min(zt, 4000) if ob.false_goal else zt, True))
    ctx = mp.get_context("fork")

    def run(jobs, worker):
        if not jobs:
            return []
        with ctx.Pool(min(procs, len(jobs))) as pool:
            return list(pool.imap_unordered(worker, jobs, chunksize=1))

    stage2 = []
    for idx, res, t, model, reason in run(stage1, _z3_worker):
        ob = obligations[idx]
        ob.time += t
        ob.reason = reason
        if not has_q.get(idx) or ob.kind in ("canary", "vacuity"):
            ob.result, ob.backend, ob.model = res, "z3", model
        elif res == "unsat":
            ob.result, ob.backend = "unsat", "z3(quantifier-free part)"
        else:
            ob.relaxed = (res, model)
            full_text[idx] = ob.smt2()
            # a goal that is literally False asks for a model of the whole path; with quantified axioms that is rarely
            # produced: keep the attempt short, the relaxed model stands as candidate
            stage2.append((idx, full_text[idx], min(zt, 3000) if ob.false_goal else zt, True))
    for idx, res, t, model, reason in run(stage2, _z3_worker):
        ob = obligations[idx]
        ob.time += t
        ob.result, ob.backend, ob.model, ob.reason = res, "z3", model, reason
    pending = [(i, full_text[i], min(ct, 5000) if getattr(ob, "false_goal", False) else ct) for i, ob in enumerate(obligations)
               if i in full_text and ob.kind not in ("canary", "vacuity")
               and (ob.result in ("unknown", "error") or (both and ob.result in ("sat", "unsat")))]
    if os.path.exists(CVC5):
        for idx, res, t in run(pending, _cvc5_worker):
            ob = obligations[idx]
            ob.time += t
            if both and ob.result in ("sat", "unsat"):
                if res in ("sat", "unsat") and res != ob.result:
                    ob.result = "disagree"
                continue
            if res in ("sat", "unsat"):
                ob.result, ob.backend = res, "cvc5"
    # last stage: whatever is still open gets one more attempt with a generous budget and little parallelism, so that a verdict does not
    # depend on how busy the machine was (budgets above are sized for an idle 16-core box)
    # (an infeasibility obligation - goal False - is retried on its quantifier-free part: unsat there is a proof)
    retry = [(i, relaxed_text[i] if getattr(ob, "false_goal", False) and i in relaxed_text else full_text[i], 6 * zt, True)
             for i, ob in enumerate(obligations)
             if (i in full_text or i in relaxed_text) and ob.kind not in ("canary", "vacuity") and ob.result in ("unknown", "error")]
    refuted = any(ob.result == "sat" and ob.kind not in ("canary", "vacuity") for ob in obligations)
    # (only worth it when a handful is open: on a broken tree dozens of obligations are open or refuted and the verdict is decided by
    #  the refutations / the native harness anyway)
    if retry and len(retry) <= 12 and not refuted and not os.environ.get("PYVC_NO_RETRY"):
        saved_procs = procs
        procs = 4
        for idx, res, t, model, reason in run(retry, _z3_worker):
            ob = obligations[idx]
            ob.time += t
            if res == "unsat" or (res == "sat" and idx in full_text and not getattr(ob, "false_goal", False)):
                ob.result, ob.backend, ob.model, ob.reason = res, "z3(retry)", model, reason
        still = [(i, full_text[i], 3 * ct) for i, _, _, _ in retry if obligations[i].result in ("unknown", "error") and i in full_text]
        if os.path.exists(CVC5):
            for idx, res, t in run(still, _cvc5_worker):
                ob = obligations[idx]
                ob.time += t
                if res in ("sat", "unsat"):
                    ob.result, ob.backend = res, "cvc5(retry)"
        procs = saved_procs
    for ob in obligations:
        rel = getattr(ob, "relaxed", None)
        if ob.result in ("unknown", "error") and rel and rel[0] == "sat":
            ob.result, ob.backend, ob.model = "sat-relaxed", "z3(quantifier-free part)", rel[1]
    return obligations
