"""pyvc.classes -- the class lattice used by `except` matching and isinstance on exception objects.

Known classes are read from the *running* interpreter (builtins, socket, struct, zlib, sqlite3) and from the AST of
/repo/Pyro5/errors.py and the other repo modules (class statements with their bases), so that the table follows the
tree under verification.  Unknown (user) classes are fresh Cls constants constrained only by the upward closure of the
subclass relation (instantiated per constant, quantifier free).
"""
import ast
import builtins
import os
import z3
from .values import Cls, sub

REPO = os.environ.get("PYVC_REPO", "/repo")

_known = {}          # qname -> z3 const
_bases = {}          # qname -> list of base qnames (direct)
_alias = {}          # alias qname -> canonical qname


def _canon(q):
    return _alias.get(q, q)


def _add(qname, bases):
    qname = _canon(qname)
    if qname in _known:
        return
    _known[qname] = z3.Const("cls:" + qname, Cls)
    _bases[qname] = [_canon(b) for b in bases]


def _qual(c):
    mod = c.__module__
    if mod == "builtins":
        return "builtins." + c.__name__
    return mod + "." + c.__qualname__


def _add_pyclass(c):
    q = _qual(c)
    if q in _known:
        return q
    bs = [_add_pyclass(b) for b in c.__bases__ if b is not object]
    _add(q, bs)
    return q


def _init():
    import socket
    import struct
    import zlib
    import sqlite3
    import json
    for name in dir(builtins):
        c = getattr(builtins, name)
        if isinstance(c, type) and issubclass(c, BaseException):
            q = _add_pyclass(c)
            if name != c.__name__:
                _alias["builtins." + name] = q
    for modname, mod, names in (("socket", socket, ["timeout", "error", "herror", "gaierror"]),
                                ("struct", struct, ["error"]), ("zlib", zlib, ["error"]),
                                ("json", json, ["JSONDecodeError"]),
                                ("sqlite3", sqlite3, [n for n in dir(sqlite3) if isinstance(getattr(sqlite3, n), type)
                                                      and issubclass(getattr(sqlite3, n), BaseException)])):
        for n in names:
            c = getattr(mod, n)
            q = _add_pyclass(c)
            if q != modname + "." + n:
                _alias[modname + "." + n] = q
    _alias["builtins.EnvironmentError"] = "builtins.OSError"
    _alias["builtins.IOError"] = "builtins.OSError"
    # repo classes: every class statement in Pyro5/*.py whose bases resolve to known classes
    pending = []
    pdir = os.path.join(REPO, "Pyro5")
    for root, _d, files in os.walk(pdir):
        for fn in sorted(files):
            if not fn.endswith(".py"):
                continue
            path = os.path.join(root, fn)
            rel = os.path.relpath(path, REPO)[:-3].replace(os.sep, ".")
            if rel.endswith(".__init__"):
                rel = rel[:-9]
            try:
                tree = ast.parse(open(path).read())
            except SyntaxError:
                continue
            imports = {}
            for node in tree.body:
                if isinstance(node, ast.ImportFrom):
                    base = rel.rsplit(".", node.level)[0] if node.level else ""
                    modq = (base + "." + node.module) if (node.level and node.module) else (node.module or base)
                    for a in node.names:
                        imports[a.asname or a.name] = modq + "." + a.name
                elif isinstance(node, ast.Import):
                    for a in node.names:
                        imports[a.asname or a.name] = a.name
            for node in tree.body:
                if isinstance(node, ast.ClassDef):
                    pending.append((rel, node, imports))
    progress = True
    local = {}
    for rel, node, imports in pending:
        local[(rel, node.name)] = rel + "." + node.name
    while progress and pending:
        progress = False
        for item in list(pending):
            rel, node, imports = item
            bs = []
            ok = True
            for b in node.bases:
                q = None
                if isinstance(b, ast.Name):
                    if (rel, b.id) in local:
                        q = local[(rel, b.id)]
                    elif b.id in imports:
                        q = imports[b.id]
                    elif hasattr(builtins, b.id):
                        q = "builtins." + b.id
                elif isinstance(b, ast.Attribute) and isinstance(b.value, ast.Name):
                    m = imports.get(b.value.id, b.value.id)
                    q = m + "." + b.attr
                if q is None:
                    ok = False
                    break
                q = _canon(q)
                if q == "builtins.object":
                    continue
                if q not in _known:
                    # base not an exception-related class we know (e.g. threading.Thread): register it as a root
                    if q.startswith("Pyro5.") and any(q == local[k] for k in local):
                        ok = False
                        break
                    _add(q, [])
                bs.append(q)
            if ok:
                _add(rel + "." + node.name, bs)
                pending.remove(item)
                progress = True


def known(qname):
    if not _known:
        _init()
    return _canon(qname) in _known


def term(qname):
    if not _known:
        _init()
    q = _canon(qname)
    if q not in _known:
        _add(q, [])
    return _known[q]


def canon(qname):
    if not _known:
        _init()
    return _canon(qname)


def is_subclass(a, b):
    """concrete test on known classes"""
    if not _known:
        _init()
    a, b = _canon(a), _canon(b)
    if a == b:
        return True
    seen = set()
    todo = [a]
    while todo:
        c = todo.pop()
        if c == b:
            return True
        if c in seen:
            continue
        seen.add(c)
        todo.extend(_bases.get(c, []))
    return False


def all_known():
    if not _known:
        _init()
    return sorted(_known)


def term_name(t):
    s = str(t)
    return s[4:] if s.startswith("cls:") else None


_pairs_cache = {}


def closure_axioms(c, relevant):
    """upward-closure facts for a symbolic class constant c over the `relevant` known classes (quantifier free);
    only direct base edges are needed (the closure follows by chaining)"""
    key = tuple(relevant)
    pairs = _pairs_cache.get(key)
    if pairs is None:
        rel = [_canon(r) for r in relevant]
        rs = set(rel)
        pairs = []
        for a in rel:
            for b in _bases.get(a, []):
                if b in rs:
                    pairs.append((term(a), term(b)))
        _pairs_cache[key] = pairs
    return [z3.Implies(sub(c, ta), sub(c, tb)) for ta, tb in pairs]


def concrete_facts(relevant):
    rel = sorted({_canon(r) for r in relevant})
    facts = []
    for a in rel:
        for b in rel:
            facts.append(sub(term(a), term(b)) == z3.BoolVal(is_subclass(a, b)))
    if len(rel) > 1:
        facts.append(z3.Distinct(*[term(r) for r in rel]))
    return facts
