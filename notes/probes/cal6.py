# bounded validation of the derived uriRegEx characterisation against Python's re (design calibration)
import re, itertools
rx = re.compile(r"(?P<protocol>[Pp][Yy][Rr][Oo][a-zA-Z]*):(?P<object>\S+?)(@(?P<location>.+))?$")
def spec(R):
    # returns (obj, loc) or None for the part after "PYRO...:"
    body = R[:-1] if R.endswith("\n") else R          # '$' tolerates one trailing newline
    if not body: return None
    a = body.find("@", 1)
    # candidate 1: split at first '@' with index>=1 whose tail is non-empty
    if a != -1 and a+1 < len(body):
        obj, loc = body[:a], body[a+1:]
        if obj and not any(c.isspace() for c in obj) and "\n" not in loc:
            return obj, loc
        return None
    # candidate 2: no location
    if not any(c.isspace() for c in body):
        return body, None
    return None
alpha = "a@ \n:"
bad=0; n=0
for L in range(0,7):
    for t in itertools.product(alpha, repeat=L):
        R="".join(t); n+=1
        m = rx.match("PYRONAME:"+R)
        got = (m.group("object"), m.group("location")) if m else None
        if got != spec(R):
            bad+=1
            if bad<10: print("MISMATCH", repr(R), got, spec(R))
print("strings", n, "mismatches", bad)
