import z3, time
I=z3.IntSort(); B=z3.SeqSort(I); BB=z3.SeqSort(B)
keys, vals = z3.Consts('keys vals', BB)
payload = z3.Const('payload', B)
off = z3.Function('off', I, I)
n, asz, i, j = z3.Ints('n asz i j')
k = z3.Int('k')
def frombe(s, o, w):
    v=0
    for t in range(w): v = v*256 + s[o+t]
    return v
ax = [off(0)==0,
      z3.ForAll([k], z3.Implies(z3.And(k>=0,k<n), off(k+1)==off(k)+8+z3.Length(vals[k])), patterns=[off(k+1)]),
      z3.ForAll([k], z3.Implies(z3.And(k>=0,k<n), z3.And(z3.Length(keys[k])==4,
            z3.Extract(payload, off(k), 4)==keys[k], frombe(payload, off(k)+4,4)==z3.Length(vals[k]),
            z3.Extract(payload, off(k)+8, z3.Length(vals[k]))==vals[k])), patterns=[off(k)]),
      z3.Length(keys)==n, z3.Length(vals)==n, n>=0, off(n)==asz, z3.Length(payload)>=asz]
# invariant at loop head: 0<=j<=n, i==off(j); loop cond i<asz => j<n (needs monotonic off). prove step
s=z3.Solver(); s.set("timeout",20000)
s.add(ax); s.add(j>=0, j<=n, i==off(j), i<asz)
# monotonic lemma assumed (proved separately by induction): forall a<=b<=n: off(a)<=off(b); here need j<n: from i<asz=off(n) and j<=n -> j!=n
aid = z3.Extract(payload, i, 4); length = frombe(payload, i+4, 4); val = z3.Extract(payload, i+8, length); i2 = i+8+length
s.add(z3.Not(z3.And(j<n, aid==keys[j], val==vals[j], i2==off(j+1))))
t=time.time(); print(s.check(), time.time()-t)
