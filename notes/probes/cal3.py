import z3, time
S=z3.StringSort()
L, f = z3.Strings('L f')
p = z3.IndexOf(L, z3.StringVal(":"), 0)
def run(case_colon):
    s=z3.Solver(); s.set("timeout",30000)
    s.add(z3.Not(z3.PrefixOf(z3.StringVal("./u:"), L)), z3.Not(z3.PrefixOf(z3.StringVal("["), L)))
    if case_colon:
        s.add(p>=0); host = z3.SubString(L,0,p)
    else:
        s.add(p<0); host = L
    s.add(z3.Length(host)>0)   # truthy host (exclude known empty-host defect)
    s.add(z3.Not(z3.Contains(f, z3.StringVal(":"))))  # fmt_d output has no colon
    P = z3.Concat(host, z3.StringVal(":"), f)
    q = z3.IndexOf(P, z3.StringVal(":"), 0)
    good = z3.And(z3.Not(z3.PrefixOf(z3.StringVal("./u:"), P)), z3.Not(z3.PrefixOf(z3.StringVal("["), P)),
                  q>=0, z3.SubString(P,0,q)==host, z3.SubString(P,q+1,z3.Length(P)-q-1)==f)
    s.add(z3.Not(good))
    t=time.time(); r=s.check(); print("colon" if case_colon else "nocolon", r, round(time.time()-t,2), s.model() if r==z3.sat else "")
run(True); run(False)
