import z3, time, subprocess
def both(name, s):
    t=time.time(); s.set("timeout",10000); r=s.check(); tz=round(time.time()-t,2)
    txt="(set-logic ALL)\n"+s.to_smt2()
    open("q.smt2","w").write(txt); t=time.time()
    c=subprocess.run(["/usr/bin/cvc5","--strings-exp","--tlimit=20000","q.smt2"],capture_output=True,text=True).stdout.strip()
    print(name, "z3:",r,tz, "cvc5:",c, round(time.time()-t,2))
n=z3.String('n'); U=z3.StringVal("_"); UU=z3.StringVal("__")
# is_private_attribute body, path: not in RESERVED, startswith '_' , not(len>4 and sw '__' and ew '__') -> returns True
# obligation: spec_private(n) => result True, where spec: startswith '_' and not dunderform
dunder = z3.And(z3.Length(n)>4, z3.PrefixOf(UU,n), z3.SuffixOf(UU,n))
spec = z3.And(z3.PrefixOf(U,n), z3.Not(dunder))
# code result as ite
res = z3.If(z3.Not(z3.PrefixOf(U,n)), False, z3.If(dunder, False, True))
s=z3.Solver(); s.add(z3.Not(z3.Implies(spec, res))); both("private.post", s)
# mutant: len>4 -> len>=4 ; "____" (4 underscores) becomes public? spec says len>4 needed for dunder form
dunder2 = z3.And(z3.Length(n)>=4, z3.PrefixOf(UU,n), z3.SuffixOf(UU,n))
res2 = z3.If(z3.Not(z3.PrefixOf(U,n)), False, z3.If(dunder2, False, True))
s=z3.Solver(); s.add(z3.Not(z3.Implies(spec, res2))); both("private.mutant", s)
# exception tag roundtrip: cn = "builtins." ++ nm, nm has no "."; split('.',1)
nm=z3.String('nm'); cn=z3.Concat(z3.StringVal("builtins."), nm)
i=z3.IndexOf(cn, z3.StringVal("."), 0)
ns_=z3.SubString(cn,0,i); short=z3.SubString(cn,i+1,z3.Length(cn)-i-1)
s=z3.Solver(); s.add(z3.Length(nm)>0, z3.Not(z3.Contains(nm,z3.StringVal("."))), z3.Not(z3.Contains(cn, UU)) )
s.add(z3.Not(z3.And(i>=0, ns_==z3.StringVal("builtins"), short==nm, z3.Not(z3.PrefixOf(z3.StringVal("Pyro5.errors."), cn)), z3.Not(z3.PrefixOf(z3.StringVal("Pyro5.util."), cn)))))
both("exc.tag.roundtrip", s)
# Pyro5.errors.X : split('.',2)[2]
cn2=z3.Concat(z3.StringVal("Pyro5.errors."), nm)
i1=z3.IndexOf(cn2,z3.StringVal("."),0); i2=z3.IndexOf(cn2,z3.StringVal("."),i1+1)
third=z3.SubString(cn2,i2+1,z3.Length(cn2)-i2-1)
s=z3.Solver(); s.add(z3.Length(nm)>0); s.add(z3.Not(z3.And(i1==5,i2==12,third==nm))); both("pyroerr.tag", s)
