import Pyro5, sys
from Pyro5 import serializers, core, server, errors, config
print("py", sys.version.split()[0], "msgpack" in serializers.serializers)
# C01
for name, ser in serializers.serializers.items():
    big = 2**70
    try:
        a = ser.loadsCall(ser.dumpsCall("o","m",[big, 1.5],{"k":big}))
        r = ser.loads(ser.dumps([big,1.5]))
        print(name, "call:", a[2], a[3], "result:", r)
    except Exception as e:
        print(name, "ERR", type(e), e)
# C19
for s in ["PYRO:obj@:55", "PYRONAME:obj@:55", "PYROMETA:,", "PYRO:o@[::1]x:5", "PYRO:o@h:+5", "PYRO:o@h: 5 ", "PYRONAME:a@[abc]"]:
    try:
        u = core.URI(s); t = str(u)
        try:
            u2 = core.URI(t); print(repr(s), "->", repr(t), "eq", u2 == u, u.__getstate__())
        except Exception as e: print(repr(s), "->", repr(t), "REPARSE FAIL", e)
    except Exception as e:
        print(repr(s), "rejected", e)
try:
    print(hash(core.URI("PYROMETA:a,b")))
except Exception as e: print("hash PYROMETA", type(e), e)
