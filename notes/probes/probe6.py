import threading
import Pyro5.api as api
from Pyro5 import server, errors
log=[]
class A:
    @property
    def secret(self): log.append("secret getter ran"); return 1
    @api.expose
    def m(self): return 1
d = server.Daemon(); u = d.register(A(), "a")
threading.Thread(target=d.requestLoop, daemon=True).start()
p = api.Proxy(u)
try: print(p._pyroInvoke("secret", (), {}))
except Exception as e: print("refused:", type(e).__name__, e)
print("side effects:", log)
try: p._pyroInvoke("__getattr__", ("secret",), None)
except Exception as e: print("getattr refused:", type(e).__name__)
print("side effects:", log)
d.shutdown()
