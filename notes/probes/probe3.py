import threading, time, socket, tempfile, os
import Pyro5.api as api
from Pyro5 import server, config, core, errors, protocol, serializers, client, nameserver
@api.expose
class Plain:
    def __init__(self): self.v = 5
    def who(self): return "plain"
@api.expose
class Ret:
    def __init__(self, o): self.o=o
    def get(self): return self.o
d = server.Daemon()
plain = Plain()
d.register(plain, "plain")
u4 = d.register(Ret(plain), "ret")
t = threading.Thread(target=d.requestLoop, daemon=True); t.start()
pr = api.Proxy(u4)
print("C16 registered ->", type(pr.get()).__name__)
d.unregister("plain")
print("attrs kept after unregister-by-id:", hasattr(plain,"_pyroId"), hasattr(plain,"_pyroDaemon"))
try:
    r = pr.get(); print("C16 after unregister by id ->", type(r).__name__, r)
except Exception as e: print("C16 after unregister by id -> ERR", type(e).__name__, e)
d.register(plain, "plain2"); d.unregister(plain)
try:
    r = pr.get(); print("C16 after unregister by object ->", type(r).__name__, r)
except Exception as e: print("C16 after unregister by obj -> ERR", type(e).__name__, e)
d.shutdown()

# C14
tmp = tempfile.mkdtemp()
for st in (nameserver.MemoryStorage(), nameserver.SqlStorage(os.path.join(tmp,"ns.db"))):
    ns = nameserver.NameServer(st)
    for n in ["abc", "Abc", "a_c", "a%c", "axc"]:
        ns.register(n, "PYRO:o@h:1")
    print(type(st).__name__, "prefix 'a_':", sorted(ns.list(prefix="a_")), "prefix 'A':", sorted(ns.list(prefix="A")), "prefix 'a%':", sorted(ns.list(prefix="a%")))
    print("  remove(prefix='a_') ->", ns.remove(prefix="a_"), "left", sorted(ns.list()))
    ns.register("m1","PYRO:o@h:1", metadata=["t1","t2"])
    print("  yplookup all [t1,t1]:", sorted(ns.yplookup(meta_all=["t1","t1"])))
