import threading, time, socket
import Pyro5.api as api
from Pyro5 import server, config, core, errors, protocol, serializers, client
ran=[]
@api.expose
class T:
    def raise_timeout(self): ran.append("t"); raise errors.TimeoutError("user timeout")
    def raise_proto(self): ran.append("p"); raise errors.ProtocolError("user proto")
    def raise_sec(self): ran.append("s"); raise errors.SecurityError("user sec")
    def ok(self): ran.append("ok"); return 1
for st in ("thread","multiplex"):
    config.SERVERTYPE=st
    d = server.Daemon(); u = d.register(T, "t")
    threading.Thread(target=d.requestLoop, daemon=True).start()
    p = api.Proxy(u)
    for m in ("raise_timeout","raise_proto","raise_sec"):
        try: getattr(p,m)()
        except Exception as e: print(st, m, "->", type(e).__name__, e)
        try: print("   next:", p.ok())
        except Exception as e: print("   next ->", type(e).__name__, e)
        try: print("   next2:", p.ok())
        except Exception as e: print("   next2 ->", type(e).__name__, e)
    # C08: CONNECT with unknown serializer id
    s = socket.create_connection((d.sock.getsockname()[0], d.sock.getsockname()[1]))
    ser = serializers.serializers["marshal"]
    m = protocol.SendingMessage(protocol.MSG_CONNECT, 0, 0, 99, ser.dumps({"handshake":"hello","object":"t"}))
    s.sendall(m.data); s.settimeout(2)
    try: print(st, "C08 unknown serializer reply:", s.recv(100)[:60])
    except Exception as e: print(st, "C08 unknown ser ->", type(e).__name__)
    s.close()
    # first message INVOKE
    s = socket.create_connection(d.sock.getsockname()[:2])
    m = protocol.SendingMessage(protocol.MSG_INVOKE, 0, 0, 2, ser.dumpsCall("t","ok",[],{}))
    s.sendall(m.data+m.data); s.settimeout(2); n=len(ran)
    try:
        r = s.recv(1000); print(st, "C08 INVOKE first reply type:", r[6] if len(r)>6 else r, "ran more:", len(ran)-n)
    except Exception as e: print(st, "->", type(e).__name__)
    s.close()
    d.shutdown()
