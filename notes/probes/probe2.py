import threading, time, socket
import Pyro5.api as api
from Pyro5 import server, config, core, errors, protocol, serializers, client
from Pyro5.callcontext import current_context
config.SERVERTYPE="multiplex"
created=[]
@api.expose
@api.behavior(instance_mode="single")
class Falsy:
    def __init__(self): created.append(id(self))
    def __len__(self): return 0
    def hi(self): return "hi"

@api.expose
class Ann:
    def setann_raise(self):
        current_context.response_annotations = {"LEAK": b"secret"}
        raise ValueError("x")
    def ok(self): return 1
    @property
    def x(self): return 42
    _alias = x

class Helper:
    pass
@api.expose
class Callee:
    def __call__(self): return "called helper"
@api.expose
class Outer:
    helper = Callee()
    def m(self): return 1

class Plain:
    def __init__(self): self.v = 5
@api.expose
class Ret:
    def __init__(self, o): self.o=o
    def get(self): return self.o

d = server.Daemon()
u1 = d.register(Falsy, "falsy")
u2 = d.register(Ann, "ann")
u3 = d.register(Outer(), "outer")
plain = Plain()
d.register(plain, "plain")
u4 = d.register(Ret(plain), "ret")
t = threading.Thread(target=d.requestLoop, daemon=True); t.start()

with api.Proxy(u1) as p:
    p.hi(); p.hi()
with api.Proxy(u1) as p:
    p.hi()
print("C09 single instances created:", len(created))

pa = api.Proxy(u2); pb = api.Proxy(u2)
pb._pyroBind()
try: pa.setann_raise()
except ValueError: print("raised; annotations on error reply:", dict(current_context.response_annotations))
pb.ok()
print("C12 second client's reply annotations:", {k:bytes(v) for k,v in current_context.response_annotations.items()})
# private alias
try:
    print("C02 _alias via raw __getattr__:", pa._pyroInvoke("__getattr__", ("_alias",), None))
except Exception as e: print("C02 _alias refused:", type(e).__name__, e)
print("meta ann:", d.objectsById["Pyro.Daemon"].get_metadata("ann"))
po = api.Proxy(u3)
try:
    print("C02 helper via raw call:", po._pyroInvoke("helper", (), {}))
except Exception as e: print("C02 helper refused:", type(e).__name__, e)
print("meta outer:", d.objectsById["Pyro.Daemon"].get_metadata("outer"))
# C16
pr = api.Proxy(u4)
print("C16 registered ->", type(pr.get()).__name__)
d.unregister("plain")
try:
    r = pr.get(); print("C16 after unregister by id ->", type(r).__name__, r)
except Exception as e: print("C16 after unregister by id -> ERR", type(e).__name__, e)
d.shutdown()
