import threading, sys, inspect, tempfile, os
from Pyro5 import nameserver
src, start = inspect.getsourcelines(nameserver.NameServer.remove)
pause_line = start + [i for i,l in enumerate(src) if "with self.lock" in l][0]
for mk in (lambda: nameserver.MemoryStorage(), lambda: nameserver.SqlStorage(os.path.join(tempfile.mkdtemp(),"n.db"))):
    ns = nameserver.NameServer(mk()); ns.register("x", "PYRO:o@h:1")
    at_pause = threading.Event(); resume = threading.Event(); res={}
    def tracer(frame, event, arg):
        if frame.f_code is nameserver.NameServer.remove.__code__ and threading.current_thread().name=="A":
            def local(frame, event, arg):
                if event=="line" and frame.f_lineno==pause_line and not at_pause.is_set():
                    at_pause.set(); resume.wait(5)
                return local
            return local
    threading.settrace(tracer)
    def A():
        try: res["A"]=ns.remove("x")
        except Exception as e: res["A"]=repr(e)
    ta=threading.Thread(target=A, name="A"); ta.start(); at_pause.wait(5)
    res["B"]=ns.remove("x"); resume.set(); ta.join(); threading.settrace(None)
    print(type(ns.storage).__name__, "concurrent remove('x') results:", res, "-> total reported removed:", [v for v in res.values()])
