import Pyro5.api as api
from Pyro5 import server, errors
@api.expose
class P:
    def who(self): return 1
d = server.Daemon()
o = P()
d.register(o, "a", weak=True)
try:
    d.register(o, "b"); print("C16 weak object registered twice without force:", sorted(d.objectsById))
except errors.DaemonError as e: print("refused", e)
o2 = P(); d.register(o2, "c")
try: d.register(o2, "d"); print("strong twice accepted")
except errors.DaemonError as e: print("strong twice refused:", e)
d.close()
