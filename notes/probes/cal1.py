import z3, time
I = z3.IntSort()
B = z3.SeqSort(I)
def be(n, w):
    parts=[]
    for k in range(w-1,-1,-1):
        parts.append(z3.Unit((n / (256**k)) % 256))
    return z3.Concat(*parts) if w>1 else parts[0]
def frombe(s, off, w):
    v = 0
    for k in range(w):
        v = v*256 + s[off+k]
    return v
typ, ser, fl, seq, dl, al = z3.Ints('typ ser fl seq dl al')
corr = z3.Const('corr', B); tag = z3.Const('tag', B)
hdr = z3.Concat(tag, be(z3.IntVal(502),2), be(typ,1), be(ser,1), be(fl,2), be(seq,2), be(dl,4), be(al,4), corr, be(z3.IntVal(0),2), be(z3.IntVal(0x4dc5),2))
s = z3.Solver()
s.add(z3.Length(tag)==4, z3.Length(corr)==16)
for v,w in ((typ,1),(ser,1),(fl,2),(seq,2),(dl,4),(al,4)):
    s.add(v>=0, v<256**w)
# claim: decoding fields gives back
claim = z3.And(z3.Length(hdr)==40, frombe(hdr,6,1)==typ, frombe(hdr,7,1)==ser, frombe(hdr,8,2)==fl, frombe(hdr,10,2)==seq,
               frombe(hdr,12,4)==dl, frombe(hdr,16,4)==al, z3.Extract(hdr,20,16)==corr, z3.Extract(hdr,0,4)==tag, frombe(hdr,38,2)==0x4dc5)
s.add(z3.Not(claim))
t=time.time(); print(s.check(), time.time()-t)
# loop-style VC: data' = data ++ chunk, msglen' = msglen+len(chunk); inv: data == Extract(stream,pos0,msglen) & pos==pos0+msglen
stream, data, chunk = z3.Consts('stream data chunk', B)
pos0,pos,msglen,size,n = z3.Ints('pos0 pos msglen size n')
s2=z3.Solver()
s2.add(pos0>=0, msglen>=0, pos==pos0+msglen, pos+z3.Length(chunk) <= z3.Length(stream), data==z3.Extract(stream,pos0,msglen), msglen<size,
       chunk==z3.Extract(stream,pos,z3.Length(chunk)), z3.Length(chunk)>0, z3.Length(chunk)<=size-msglen)
data2=z3.Concat(data,chunk); msglen2=msglen+z3.Length(chunk); pos2=pos+z3.Length(chunk)
s2.add(z3.Not(z3.And(data2==z3.Extract(stream,pos0,msglen2), pos2==pos0+msglen2)))
t=time.time(); print(s2.check(), time.time()-t)
