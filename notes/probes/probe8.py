# C18: deterministic schedule: worker inside notify_done (after busy.remove, before idle.add) while process() runs
import threading, sys, time, inspect
from Pyro5 import config, svr_threads
config.THREADPOOL_SIZE=1; config.THREADPOOL_SIZE_MIN=1
src, start = inspect.getsourcelines(svr_threads.Pool.notify_done)
pause_line = start + [i for i,l in enumerate(src) if "if self.closed" in l][0]
at_pause = threading.Event(); resume = threading.Event()
def tracer(frame, event, arg):
    if frame.f_code is svr_threads.Pool.notify_done.__code__:
        def local(frame, event, arg):
            if event == "line" and frame.f_lineno == pause_line and not at_pause.is_set():
                at_pause.set(); resume.wait(5)
            return local
        return local
    return None
threading.settrace(tracer)
ran=[]
class Job:
    def __init__(self,n): self.n=n
    def __call__(self):
        ran.append(self.n)
        if self.n==2: time.sleep(1.0)
pool = svr_threads.Pool()
pool.process(Job(1))
assert at_pause.wait(5), "worker did not reach pause point"
print("worker paused inside notify_done: busy=%d idle=%d" % (len(pool.busy), len(pool.idle)))
pool.process(Job(2))          # accept loop submits next connection now
print("after process(job2): busy=%d idle=%d" % (len(pool.busy), len(pool.idle)))
live_during=[t for t in threading.enumerate() if isinstance(t, svr_threads.Worker)]; print("live Worker threads while paused:", len(live_during)); resume.set(); time.sleep(0.3)
alive = [t for t in threading.enumerate() if isinstance(t, svr_threads.Worker)]
print("THREADPOOL_SIZE=1; busy+idle =", pool.num_workers(), "live Worker threads =", len(alive), "jobs ran:", ran)
threading.settrace(None); pool.close()
