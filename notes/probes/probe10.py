import threading, io, time
import Pyro5.api as api
from Pyro5 import config, nameserver, server
from Pyro5.utils import httpgateway as gw
calls=[]
@api.expose
class Obj:
    def hello(self, a="?"): calls.append(("hello",a)); return "hi "+a
nsuri, nsd, _ = nameserver.start_ns(host="localhost", port=0, enableBroadcast=False)
threading.Thread(target=nsd.requestLoop, daemon=True).start()
config.NS_HOST="localhost"; config.NS_PORT=nsuri.port
d = server.Daemon(); u = d.register(Obj(), "obj"); threading.Thread(target=d.requestLoop, daemon=True).start()
nsd.nameserver.register("http.obj", u); nsd.nameserver.register("secret.obj", u)
def req(path, qs="", hdr=None, method="GET"):
    env={"REQUEST_METHOD":method,"PATH_INFO":path,"QUERY_STRING":qs,"wsgi.errors":io.StringIO()}
    env.update(hdr or {}); st=[]
    try:
        body=gw.pyro_app(env, lambda s,h: st.append(s))
        return st[0], b"".join(body)[:80]
    except Exception as e:
        return "EXC", repr(e)
print(req("/pyro/http.obj/hello","a=x"), calls)
print(req("/pyro/secret.obj/hello","a=x"), calls)
print("local attr:", req("/pyro/http.obj/_pyroRelease"), calls)
print("local attr:", req("/pyro/http.obj/_pyroBind"), calls)
print("nonexistent:", req("/pyro/http.obj/nosuch"))
gw.pyro_app.gateway_key=b"k"
print("no key:", req("/pyro/http.obj/hello","a=x"), "dup key:", req("/pyro/http.obj/hello","$key=a&$key=b"), "good:", req("/pyro/http.obj/hello","a=y&$key=k"), calls)
d.shutdown(); nsd.shutdown()
