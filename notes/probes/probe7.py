# C05: pool saturated -> denyConnection -> send to a reset peer -> does the request loop die?
import threading, time, socket, struct
import Pyro5.api as api
from Pyro5 import server, config, protocol, serializers, errors
config.SERVERTYPE="thread"; config.THREADPOOL_SIZE=1; config.THREADPOOL_SIZE_MIN=1; config.POLLTIMEOUT=0.5
@api.expose
class T:
    def ok(self): return 1
d = server.Daemon(); u = d.register(T, "t")
th = threading.Thread(target=d.requestLoop, daemon=True); th.start()
p1 = api.Proxy(u); p1._pyroBind()          # occupies the only worker
ser = serializers.serializers["marshal"]
addr = d.sock.getsockname()[:2]
died=False
for attempt in range(200):
    s = socket.create_connection(addr)
    s.setsockopt(socket.SOL_SOCKET, socket.SO_LINGER, struct.pack("ii", 1, 0))
    m = protocol.SendingMessage(protocol.MSG_CONNECT, 0, 0, 2, ser.dumps({"handshake":"hello","object":"t"}))
    s.sendall(m.data)
    s.close()     # RST
    time.sleep(0.01)
    if not th.is_alive():
        print("request loop thread DIED after", attempt+1, "attempts"); died=True; break
print("loop alive:", th.is_alive())
try:
    print("witness client still served:", p1.ok())
except Exception as e: print("witness failed", type(e).__name__, e)
if th.is_alive(): d.shutdown()
