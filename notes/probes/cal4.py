import z3, time, subprocess, sys
S=z3.StringSort()
L, f = z3.Strings('L f')
p = z3.IndexOf(L, z3.StringVal(":"), 0)
def mk(case_colon):
    s=z3.Solver()
    s.add(z3.Not(z3.PrefixOf(z3.StringVal("./u:"), L)), z3.Not(z3.PrefixOf(z3.StringVal("["), L)))
    if case_colon:
        s.add(p>=0); host = z3.SubString(L,0,p)
    else:
        s.add(p<0); host = L
    s.add(z3.Length(host)>0)
    s.add(z3.Not(z3.Contains(f, z3.StringVal(":"))))
    P = z3.Concat(host, z3.StringVal(":"), f)
    q = z3.IndexOf(P, z3.StringVal(":"), 0)
    good = z3.And(z3.Not(z3.PrefixOf(z3.StringVal("./u:"), P)), z3.Not(z3.PrefixOf(z3.StringVal("["), P)),
                  q>=0, z3.SubString(P,0,q)==host, z3.SubString(P,q+1,z3.Length(P)-q-1)==f)
    s.add(z3.Not(good))
    return s
for c in (True, False):
    s = mk(c)
    txt = "(set-logic ALL)\n(set-option :produce-models true)\n" + s.to_smt2().replace("(check-sat)","(check-sat)\n(get-model)")
    open(f"q{int(c)}.smt2","w").write(txt)
    for cmd in (["/usr/bin/cvc5","--strings-exp","--tlimit=30000"], ["z3-new","-T:30"]):
        t=time.time()
        r = subprocess.run(cmd+[f"q{int(c)}.smt2"], capture_output=True, text=True)
        print(c, cmd[0], r.stdout.strip().replace("\n"," ")[:200], r.stderr.strip()[:100], round(time.time()-t,2))
