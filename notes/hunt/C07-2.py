"""
C07-2: batch member whose exception carries unserialisable content.
For a plain call Daemon._sendExceptionResponse falls back to
PyroError("Error serializing exception: ... Original exception: <class 'ValueError'>: boom").
For a batch member there is no such fallback: the _ExceptionWrapper is appended to the result
list, serializer.dumps(list) fails afterwards, and the *serializer's* error is what gets sent.
The caller receives TypeError (serpent; not even a Pyro error) / SerializeError (json, msgpack)
"don't know how to serialize class <class 'object'>" - nothing about the original ValueError('boom'),
its traceback, or the results of the batch members that had succeeded before it.
(marshal is excluded: batch members under marshal are a recorded departure.)
Run: PYTHONPATH=/repo /venv/bin/python C07-2.py
"""
import sys, threading
import Pyro5.api, Pyro5.server, Pyro5.errors
from Pyro5 import config


@Pyro5.api.expose
class Thing:
    def ping(self):
        return "pong"

    def boom(self):
        e = ValueError("boom")
        e.culprit = object()        # unserialisable attribute value
        raise e


def start(servertype):
    config.SERVERTYPE = servertype
    d = Pyro5.server.Daemon(host="127.0.0.1", port=0)
    uri = d.register(Thing(), "thing")
    threading.Thread(target=d.requestLoop, daemon=True).start()
    return d, uri


def describes_original(x):
    return isinstance(x, Pyro5.errors.PyroError) and "ValueError" in str(x) and "boom" in str(x)


bad = []
for st in ("thread", "multiplex"):
    d, uri = start(st)
    for ser in ("serpent", "json", "msgpack"):
        config.SERIALIZER = ser
        with Pyro5.api.Proxy(uri) as p:
            p._pyroTimeout = 5
            # control: plain call
            try:
                p.boom()
                plain = None
            except Exception as x:
                plain = x
            # batch
            first = "<not delivered>"
            try:
                b = Pyro5.api.BatchProxy(p)
                b.ping()
                b.boom()
                results = b()
                first = next(results)
                next(results)
                batch = None
            except Exception as x:
                batch = x
            print("%-9s %-8s plain -> %s: %s" % (st, ser, type(plain).__name__, str(plain)[:150]))
            print("%-9s %-8s batch -> first result %r, then %s: %s" % (st, ser, first, type(batch).__name__, str(batch)[:150]))
            if not describes_original(plain):
                bad.append((st, ser, "plain"))
            if not describes_original(batch):
                bad.append((st, ser, "batch", type(batch).__name__))
            assert p.ping() == "pong"
    d.shutdown()

if bad:
    print("VIOLATION: caller of the batch gets the serializer's own error, the original exception is not described:", bad)
    sys.exit(1)
print("OK")
