"""C13 (arguably outside the letter: 'daemon shutdown' is not in the statement's list of endings):
multiplex server, daemon.shutdown() while a client connection is open.  SocketServer_Multiplex.close() only
closes the selector and the listening socket; the accepted connections are dropped without _clientDisconnect,
so the disconnect hook runs 0 times for them (their sockets/resources are only released as a side effect of
SocketConnection.__del__ when the selector map is garbage collected).  On the thread server the connection simply
survives the shutdown, keeps being served by its worker, and the hook runs once when the client finally leaves."""
import sys, time, threading, collections, gc
import Pyro5.api, Pyro5.server
from Pyro5 import config
from Pyro5.callcontext import current_context

CLOSES = collections.Counter()
KEEP = []


class Res(object):
    def __init__(self, name):
        self.name = name

    def close(self):
        CLOSES[self.name] += 1


class D(Pyro5.server.Daemon):
    def __init__(self, *a, **k):
        super().__init__(*a, **k)
        self.disc = []

    def clientDisconnect(self, conn):
        self.disc.append(id(conn))


@Pyro5.server.expose
class Svc(object):
    def make(self, name):
        r = Res(name)
        KEEP.append(r)
        current_context.track_resource(r)
        return id(current_context.client)


problems = []
for servertype in ("thread", "multiplex"):
    CLOSES.clear()
    config.SERVERTYPE = servertype
    d = D(host="127.0.0.1", port=0)
    uri = d.register(Svc, "svc")
    t = threading.Thread(target=d.requestLoop, daemon=True)
    t.start()
    p = Pyro5.api.Proxy(uri)
    p._pyroTimeout = 3
    cid = p.make("r")
    d.shutdown()
    time.sleep(0.5)
    p._pyroRelease()
    time.sleep(0.5)
    gc.collect()
    n = d.disc.count(cid)
    if n != 1 or CLOSES["r"] != 1:
        problems.append("%s server: connection open at daemon.shutdown(): disconnect hook called %d times, resource closed %d times (expected 1 / 1)"
                        % (servertype, n, CLOSES["r"]))

if problems:
    for pr in problems:
        print("VIOLATION:", pr)
    sys.exit(1)
print("OK")
