"""
C02 (arguable): an unexposed subclass overrides only the SETTER of a property whose getter was exposed in the
base class.  The overriding setter function carries no _pyroExposed mark and its class is not exposed, yet an
attribute-write request runs it (the gate looks at fget only).
"""
import sys, threading
import Pyro5.server, Pyro5.client

LOG = []

@Pyro5.server.expose
class Base:
    @property
    def level(self):
        return getattr(self, "_level", 0)
    @level.setter
    def level(self, v):
        self._level = v

class Sub(Base):                        # NOT exposed
    @Base.level.setter
    def level(self, v):                 # never exposed, defined in an unexposed class
        LOG.append("Sub.level setter ran with %r" % (v,))
        self._level = -v

assert not getattr(Sub.level.fset, "_pyroExposed", False)

daemon = Pyro5.server.Daemon(host="127.0.0.1", port=0)
obj = Sub()
uri = daemon.register(obj, "sub")
threading.Thread(target=daemon.requestLoop, daemon=True).start()
with Pyro5.client.Proxy(uri) as p:
    p._pyroBind()
    try:
        p._pyroInvoke("__setattr__", ("level", 5), None)
        outcome = "served"
    except Exception as x:
        outcome = "refused: %r" % x
daemon.shutdown()
if LOG:
    print("VIOLATION: attribute write 'level' %s; unexposed setter of unexposed class Sub ran: %r; "
          "Sub.level.fset._pyroExposed=%r" % (outcome, LOG, getattr(Sub.level.fset, "_pyroExposed", False)))
    sys.exit(1)
print("OK")
