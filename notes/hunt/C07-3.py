"""
C07-3: class-typed values inside an exception's args / custom attributes are not rebuilt by the
serpent and json serializers (SerializerBase.recreate_classes hands a dict that has "__class__"
straight to dict_to_class / make_exception without recursing into "args" and "attributes").
msgpack rebuilds them (object_hook works bottom-up), so the same remote exception arrives with
different content depending on the serializer.  Values used here all round-trip losslessly as
ordinary call results under every serializer: a Pyro5 URI and builtin exception instances.
  raise ValueError("bad uri", URI)             -> args[1] arrives as a raw {'__class__': 'Pyro5.core.URI', 'state': ...} dict
  e.uri = URI (custom attribute)               -> attribute arrives as that dict
  raise RuntimeError("wrapper", ValueError(..))-> args[1] arrives as {'__class__': 'builtins.ValueError', ...}
  raise ExceptionGroup("grp", [ValueError(1)]) -> the client cannot even build it: the caller gets a *local*
        ValueError('Item 0 of second argument (exceptions) is not an exception'), no remote traceback
Run: PYTHONPATH=/repo /venv/bin/python C07-3.py
"""
import sys, threading
import Pyro5.api, Pyro5.server, Pyro5.errors, Pyro5.core
from Pyro5 import config

URI = Pyro5.core.URI("PYRO:obj@host:5555")


def make(kind):
    if kind == "uri_arg":
        return ValueError("bad uri", URI)
    if kind == "uri_attr":
        e = ValueError("bad uri")
        e.uri = URI
        return e
    if kind == "nested_exc":
        return RuntimeError("wrapper", ValueError("inner"))
    if kind == "group":
        return ExceptionGroup("grp", [ValueError(1), KeyError("k")])


def same(a, b):
    """structural equality that also compares exception instances by type/args"""
    if isinstance(a, BaseException) or isinstance(b, BaseException):
        return type(a) is type(b) and same(a.args, b.args)
    if isinstance(a, (list, tuple)) and isinstance(b, (list, tuple)):
        return len(a) == len(b) and all(same(x, y) for x, y in zip(a, b))
    return type(a) is type(b) and a == b


@Pyro5.api.expose
class Thing:
    def ping(self):
        return "pong"

    def echo_uri(self):
        return URI

    def echo_exc(self):
        return ValueError("inner")

    def boom(self, kind):
        raise make(kind)


def start(servertype):
    config.SERVERTYPE = servertype
    d = Pyro5.server.Daemon(host="127.0.0.1", port=0)
    uri = d.register(Thing(), "thing")
    threading.Thread(target=d.requestLoop, daemon=True).start()
    return d, uri


bad = []
d, uri = start("thread")
for ser in ("serpent", "json", "msgpack"):
    config.SERIALIZER = ser
    with Pyro5.api.Proxy(uri) as p:
        p._pyroTimeout = 5
        # the values are in the serializer's lossless domain as ordinary results:
        assert p.echo_uri() == URI and same(p.echo_exc(), ValueError("inner")), ser
        for kind in ("uri_arg", "uri_attr", "nested_exc", "group"):
            want = make(kind)
            try:
                p.boom(kind)
                got = None
            except Exception as x:
                got = x
            attrs = {k: v for k, v in vars(got).items() if k != "_pyroTraceback"}
            ok = (type(got) is type(want) and same(got.args, want.args) and attrs == vars(want)
                  and bool(getattr(got, "_pyroTraceback", None)))
            print("%-8s %-10s -> %s args=%r attrs=%r remote_tb=%s %s" % (
                ser, kind, type(got).__name__, got.args, attrs, bool(getattr(got, "_pyroTraceback", None)), "" if ok else "   <-- differs"))
            if not ok:
                bad.append((ser, kind))
            assert p.ping() == "pong"
d.shutdown()

if bad:
    print("VIOLATION: args / custom attributes (or even the class) differ from the raised exception:", bad)
    sys.exit(1)
print("OK")
