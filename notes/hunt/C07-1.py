"""
C07-1: exception content that the wire serializer cannot encode *and* that also shows up in
str(exception) defeats the "generic PyroError" fallback of Daemon._sendExceptionResponse:
the fallback message embeds str(original), so the second serializer.dumps() fails exactly like
the first one, the exception escapes from handleRequest's except block, no reply is sent and the
server drops the connection.  Concrete content: a str holding a lone surrogate (what os.listdir /
os.fsdecode / sys.argv produce for undecodable bytes, or what a JSON peer can send as "\\udcff")
under the json and msgpack serializers.
Expected: the same ValueError, or at least a PyroError describing it, with remote traceback.
Observed: ConnectionClosedError('receiving: not enough data'), no traceback, for plain call,
property access and streamed item.  (serpent and marshal deliver the exception correctly.)
Run: PYTHONPATH=/repo /venv/bin/python C07-1.py
"""
import sys, os, threading
import Pyro5.api, Pyro5.server, Pyro5.errors
from Pyro5 import config

NAME = os.fsdecode(b"report-\xff.txt")     # 'report-\udcff.txt'


@Pyro5.api.expose
class Thing:
    def ping(self):
        return "pong"

    def boom(self):
        raise ValueError("cannot process file: " + NAME)

    @property
    def prop(self):
        raise ValueError("cannot process file: " + NAME)

    def gen(self):
        yield 1
        raise ValueError("cannot process file: " + NAME)


def start(servertype):
    config.SERVERTYPE = servertype
    d = Pyro5.server.Daemon(host="127.0.0.1", port=0)
    uri = d.register(Thing(), "thing")
    threading.Thread(target=d.requestLoop, daemon=True).start()
    return d, uri


def acceptable(x):
    if type(x) is ValueError and x.args == ("cannot process file: " + NAME,) and getattr(x, "_pyroTraceback", None):
        return True
    # fallback allowed by the property: a Pyro error that describes the original
    return isinstance(x, Pyro5.errors.PyroError) and "ValueError" in str(x) and "cannot process file" in str(x)


bad = []
for st in ("thread", "multiplex"):
    d, uri = start(st)
    for ser in ("serpent", "marshal", "json", "msgpack"):
        config.SERIALIZER = ser
        for kind in ("plain", "property", "stream"):
            p = Pyro5.api.Proxy(uri)
            p._pyroTimeout = 5
            try:
                if kind == "plain":
                    p.boom()
                elif kind == "property":
                    p.prop
                else:
                    it = p.gen()
                    next(it)
                    try:
                        next(it)
                    finally:
                        it.close()
                got = "no exception"
                ok = False
            except Exception as x:
                got = "%s%r tb=%s" % (type(x).__name__, x.args, bool(getattr(x, "_pyroTraceback", None)))
                ok = acceptable(x)
            print("%-9s %-8s %-8s -> %s" % (st, ser, kind, got))
            if not ok:
                bad.append((st, ser, kind))
            p._pyroRelease()
    d.shutdown()

if bad:
    print("VIOLATION: caller got neither the exception nor a Pyro error describing it (connection dropped):", bad)
    sys.exit(1)
print("OK")
