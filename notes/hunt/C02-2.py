"""
C02: class-level @expose on a subclass marks function objects that belong to an UNEXPOSED base class
(expose() walks clazz.__dict__, but a property derived with @Base.p.setter / an alias 'run = Base.helper'
carries the base class' own function objects).  Afterwards a different object, whose class never exposed
that member and merely inherits it from the unexposed base, serves it (and advertises it).
"""
import sys, threading
import Pyro5.server, Pyro5.client

LOG = []

class Base:                                  # NOT exposed, nothing in it is exposed
    @property
    def balance(self):
        LOG.append("Base.balance getter ran on %s" % type(self).__name__)
        return 42
    def helper(self):
        LOG.append("Base.helper ran on %s" % type(self).__name__)
        return "helper"

class Plain(Base):                           # exposes only ping; inherits balance/helper unexposed
    @Pyro5.server.expose
    def ping(self):
        return "pong"

def probe(uri):
    with Pyro5.client.Proxy(uri) as p:
        p._pyroBind()
        res = {"methods": sorted(p._pyroMethods), "attrs": sorted(p._pyroAttrs)}
        for kind, call in (("get balance", lambda: p._pyroInvoke("__getattr__", ("balance",), None)),
                           ("call helper", lambda: p._pyroInvoke("helper", (), {}))):
            try:
                res[kind] = ("served", call())
            except Exception as x:
                res[kind] = ("refused", type(x).__name__)
        return res

daemon = Pyro5.server.Daemon(host="127.0.0.1", port=0)
plain = Plain()
uri = daemon.register(plain, "plain")
threading.Thread(target=daemon.requestLoop, daemon=True).start()

before = probe(uri)
assert before["get balance"][0] == "refused" and before["call helper"][0] == "refused", before
assert not LOG

# Somewhere else in the program another subclass of Base is defined and exposed as a whole.
@Pyro5.server.expose
class Account(Base):
    @Base.balance.setter                     # adds a setter to the inherited read-only property
    def balance(self, value):
        pass
    run = Base.helper                        # re-publishes the inherited helper under another name

Pyro5.server._reset_exposed_members(plain)   # (metadata is cached per class; irrelevant for what is *served*)
after = probe(uri)
daemon.shutdown()

bad = [k for k in ("get balance", "call helper") if after[k][0] == "served"]
if bad:
    print("VIOLATION: object of class Plain (exposes only 'ping', inherits 'balance'/'helper' from unexposed Base) "
          "now serves %s after an unrelated sibling class was @expose'd; before=%r after=%r; target code ran: %r"
          % (bad, before, after, LOG))
    sys.exit(1)
print("OK")
