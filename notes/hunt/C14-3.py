"""C14 (arguably outside the letter: size limit, not alphabet): yplookup with a very large tag collection.
SqlStorage.optimized_metadata_search binds one SQL variable per requested tag; beyond SQLITE_MAX_VARIABLE_NUMBER
(999 on sqlite < 3.32, 32766 by default since, 250000 on Debian builds) the sqlite back-end raises NamingError
('too many SQL variables') while the memory back-end answers normally."""
import os, sys, tempfile
from Pyro5.nameserver import NameServer, MemoryStorage, SqlStorage
from Pyro5 import errors

U = "PYRO:obj@host:1"
d = tempfile.mkdtemp()
tags = [str(i) for i in range(300000)]
res = {}
for label, ns in (("memory", NameServer(MemoryStorage())), ("sqlite", NameServer(SqlStorage(os.path.join(d, "ns.db"))))):
    ns.register("a", U, metadata=["5"])
    try:
        res[label] = ("ok", sorted(ns.yplookup(meta_any=tags)))
    except errors.NamingError as x:
        res[label] = ("NamingError", str(x))
if res["memory"] != res["sqlite"]:
    print("VIOLATION: yplookup(meta_any=<300000 tags>) differs: memory=%r sqlite=%r" % (res["memory"], res["sqlite"]))
    sys.exit(1)
print("OK")
