"""C11: a call that fails because its RESULT cannot be serialized (here: the method returns a bare
object(); same for iterators/generators, which a normal call would stream) is a failing call when made
on its own: the caller gets an exception for call k and the one-by-one run stops there.  In a batch the
server only notices after the whole loop, when it serializes the result list: every call AFTER the
failing one has been executed too, and the results of the calls before it are lost."""
import sys, threading
import Pyro5.api as api
from Pyro5 import config

@api.expose
class Ref(object):
    def __init__(self):
        self.log = []
    def add(self, x):
        self.log.append(x)
        return len(self.log)
    def opaque(self):
        self.log.append("opaque")
        return object()
    def getlog(self):
        return list(self.log)

def run(serializer):
    config.SERIALIZER = serializer
    config.SERVERTYPE = "thread"
    calls = [("add", (1,)), ("opaque", ()), ("add", (2,)), ("add", (3,))]
    with api.Daemon(host="127.0.0.1", port=0) as d:
        u1 = d.register(Ref(), "seq")
        u2 = d.register(Ref(), "bat")
        threading.Thread(target=d.requestLoop, daemon=True).start()
        seq = []
        with api.Proxy(u1) as p:
            for name, args in calls:
                try:
                    seq.append(("ok", getattr(p, name)(*args)))
                except Exception as x:
                    seq.append(("exc", type(x).__name__))
                    break
            seq_state = p.getlog()
        bat = []
        with api.Proxy(u2) as p:
            b = api.BatchProxy(p)
            for name, args in calls:
                getattr(b, name)(*args)
            try:
                for r in b():
                    bat.append(("ok", r))
            except Exception as x:
                bat.append(("exc", type(x).__name__))
            bat_state = p.getlog()
        d.shutdown()
    if seq_state != bat_state:
        return "calls add(1),opaque(),add(2),add(3): one by one -> %r, object log %r;  batch -> %r, object log %r" % (
            seq, seq_state, bat, bat_state)

bad = False
for ser in ("serpent", "json", "marshal", "msgpack"):
    pr = run(ser)
    if pr:
        bad = True
        print("VIOLATION: [%s] %s" % (ser, pr))
if bad:
    sys.exit(1)
print("OK")
