"""C11 (re-used batch proxy): BatchProxy.__call__ clears its call list only AFTER a successful
submit.  When the submit raises (a private / unexposed / unknown member name makes the server answer
the whole batch with AttributeError), the already-executed prefix stays queued.  Re-using the batch
proxy for a new batch then re-executes the old prefix on the remote object (and fails again on the
old bad name), so the new calls are never executed: the effect and the results of the second batch
are not those of its calls made one by one."""
import sys, threading
import Pyro5.api as api
from Pyro5 import config

@api.expose
class Ref(object):
    def __init__(self):
        self.log = []
    def add(self, x):
        self.log.append(x)
        return len(self.log)
    def hidden_impl(self):  # placeholder
        return 0
    def getlog(self):
        return list(self.log)
Ref.hidden_impl._pyroExposed = False

def outcome(fn):
    try:
        return ("ok", fn())
    except Exception as x:
        return ("exc", type(x).__name__)

def run(serializer, badname):
    config.SERIALIZER = serializer
    config.SERVERTYPE = "thread"
    with api.Daemon(host="127.0.0.1", port=0) as d:
        u1 = d.register(Ref(), "seq")
        u2 = d.register(Ref(), "bat")
        threading.Thread(target=d.requestLoop, daemon=True).start()
        # reference: calls one by one.  first "batch" = add(1), <bad>(), add(2);  second "batch" = add(3), add(4)
        with api.Proxy(u1) as p:
            first_seq = []
            for fn in (lambda: p.add(1), lambda: p._pyroInvoke(badname, (), {}), lambda: p.add(2)):
                r = outcome(fn)
                first_seq.append(r)
                if r[0] == "exc":
                    break
            second_seq = [outcome(lambda: p.add(3)), outcome(lambda: p.add(4))]
            seq_state = p.getlog()
        with api.Proxy(u2) as p:
            b = api.BatchProxy(p)
            b.add(1); getattr(b, badname)(); b.add(2)
            first_bat = outcome(lambda: list(b()))
            # re-use the same batch proxy for the second batch
            b.add(3); b.add(4)
            second_bat = outcome(lambda: list(b()))
            bat_state = p.getlog()
        d.shutdown()
    if seq_state != bat_state:
        return ("bad name %r: first batch -> %r; re-used proxy, second batch [add(3), add(4)] -> %r "
                "(one by one: %r); object log sequential=%r batch=%r"
                % (badname, first_bat, second_bat, second_seq, seq_state, bat_state))

bad = False
for ser in ("serpent", "json", "marshal", "msgpack"):
    for name in ("_private", "hidden_impl", "nonexistent"):
        pr = run(ser, name)
        if pr:
            bad = True
            print("VIOLATION: [%s] %s" % (ser, pr))
if bad:
    sys.exit(1)
print("OK")
