"""C14: the entry registered under the empty-string name cannot be removed by name.
register("") / lookup("") / list() / set_metadata("") all treat "" as an ordinary key,
but remove(name="") tests `if name and ...` and so returns 0 and leaves the entry in place
(both back-ends).  A plain map would remove it and answer 1."""
import os, sys, tempfile
from Pyro5.nameserver import NameServer, MemoryStorage, SqlStorage

U = "PYRO:obj@host:1"
bad = []
d = tempfile.mkdtemp()
for label, ns in (("memory", NameServer(MemoryStorage())), ("sqlite", NameServer(SqlStorage(os.path.join(d, "ns.db"))))):
    ns.register("", U, metadata={"t"})
    assert str(ns.lookup("")) == U and "" in ns.list() and ns.count() == 1   # it IS an ordinary entry
    removed = ns.remove(name="")
    still = "" in ns.list()
    if removed != 1 or still:
        bad.append("%s: remove(name='') returned %r, entry still present: %r (expected 1 / False)" % (label, removed, still))
if bad:
    for b in bad:
        print("VIOLATION:", b)
    sys.exit(1)
print("OK")
