"""C16: register() with an id that cannot be put in a URI (whitespace) raises, but only after the object
was entered in the registry: the refused id is reported by registered(), dispatchable, and blocks the object."""
import sys, threading
import Pyro5.api as api, Pyro5.errors, Pyro5.core

@api.expose
class Obj:
    def who(self): return "obj"

d = api.Daemon(host="127.0.0.1")
threading.Thread(target=d.requestLoop, daemon=True).start()
o = Obj()
bad = []
try:
    d.register(o, "my obj")
    print("register accepted the id")
except Pyro5.errors.PyroError as x:
    with api.Proxy(d.uriFor(Pyro5.core.DAEMON_NAME)) as dp:
        ids = dp.registered()
    if "my obj" in ids:
        bad.append("register(o, 'my obj') raised %r but the daemon reports the id as registered: %s" % (x, ids))
    try:
        d.register(o, "fine")
    except Pyro5.errors.DaemonError as x2:
        bad.append("and a following register(o, 'fine') is refused: %s" % x2)
    # the half-registered object is reachable under the refused id
    p = api.Proxy(d.uriFor("placeholder")); p._pyroUri.object = "my obj"
    try:
        bad.append("and a call addressed to the refused id reaches the object: who() -> %s" % p.who())
    except Exception: pass
if bad:
    for b in bad: print("VIOLATION:", b)
    sys.exit(1)
print("OK"); sys.exit(0)
