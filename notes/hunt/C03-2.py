"""
C03 (arguably outside the letter: proxy over a caller-supplied socket): after ONE communication error (here a
reply delayed past the timeout) a Proxy created with connected_socket= never serves a call again, although the
transport (the socketpair) and the daemon are perfectly healthy.  _pyroRelease() drops the connection object
(without closing the kept-open socket) and every later call tries to *connect* to the placeholder location
'<<connected-socket>>:0' (a DNS lookup!) and fails with CommunicationError.
"""
import sys, socket, threading, time
import Pyro5.server, Pyro5.client, Pyro5.errors
from Pyro5 import config
config.MAX_RETRIES = 0

class T:
    @Pyro5.server.expose
    def slow(self, t):
        time.sleep(t); return "slow-done"
    @Pyro5.server.expose
    def echo(self, x):
        return x

s1, s2 = socket.socketpair()
d = Pyro5.server.Daemon(connected_socket=s1)
d.register(T(), "obj")
threading.Thread(target=d.requestLoop, daemon=True).start()
p = Pyro5.client.Proxy("obj", connected_socket=s2)
assert p.echo("tok-0") == "tok-0"
p._pyroTimeout = 0.3
try:
    p.slow(1.0)
    first = "returned"
except Pyro5.errors.CommunicationError as x:
    first = "%s: %s" % (type(x).__name__, x)
time.sleep(1.5)          # the late reply has long arrived; transport idle and healthy
outcomes = []
for i in range(1, 4):
    try:
        r = p.echo("tok-%d" % i)
        outcomes.append("ok" if r == "tok-%d" % i else "WRONG ANSWER %r" % (r,))
    except Exception as x:
        outcomes.append("%s: %s" % (type(x).__name__, x))
if outcomes[-1] != "ok":
    print("VIOLATION: first failure = %s; the 3 following calls on the same proxy, transport healthy: %r" % (first, outcomes))
    sys.exit(1)
print("OK")
