"""
C07-5: a custom attribute that happens to be called `pyroMsg` kills the error reply.
Daemon.handleRequest's except block does
    msg = getattr(xv, "pyroMsg", None)
    if msg: request_seq = msg.seq; request_serializer_id = msg.serializer_id
for *every* exception, assuming only protocol.recv_stub sets that attribute.  With
e = ValueError("boom"); e.pyroMsg = "text" the handler itself raises AttributeError, nothing is
sent, the connection is dropped: the caller sees ConnectionClosedError (all serializers, both servers).
Run: PYTHONPATH=/repo /venv/bin/python C07-5.py
"""
import sys, threading
import Pyro5.api, Pyro5.server, Pyro5.errors
from Pyro5 import config


@Pyro5.api.expose
class Thing:
    def ping(self):
        return "pong"

    def boom(self, attrname):
        e = ValueError("boom")
        setattr(e, attrname, "some text")
        raise e


bad = []
for st in ("thread", "multiplex"):
    config.SERVERTYPE = st
    d = Pyro5.server.Daemon(host="127.0.0.1", port=0)
    uri = d.register(Thing(), "thing")
    threading.Thread(target=d.requestLoop, daemon=True).start()
    for ser in ("serpent", "marshal", "json", "msgpack"):
        config.SERIALIZER = ser
        for attrname in ("detail", "pyroMsg"):
            with Pyro5.api.Proxy(uri) as p:
                p._pyroTimeout = 5
                try:
                    p.boom(attrname)
                    got = None
                except Exception as x:
                    got = x
                attrs = {k: v for k, v in vars(got).items() if k != "_pyroTraceback"}
                ok = type(got) is ValueError and got.args == ("boom",) and attrs == {attrname: "some text"}
                print("%-9s %-8s attribute %-8s -> %s%r attrs=%r" % (st, ser, attrname, type(got).__name__, got.args, attrs))
                if not ok:
                    bad.append((st, ser, attrname))
    d.shutdown()

if bad:
    print("VIOLATION: exception with a custom attribute named pyroMsg gets no reply:", bad)
    sys.exit(1)
print("OK")
