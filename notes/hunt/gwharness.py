"""shared harness for C20 scripts: name server + daemon on localhost, gateway driven in-process"""
import threading, io, sys, json, urllib.parse
import Pyro5.api as api, Pyro5.nameserver, Pyro5.server, Pyro5.core
from Pyro5 import config
from Pyro5.utils import httpgateway as gw

CALLS = []      # invocations on objects behind the gateway
NSLOG = []      # name server requests (method names)

@api.expose
class Thing:
    def __init__(self, name): self.name = name; self._title = "initial"
    def who(self): CALLS.append((self.name, "who", {})); return self.name
    def echo(self, message="DEFAULT"): CALLS.append((self.name, "echo", {"message": message})); return message
    def kw(self, **kw): CALLS.append((self.name, "kw", kw)); return kw
    def fail(self): CALLS.append((self.name, "fail", {})); raise ValueError("boom")
    @property
    def title(self): CALLS.append((self.name, "get title", {})); return self._title

def start(names):
    config.SERVERTYPE = "thread"
    nsuri, nsd, _ = Pyro5.nameserver.start_ns(host="127.0.0.1", port=0, enableBroadcast=False)
    config.NS_HOST = "127.0.0.1"; config.NS_PORT = nsuri.port
    orig = nsd.handleRequest
    # log NS traffic at the lookup level
    nsobj = nsd.nameserver
    for m in ("lookup", "list", "ping"):
        def mk(m, f):
            def wrapper(*a, **k):
                NSLOG.append((m, a, k)); return f(*a, **k)
            wrapper._pyroExposed = True
            return wrapper
        setattr(nsobj, m, mk(m, getattr(nsobj, m)))
    threading.Thread(target=nsd.requestLoop, daemon=True).start()
    d = api.Daemon(host="127.0.0.1")
    objs = {}
    for n in names:
        objs[n] = Thing(n)
        uri = d.register(objs[n])
        nsobj.register(n, uri)
    threading.Thread(target=d.requestLoop, daemon=True).start()
    gw._nameserver = None
    return nsd, d, objs

def request(method, path, query="", headers=None, body=b"", drop_query=False):
    environ = {"REQUEST_METHOD": method, "PATH_INFO": path, "QUERY_STRING": query,
               "wsgi.errors": io.StringIO(), "wsgi.input": io.BytesIO(body), "CONTENT_LENGTH": str(len(body)),
               "SERVER_NAME": "localhost", "SERVER_PORT": "8080", "wsgi.url_scheme": "http"}
    if drop_query: del environ["QUERY_STRING"]
    for k, v in (headers or {}).items():
        if k.lower() == "content-type": environ["CONTENT_TYPE"] = v
        else: environ["HTTP_" + k.upper().replace("-", "_")] = v
    out = {}
    def start_response(status, hdrs): out["status"] = status; out["headers"] = hdrs
    before_calls, before_ns = len(CALLS), len(NSLOG)
    chunks = gw.pyro_app(environ, start_response)
    body = b"".join(chunks)
    return out["status"], body, CALLS[before_calls:], NSLOG[before_ns:]
