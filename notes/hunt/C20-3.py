"""C20: the path is split with re.match(r"(.+)/(.+)") - not anchored at the end and '.' stops at a newline - so
everything from the first newline in the member part on is ignored: /pyro/http.obj/who%0Axyz invokes who().
(b)-leaning extras in the same script: POST form/JSON body parameters are ignored although documented."""
import sys
from gwharness import *
start(["http.obj"])
gw.pyro_app.ns_regex = r"http\."; gw.pyro_app.gateway_key = None
bad = []
st, body, calls, ns = request("GET", "/pyro/http.obj/who\nxyz/abc")
if calls:
    bad.append("GET /pyro/http.obj/who%%0Axyz/abc -> %s %r; the request names member 'who\\nxyz/abc' (or object 'http.obj/who\\nxyz') "
               "but who() of http.obj was invoked: %r" % (st, body, calls))
st, body, calls, ns = request("POST", "/pyro/http.obj/echo", "", {"Content-Type": "application/x-www-form-urlencoded"}, b"message=frombody")
if calls != [("http.obj", "echo", {"message": "frombody"})]:
    bad.append("[docs, not the property's letter] POST form parameter message=frombody not forwarded: %s %r %r" % (st, body, calls))
if bad:
    for b in bad: print("VIOLATION:", b)
    sys.exit(1)
print("OK"); sys.exit(0)
