"""C16: unregister(obj) / uriFor(obj) / proxyFor(obj) trust the stale _pyroId left on an object that is
no longer registered, and so hit whichever OTHER object holds that id now."""
import sys, threading
import Pyro5.api as api, Pyro5.errors

@api.expose
class Obj:
    def __init__(self, name): self.name = name
    def who(self): return self.name

@api.expose
class Cls:
    def who(self): return "Cls-instance"

d = api.Daemon(host="127.0.0.1")
threading.Thread(target=d.requestLoop, daemon=True).start()
bad = []

# history 1: A registered as "x", B takes the id over with force, then unregister(A)
A, B = Obj("A"), Obj("B")
d.register(A, "x"); d.register(B, "x", force=True)
try: d.unregister(A)
except Pyro5.errors.DaemonError: pass
if "x" not in d.objectsById:
    bad.append("h1: unregister(A) (A was displaced from id 'x' by a forced registration of B) removed B's registration")

# history 2: A registered as "y", unregistered by id, B registered as "y"; proxyFor(A)/uriFor(A)/unregister(A)
A, B = Obj("A"), Obj("B")
d.register(A, "y"); d.unregister("y"); d.register(B, "y")
try:
    who = d.proxyFor(A).who()
    bad.append("h2: proxyFor(A) for the unregistered A returned a proxy whose calls reach %s" % who)
except Pyro5.errors.DaemonError: pass
try:
    bad.append("h2: uriFor(A) for the unregistered A returned %s" % d.uriFor(A))
except Pyro5.errors.DaemonError: pass
try: d.unregister(A)
except Pyro5.errors.DaemonError: pass
if "y" not in d.objectsById:
    bad.append("h2: unregister(A) (A had been unregistered by id before) removed B's registration under 'y'")

# history 3: class registered as "c"; unregister(an unregistered instance of it)
d.register(Cls, "c")
inst = Cls()
try: d.unregister(inst)
except Pyro5.errors.DaemonError: pass
except AttributeError as x: bad.append("h3: unregister(instance) raised AttributeError: %s" % x)
if "c" not in d.objectsById:
    bad.append("h3: unregister(never-registered instance of Cls) removed the registration of the class Cls under 'c'")

if bad:
    for b in bad: print("VIOLATION:", b)
    sys.exit(1)
print("OK"); sys.exit(0)
