"""
C02 violation: a method-call request (normal / oneway / batch) naming an UNEXPOSED non-data descriptor
(functools.cached_property, or any descriptor that only defines __get__) runs the target object's getter code
and (for cached_property) mutates the object, although the request is refused.
Also: in an @expose'd class such a member is advertised (as a method) but never served.
"""
import sys, threading, time, functools
import Pyro5.api, Pyro5.server, Pyro5.client, Pyro5.errors
from Pyro5 import protocol

LOG = []

class lazy:                      # classic hand written non-data descriptor ("classproperty"/"lazy attribute" idiom)
    def __init__(self, f): self.f = f
    def __get__(self, obj, cls):
        if obj is None: return self
        return self.f(obj)

class Thing:                     # only ping is exposed
    @Pyro5.server.expose
    def ping(self):
        return "pong"
    @functools.cached_property
    def secret_token(self):
        LOG.append("cached_property getter ran")
        return 12345
    @lazy
    def lazy_secret(self):
        LOG.append("lazy getter ran")
        return 777

@Pyro5.server.expose
class Whole:                     # class-level expose
    def ping(self):
        return "pong"
    @functools.cached_property
    def config(self):
        LOG.append("Whole.config getter ran")
        return {"a": 1}

daemon = Pyro5.server.Daemon(host="127.0.0.1", port=0)
thing = Thing()
whole = Whole()
uri = daemon.register(thing, "thing")
uri2 = daemon.register(whole, "whole")
threading.Thread(target=daemon.requestLoop, daemon=True).start()

violations = []

def refused(call):
    try:
        r = call()
    except Exception as x:
        return True, repr(x)
    return False, repr(r)

with Pyro5.client.Proxy(uri) as p:
    p._pyroBind()
    meta = set(p._pyroMethods) | set(p._pyroAttrs)
    assert "secret_token" not in meta and "lazy_secret" not in meta, meta

    # 1. normal call
    LOG.clear(); before = dict(thing.__dict__)
    ok, what = refused(lambda: p._pyroInvoke("secret_token", (), {}))
    if LOG or thing.__dict__ != before:
        violations.append("normal call 'secret_token' (unexposed cached_property): refused=%s (%s) but getter ran: %s; "
                          "object __dict__ changed %r -> %r" % (ok, what, LOG[:], before, dict(thing.__dict__)))
    thing.__dict__.pop("secret_token", None)

    # 2. oneway call
    LOG.clear()
    p._pyroInvoke("secret_token", (), {}, flags=protocol.FLAGS_ONEWAY)
    p._pyroInvoke("ping", (), {})      # sync point: same connection, processed after the oneway request
    time.sleep(0.2)
    if LOG or "secret_token" in thing.__dict__:
        violations.append("oneway call 'secret_token': getter ran: %s, __dict__=%r" % (LOG[:], dict(thing.__dict__)))
    thing.__dict__.pop("secret_token", None)

    # 3. batch
    LOG.clear()
    ok, what = refused(lambda: list(p._pyroInvokeBatch([("secret_token", (), {})])))
    if LOG:
        violations.append("batch member 'secret_token': refused=%s but getter ran: %s" % (ok, LOG[:]))
    thing.__dict__.pop("secret_token", None)

    # 4. hand written non-data descriptor
    LOG.clear()
    ok, what = refused(lambda: p._pyroInvoke("lazy_secret", (), {}))
    if LOG:
        violations.append("normal call 'lazy_secret' (unexposed __get__-only descriptor): refused=%s but getter ran: %s" % (ok, LOG[:]))

with Pyro5.client.Proxy(uri2) as p:
    p._pyroBind()
    LOG.clear()
    advertised_m, advertised_a = set(p._pyroMethods), set(p._pyroAttrs)
    served_as_method, _ = refused(lambda: p._pyroInvoke("config", (), {}))
    served_as_method = not served_as_method
    whole.__dict__.pop("config", None)
    served_as_attr, _ = refused(lambda: p._pyroInvoke("__getattr__", ("config",), None))
    served_as_attr = not served_as_attr
    if ("config" in advertised_m or "config" in advertised_a) and not (served_as_method or served_as_attr):
        violations.append("class-level @expose: 'config' (cached_property) advertised (methods=%s attrs=%s) but neither "
                          "a method call nor an attribute read is served; getter log=%s"
                          % (sorted(advertised_m), sorted(advertised_a), LOG[:]))

daemon.shutdown()
if violations:
    for v in violations:
        print("VIOLATION:", v)
    sys.exit(1)
print("OK")
