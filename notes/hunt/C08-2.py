"""
C08-2: a handshake validator that raises a BaseException which is not an Exception
(SystemExit, KeyboardInterrupt, GeneratorExit; "raise any exception type") gets no CONNECTFAIL:
Daemon._handshake only catches Exception.  Thread server: the worker thread dies, the socket is
only closed when the job object is garbage collected, the peer sees a bare EOF.  Multiplex server:
the exception leaves Daemon.requestLoop, i.e. one rejected connection terminates the whole daemon.
Nothing is executed for the peer (that part of the property holds).
Run: PYTHONPATH=/repo /venv/bin/python C08-2.py
"""
import sys, socket, threading, time
import Pyro5.api, Pyro5.server, Pyro5.protocol as P
from Pyro5 import config, serializers

threading.excepthook = lambda a: None   # keep the output readable
LOG = []


@Pyro5.api.expose
class Thing:
    def ping(self):
        LOG.append("ping")
        return "pong"


def start(servertype, exc):
    config.SERVERTYPE = servertype

    class D(Pyro5.server.Daemon):
        def validateHandshake(self, conn, data):
            raise exc
    d = D(host="127.0.0.1", port=0)
    d.register(Thing(), "thing")
    t = threading.Thread(target=d.requestLoop, daemon=True)
    t.start()
    return d, t


def talk(d):
    host, port = d.locationStr.split(":")
    s = socket.create_connection((host, int(port)))
    s.settimeout(3)
    ser = serializers.serializers["serpent"]
    s.sendall(P.SendingMessage(P.MSG_CONNECT, 0, 1, 1, ser.dumps({"handshake": "hi", "object": "thing"})).data +
              P.SendingMessage(P.MSG_INVOKE, 0, 2, 1, ser.dumpsCall("thing", "ping", [], {})).data)
    buf = b""
    try:
        while True:
            c = s.recv(65536)
            if not c:
                state = "closed"
                break
            buf += c
    except socket.timeout:
        state = "still open"
    except OSError as x:
        state = "reset (%s)" % x
    s.close()
    if len(buf) >= 40:
        m = P.ReceivingMessage(buf[:40], buf[40:])
        return m.type, serializers.serializers_by_id[m.serializer_id].loads(m.data), state
    return None, buf, state


bad = []
for st in ("thread", "multiplex"):
    for exc in (PermissionError("control: ordinary exception"), SystemExit("go away"), KeyboardInterrupt("kbi"), GeneratorExit("ge")):
        d, t = start(st, exc)
        mtype, reason, state = talk(d)
        time.sleep(0.2)
        alive = t.is_alive()
        print("%-9s validator raises %-18s first reply type=%r reason=%r socket=%s executed=%r requestLoop alive=%s"
              % (st, type(exc).__name__, mtype, reason, state, LOG, alive))
        if mtype != P.MSG_CONNECTFAIL or LOG or not alive:
            bad.append((st, type(exc).__name__, "loop alive" if alive else "DAEMON LOOP DIED"))
        try:
            d.shutdown()
        except BaseException:
            pass

if bad:
    print("VIOLATION: no CONNECTFAIL for a validator raising a non-Exception BaseException:", bad)
    sys.exit(1)
print("OK")
