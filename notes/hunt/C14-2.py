"""C14: sqlite prefix listing/removal stops at an embedded NUL (U+0000) in a name; memory back-end does not.
SqlStorage.optimized_prefix_list uses  substr(name, 1, ?) = ?  and SQLite's substr() on TEXT stops at the
first NUL byte, so substr('a\\0b',1,2) is 'a', never equal to the bound prefix 'a\\0'.  Exact-name operations
(register / lookup / remove(name=) / list()) handle the same names fine on both back-ends, so the entries
exist but list(prefix=) does not see them and remove(prefix=) returns 0 and removes nothing."""
import os, sys, tempfile
from Pyro5.nameserver import NameServer, MemoryStorage, SqlStorage

U = "PYRO:obj@host:1"
d = tempfile.mkdtemp()
out = {}
for label, ns in (("memory", NameServer(MemoryStorage())), ("sqlite", NameServer(SqlStorage(os.path.join(d, "ns.db"))))):
    for n in ("a\x00b", "a\x00c", "ab", "a"):
        ns.register(n, U)
    listed = sorted(ns.list(prefix="a\x00"))
    removed = ns.remove(prefix="a\x00")
    remaining = sorted(ns.list())
    out[label] = (listed, removed, remaining)
expected = (["a\x00b", "a\x00c"], 2, ["a", "ab"])
bad = [(k, v) for k, v in out.items() if v != expected]
if bad:
    for k, v in bad:
        print("VIOLATION: %s back-end: list(prefix='a\\x00'), remove(prefix='a\\x00'), remaining = %r; expected %r" % (k, v, expected))
    sys.exit(1)
print("OK")
