"""C12 (client side): after a call the client observes annotations that were NOT on that call's reply.
Proxy._pyroInvoke clears current_context.response_annotations first and only THEN (re)connects when the
proxy has no connection (released proxy, copied proxy, proxy received from a server, automatic retry).
The handshake answer's annotations are stored in the context during that connect, and the call's own
reply only overwrites them `if msg.annotations:` -- so when the reply carries none (or the call is
oneway, or it raised) the client sees the handshake answer's annotations as if they came with the call."""
import sys, threading, time
import Pyro5.api as api
from Pyro5 import config
from Pyro5.callcontext import current_context

class HsDaemon(api.Daemon):
    def validateHandshake(self, conn, data):
        current_context.response_annotations = {"HSHK": b"handshake-answer-only"}
        return "hello"

@api.expose
class Obj(object):
    def plain(self):
        return "plain"           # sets no response annotations
    def boom(self):
        raise ValueError("boom")  # sets no response annotations
    @api.oneway
    def ow(self):
        pass

def observed():
    return {k: bytes(v) for k, v in current_context.response_annotations.items()}

def run(servertype):
    config.SERVERTYPE = servertype
    problems = []
    d = HsDaemon(host="127.0.0.1", port=0)
    uri = d.register(Obj(), "obj")
    threading.Thread(target=d.requestLoop, daemon=True).start()
    with api.Proxy(uri) as p:
        p._pyroBind()
        p.plain()
        connected = observed()          # reference: same call on a connected proxy
        if connected:
            problems.append("unexpected: connected call shows %r" % connected)
        for label, fn in (("plain()", lambda: p.plain()),
                          ("oneway ow()", lambda: p.ow()),
                          ("raising boom()", lambda: p.boom())):
            p._pyroRelease()            # proxy keeps its metadata; the next call reconnects inside _pyroInvoke
            try:
                fn()
            except ValueError:
                pass
            got = observed()
            if got != connected:
                problems.append("after %s on a released proxy the client observes %r; the reply to that call "
                                "carried %r (as seen for the same call on a connected proxy)" % (label, got, connected))
        time.sleep(0.1)
    d.shutdown()
    return problems

bad = False
for st in ("thread", "multiplex"):
    for pr in run(st):
        bad = True
        print("VIOLATION: [%s] %s" % (st, pr))
if bad:
    sys.exit(1)
print("OK")
