"""C16: register(obj, "Pyro.Daemon", force=True) replaces the daemon's own object (unregister() protects that id,
register() does not); afterwards no new connection to ANY id of this daemon can be made."""
import sys, threading
import Pyro5.api as api, Pyro5.errors, Pyro5.core

@api.expose
class Obj:
    def who(self): return "obj"

d = api.Daemon(host="127.0.0.1")
threading.Thread(target=d.requestLoop, daemon=True).start()
own = d.objectsById[Pyro5.core.DAEMON_NAME]
good = Obj(); uri = d.register(good, "good")
assert api.Proxy(uri).who() == "obj"
d.unregister(Pyro5.core.DAEMON_NAME)           # protected: silently ignored
assert d.objectsById[Pyro5.core.DAEMON_NAME] is own
bad = []
try:
    d.register(Obj(), Pyro5.core.DAEMON_NAME, force=True)
except Exception as x:
    print("refused:", repr(x))
if d.objectsById.get(Pyro5.core.DAEMON_NAME) is not own:
    bad.append("forced registration under the reserved id replaced the daemon's own object")
    try:
        api.Proxy(uri).who()
    except Exception as x:
        bad.append("after that, a call to the still registered id 'good' fails: %r" % x)
if bad:
    for b in bad: print("VIOLATION:", b)
    sys.exit(1)
print("OK"); sys.exit(0)
