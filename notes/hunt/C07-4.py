"""
C07-4: builtin exceptions that derive from BaseException but not from Exception
(SystemExit, KeyboardInterrupt, GeneratorExit - all three are in serializers.all_exceptions and
can be decoded by the client) never get an error reply: Daemon.handleRequest catches `Exception`
only (plain call, batch member, streamed item alike).
  thread server   : worker thread dies, connection dropped -> caller sees ConnectionClosedError
  multiplex server: the exception leaves Daemon.requestLoop -> the daemon stops serving, the caller
                    gets nothing at all (hangs forever without a proxy timeout) and the next call hangs too
Expected by the property: caller gets exactly that class with equal args and the remote traceback.
Run: PYTHONPATH=/repo /venv/bin/python C07-4.py
"""
import sys, threading, time
import Pyro5.api, Pyro5.server, Pyro5.errors
from Pyro5 import config

threading.excepthook = lambda a: None   # keep the output readable
EXC = {"SystemExit": SystemExit(3), "KeyboardInterrupt": KeyboardInterrupt("k"), "GeneratorExit": GeneratorExit("g"),
       "control ValueError": ValueError("v")}


@Pyro5.api.expose
class Thing:
    def ping(self):
        return "pong"

    def boom(self, name):
        raise EXC[name]


def start(servertype):
    config.SERVERTYPE = servertype
    d = Pyro5.server.Daemon(host="127.0.0.1", port=0)
    uri = d.register(Thing(), "thing")
    t = threading.Thread(target=d.requestLoop, daemon=True)
    t.start()
    return d, uri, t


bad = []
for st in ("thread", "multiplex"):
    for name, want in EXC.items():
        d, uri, t = start(st)
        p = Pyro5.api.Proxy(uri)
        p._pyroTimeout = 3      # without this the multiplex case blocks forever
        try:
            p.boom(name)
            got = None
        except BaseException as x:
            got = x
        ok = type(got) is type(want) and got.args == want.args and bool(getattr(got, "_pyroTraceback", None))
        try:
            nxt = p.ping()
        except BaseException as x:
            nxt = "FAILED %s" % type(x).__name__
        time.sleep(0.1)
        print("%-9s %-18s -> %s%r remote_tb=%s | next call: %s | requestLoop alive=%s" % (
            st, name, type(got).__name__, got.args, bool(getattr(got, "_pyroTraceback", None)), nxt, t.is_alive()))
        if not ok:
            bad.append((st, name, type(got).__name__, "loop alive" if t.is_alive() else "DAEMON LOOP DIED"))
        p._pyroRelease()
        try:
            d.shutdown()
        except BaseException:
            pass

if bad:
    print("VIOLATION: no error reply for builtin BaseException subclasses:", bad)
    sys.exit(1)
print("OK")
