"""
C03 violation (by the letter; inherent to the 16-bit sequence number): across the sequence wrap-around a stale
reply of an earlier call is accepted as the answer of a later call.  Call #1 and call #65537 on one proxy both
carry sequence number 1, the only thing the client checks.  Fault script: every message delivered, except that
the reply of call #65537 is replaced by a replay of the (recorded) reply of call #1.
The client returns call #1's answer for call #65537 without any error.
Full run makes 65537 real calls (about a minute).  With --fast the proxy's counter is moved forward after call #1
(p._pyroSeq = 65000) so that only ~540 calls are needed; the wire behaviour at the wrap is the same.
"""
import sys, socket, struct, threading
import Pyro5.server, Pyro5.client
from Pyro5 import config
from Pyro5 import protocol

config.MAX_RETRIES = 0
EXEC = {}

class Target:
    @Pyro5.server.expose
    def echo(self, token):
        EXEC[token] = EXEC.get(token, 0) + 1
        return "answer-to-" + token

daemon = Pyro5.server.Daemon(host="127.0.0.1", port=0)
uri = daemon.register(Target(), "target")
threading.Thread(target=daemon.requestLoop, daemon=True).start()
dhost, dport = daemon.locationStr.split(":")

# --- a forwarding fault injector between proxy and daemon ---
lsock = socket.socket(); lsock.bind(("127.0.0.1", 0)); lsock.listen(5)
fport = lsock.getsockname()[1]
state = {"recorded": None, "replayed": False}

def recv_exact(s, n):
    buf = b""
    while len(buf) < n:
        c = s.recv(n - len(buf))
        if not c:
            raise EOFError
        buf += c
    return buf

def pump_raw(src, dst):
    try:
        while True:
            c = src.recv(65536)
            if not c:
                break
            dst.sendall(c)
    except OSError:
        pass
    finally:
        for s in (src, dst):
            try: s.shutdown(socket.SHUT_RDWR)
            except OSError: pass

def pump_replies(src, dst):
    try:
        while True:
            hdr = recv_exact(src, 40)
            _, _, mtype, _, _, seq, dlen, alen, _, _, _ = struct.unpack(protocol._header_format, hdr)
            whole = hdr + recv_exact(src, dlen + alen)
            if mtype == protocol.MSG_RESULT and seq == 1:
                if state["recorded"] is None:
                    state["recorded"] = whole                 # reply of call #1, delivered normally
                else:
                    whole = state["recorded"]                 # reply of call #65537 replaced by the stale one
                    state["replayed"] = True
            dst.sendall(whole)
    except (EOFError, OSError):
        pass

def acceptor():
    while True:
        c, _ = lsock.accept()
        u = socket.create_connection((dhost, int(dport)))
        threading.Thread(target=pump_raw, args=(c, u), daemon=True).start()
        threading.Thread(target=pump_replies, args=(u, c), daemon=True).start()

threading.Thread(target=acceptor, daemon=True).start()

bad = None
with Pyro5.client.Proxy("PYRO:target@127.0.0.1:%d" % fport) as p:
    n = 0
    while n < 65537:
        n += 1
        token = "tok-%d" % n
        result = p.echo(token)
        if n == 1 and "--fast" in sys.argv:
            p._pyroSeq = 65000      # skip ahead: pretend calls #2..#65000 happened
            n = 65000
        if result != "answer-to-" + token:
            bad = (n, token, result, p._pyroSeq)
            break
daemon.shutdown()
if bad:
    n, token, result, seq = bad
    print("VIOLATION: call #%d (token %s, wire seq %d) returned %r, the replayed reply of call #1; no error raised. "
          "server executions: tok-1=%d, %s=%d" % (n, token, seq, result, EXEC.get("tok-1"), token, EXEC.get(token, 0)))
    sys.exit(1)
print("OK (replayed=%s)" % state["replayed"])
