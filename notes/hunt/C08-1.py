"""
C08-1: a failing JSON handshake whose failure reason contains a lone surrogate gets NO
CONNECTFAIL: the daemon dies inside its own error handler while encoding the reason
(json.dumps(..., ensure_ascii=False).encode("utf-8") -> UnicodeEncodeError), the socket is
just closed.  Two histories:
  (a) malformed payload: {"handshake": {"__class__": "\\udc80"}, "object": "thing"}
      -> SerializeError("unsupported serialized class: \\udc80") -> reason not encodable
  (b) well-formed payload, validator rejects and quotes a peer supplied string in its message
Expected (property): first reply is MSG_CONNECTFAIL carrying the reason, then close.
Observed: zero bytes, then EOF.  (Nothing is executed - that part holds.)
Run: PYTHONPATH=/repo /venv/bin/python C08-1.py
"""
import sys, socket, threading
import Pyro5.api, Pyro5.server, Pyro5.protocol as P
from Pyro5 import config, serializers

LOG = []


@Pyro5.api.expose
class Thing:
    def ping(self):
        LOG.append("ping")
        return "pong"


class D(Pyro5.server.Daemon):
    def validateHandshake(self, conn, data):
        if isinstance(data, dict) and "user" in data:
            raise ValueError("unknown user: " + data["user"])
        return "hello"


def start(servertype):
    config.SERVERTYPE = servertype
    d = D(host="127.0.0.1", port=0)
    d.register(Thing(), "thing")
    threading.Thread(target=d.requestLoop, daemon=True).start()
    return d


def talk(d, first_payload):
    host, port = d.locationStr.split(":")
    s = socket.create_connection((host, int(port)))
    s.settimeout(3)
    invoke = serializers.serializers["json"].dumpsCall("thing", "ping", [], {})
    s.sendall(P.SendingMessage(P.MSG_CONNECT, 0, 1, 3, first_payload).data +
              P.SendingMessage(P.MSG_INVOKE, 0, 2, 3, invoke).data)
    buf = b""
    try:
        while True:
            c = s.recv(65536)
            if not c:
                state = "closed"
                break
            buf += c
    except socket.timeout:
        state = "still open"
    except OSError as x:
        state = "reset (%s)" % x
    s.close()
    if len(buf) >= 40:
        m = P.ReceivingMessage(buf[:40], buf[40:])
        return m.type, serializers.serializers_by_id[m.serializer_id].loads(m.data), state
    return None, buf, state


bad = []
for st in ("thread", "multiplex"):
    d = start(st)
    histories = {
        "control: unknown class, ascii name": b'{"handshake": {"__class__": "nope.Nope"}, "object": "thing"}',
        "(a) unknown class, lone surrogate name": b'{"handshake": {"__class__": "\\udc80"}, "object": "thing"}',
        "(b) validator quotes peer string": b'{"handshake": {"user": "bob\\udcff"}, "object": "thing"}',
    }
    for name, payload in histories.items():
        mtype, reason, state = talk(d, payload)
        print("%-9s %-42s first reply type=%r reason=%r socket=%s executed=%r" % (st, name, mtype, reason, state, LOG))
        if mtype != P.MSG_CONNECTFAIL or LOG:
            bad.append((st, name))
    d.shutdown()

if bad:
    print("VIOLATION: no CONNECTFAIL (connection silently closed) for:", bad)
    sys.exit(1)
print("OK")
