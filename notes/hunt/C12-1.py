"""C12: response annotations of a DIFFERENT call are sent with a reply.
Client-side Proxy._pyroInvoke and the server-side request handler share the one thread-local
current_context.response_annotations.  When a remote method (serving client X) itself calls another
Pyro object through a proxy, the annotations that the *inner* method set for ITS reply are stored by the
proxy code into the serving thread's context -- and Daemon.handleRequest then sends them along with the
outer reply to client X.  (Annotations the outer method had set before the nested call are wiped.)"""
import sys, threading
import Pyro5.api as api
from Pyro5 import config
from Pyro5.callcontext import current_context

@api.expose
class Inner(object):
    def tag(self):
        current_context.response_annotations = {"INNR": b"for-the-outer-server-only"}
        return "inner"

@api.expose
class Outer(object):
    def __init__(self, inner_uri):
        self.inner_uri = inner_uri
    def plain(self):
        return "plain"
    def relay(self):
        # this method sets NO response annotations itself
        with api.Proxy(self.inner_uri) as p:
            return p.tag()
    def relay_with_own(self):
        current_context.response_annotations = {"OUTR": b"mine"}
        with api.Proxy(self.inner_uri) as p:
            return p.tag()

def run(servertype):
    config.SERVERTYPE = servertype
    problems = []
    d_in = api.Daemon(host="127.0.0.1", port=0)
    d_out = api.Daemon(host="127.0.0.1", port=0)
    inner_uri = d_in.register(Inner(), "inner")
    outer_uri = d_out.register(Outer(inner_uri), "outer")
    threading.Thread(target=d_in.requestLoop, daemon=True).start()
    threading.Thread(target=d_out.requestLoop, daemon=True).start()
    with api.Proxy(outer_uri) as p:
        p.plain()
        base = dict(current_context.response_annotations)
        p.relay()
        got = {k: bytes(v) for k, v in current_context.response_annotations.items()}
        if "INNR" in got:
            problems.append("reply to relay() (which set no annotations) carried %r: annotations set by Inner.tag for "
                            "its own reply to the outer server were sent to the outer server's client" % got)
        p.relay_with_own()
        got = {k: bytes(v) for k, v in current_context.response_annotations.items()}
        if "INNR" in got:
            problems.append("reply to relay_with_own() (which set OUTR) carried %r" % got)
    d_out.shutdown(); d_in.shutdown()
    return problems

bad = False
for st in ("thread", "multiplex"):
    for pr in run(st):
        bad = True
        print("VIOLATION: [%s] %s" % (st, pr))
if bad:
    sys.exit(1)
print("OK")
