"""C20: query parameters with an empty value are dropped before forwarding (parse_qs without keep_blank_values):
/pyro/http.obj/echo?message=  calls echo() WITHOUT the parameter, so the method silently uses its default."""
import sys
from gwharness import *
start(["http.obj"])
gw.pyro_app.ns_regex = r"http\."; gw.pyro_app.gateway_key = None
bad = []
st, body, calls, ns = request("GET", "/pyro/http.obj/echo", "message=")
if calls != [("http.obj", "echo", {"message": ""})]:
    bad.append("GET /pyro/http.obj/echo?message=  -> %s %r, invocation seen behind the gateway: %r (expected message='')" % (st, body, calls))
st, body, calls, ns = request("GET", "/pyro/http.obj/kw", "a=&b=1")
if calls != [("http.obj", "kw", {"a": "", "b": "1"})]:
    bad.append("GET /pyro/http.obj/kw?a=&b=1  -> %s %r, invocation: %r (expected a='' and b='1')" % (st, body, calls))
if bad:
    for b in bad: print("VIOLATION:", b)
    sys.exit(1)
print("OK"); sys.exit(0)
