"""C16 (arguably outside the letter): (a) an object whose CLASS is registered too: after the object itself is
unregistered it still arrives as a proxy - for the class id, reaching a different instance; (b) a registered
object that subclasses list/dict arrives by value with json and msgpack (as a proxy with serpent)."""
import sys, threading
import Pyro5.api as api
from Pyro5 import config

POOL = {}
@api.expose
class Giver:
    def give(self, what): return POOL[what]
@api.expose
class C:
    def __init__(self): self.n = "daemon-made instance"
    def who(self): return self.n
@api.expose
class L(list):
    def who(self): return "L"

d = api.Daemon(host="127.0.0.1")
threading.Thread(target=d.requestLoop, daemon=True).start()
guri = d.register(Giver(), "giver")
d.register(C, "C")
c1 = C(); c1.n = "c1"; POOL["c1"] = c1
d.register(c1, "c1"); d.unregister(c1)
POOL["l"] = L([1, 2]); d.register(POOL["l"], "l")
bad = []
for ser in ("serpent", "json", "msgpack"):
    config.SERIALIZER = ser
    with api.Proxy(guri) as g:
        try:
            r = g.give("c1")
            if isinstance(r, api.Proxy):
                bad.append("%s: unregistered c1 arrives as proxy %s; who() -> %r (not c1)" % (ser, r._pyroUri, r.who()))
        except Exception as x:
            pass   # by value (client cannot rebuild the class): fine
        r = g.give("l")
        if not isinstance(r, api.Proxy):
            bad.append("%s: registered list-subclass object arrives by value: %r" % (ser, r))
if bad:
    for b in bad: print("VIOLATION:", b)
    sys.exit(1)
print("OK"); sys.exit(0)
