"""C13: same root cause as C13-1 but without any re-entrant user code: a oneway call runs in its own thread
(_OnewayCallThread) with the connection as current_context.client.  If that thread calls track_resource()
(or untrack_resource()) while the server is inside SocketConnection.close() for that connection - the client
did a fire-and-forget call and released the proxy, and closing a resource takes a little time - the WeakSet
changes size during the close loop: RuntimeError, remaining resources are never closed, and on the multiplex
server the request loop dies."""
import sys, time, threading, collections
import Pyro5.api, Pyro5.server
from Pyro5 import config
from Pyro5.callcontext import current_context

CLOSES = collections.Counter()
KEEP = []


class Res(object):
    def __init__(self, name, delay=0.0):
        self.name = name
        self.delay = delay

    def close(self):
        time.sleep(self.delay)          # closing a real resource is not instantaneous
        CLOSES[self.name] += 1


@Pyro5.server.expose
@Pyro5.server.behavior(instance_mode="session")
class Svc(object):
    def make(self, names, delay):
        for n in names:
            r = Res(n, delay)
            KEEP.append(r)
            current_context.track_resource(r)

    @Pyro5.server.oneway
    def background(self, name, after):
        time.sleep(after)               # some background work, then it allocates a resource for its client
        r = Res(name)
        KEEP.append(r)
        current_context.track_resource(r)

    def ping(self):
        return "pong"


problems = []
for servertype in ("thread", "multiplex"):
    CLOSES.clear()
    config.SERVERTYPE = servertype
    d = Pyro5.server.Daemon(host="127.0.0.1", port=0)
    uri = d.register(Svc, "svc")
    t = threading.Thread(target=d.requestLoop, daemon=True)
    t.start()
    other = Pyro5.api.Proxy(uri)
    other._pyroTimeout = 3
    other.ping()
    p = Pyro5.api.Proxy(uri)
    names = ["s1", "s2", "s3", "s4"]
    p.make(names, 0.3)
    p.background("late", 0.45)              # oneway
    p._pyroRelease()
    time.sleep(3.0)
    closed = {n: CLOSES[n] for n in names}
    if any(c != 1 for c in closed.values()):
        problems.append("%s server: close() counts of the resources tracked before the connection ended: %r (expected 1 each)" % (servertype, closed))
    if not t.is_alive():
        problems.append("%s server: the request loop thread died" % servertype)
    try:
        other.ping()
    except Exception as x:
        problems.append("%s server: the other, still open connection is no longer served: %s" % (servertype, type(x).__name__))
    try:
        d.close()
    except Exception:
        pass

if problems:
    for pr in problems:
        print("VIOLATION:", pr)
    sys.exit(1)
print("OK")
