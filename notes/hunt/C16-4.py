"""C16 (serpent only): registering ONE object of a class replaces the class's serpent by-value converter
(SerializerBase.register_class_to_dict) for good: after unregistration the object - and every other,
never registered, instance of the class - no longer travels by value the way it did before; json/msgpack keep working."""
import sys, threading
import Pyro5.api as api, Pyro5.errors
from Pyro5 import config
from Pyro5.serializers import SerializerBase

POOL = {}
@api.expose
class Giver:
    def give(self, what): return POOL[what]

@api.expose
class K:
    def __init__(self, n): self.n = n
    def who(self): return self.n
SerializerBase.register_class_to_dict(K, lambda o: {"__class__": "K-by-value", "n": o.n})
SerializerBase.register_dict_to_class("K-by-value", lambda cn, d: ("K-by-value", d["n"]))

d = api.Daemon(host="127.0.0.1")
threading.Thread(target=d.requestLoop, daemon=True).start()
guri = d.register(Giver(), "giver")
POOL["k0"], POOL["k1"] = K("k0"), K("k1")

def fetch(ser, what):
    config.SERIALIZER = ser
    with api.Proxy(guri) as g:
        try: return g.give(what)
        except Exception as x: return "raised %r" % x

bad = []
for ser in ("serpent", "json", "msgpack"):
    assert fetch(ser, "k1") == ("K-by-value", "k1"), (ser, fetch(ser, "k1"))
d.register(POOL["k1"], "k1")
for ser in ("serpent", "json", "msgpack"):
    assert isinstance(fetch(ser, "k1"), api.Proxy)
d.unregister(POOL["k1"])
for ser in ("serpent", "json", "msgpack"):
    for what in ("k1", "k0"):
        r = fetch(ser, what)
        if r != ("K-by-value", what):
            bad.append("%s: %s (%s) no longer travels by value as before the registration: %s"
                       % (ser, what, "registered+unregistered" if what == "k1" else "never registered", r))
if bad:
    for b in bad: print("VIOLATION:", b)
    sys.exit(1)
print("OK"); sys.exit(0)
