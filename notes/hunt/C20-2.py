"""C20: non-ASCII object names. WSGI hands PATH_INFO over as bytes-decoded-as-latin-1; the gateway uses it as is,
so GET /pyro/http.caf%C3%A9/who looks up (pattern-checks, invokes) the object named 'http.cafÃ©', not 'http.café'.
Driven through a real wsgiref server on localhost so that the environ is what a server really produces."""
import sys, urllib.request, urllib.error, urllib.parse
from wsgiref.simple_server import make_server, WSGIRequestHandler
from gwharness import *
class Quiet(WSGIRequestHandler):
    def log_message(self, *a): pass
NAME = "http.café"
MOJI = NAME.encode("utf-8").decode("latin-1")
start([NAME, MOJI])
gw.pyro_app.ns_regex = r"http\."; gw.pyro_app.gateway_key = None
srv = make_server("127.0.0.1", 0, gw.pyro_app, handler_class=Quiet)
result = {}
def serve():
    srv.handle_request()
t = threading.Thread(target=serve, daemon=True); t.start()
url = "http://127.0.0.1:%d/pyro/%s/who" % (srv.server_address[1], urllib.parse.quote(NAME))
try:
    body = urllib.request.urlopen(url).read().decode("utf-8"); status = 200
except urllib.error.HTTPError as e:
    body = e.read().decode("utf-8", "replace"); status = e.code
t.join(5)
lookups = [a[0] for (m, a, k) in NSLOG if m == "lookup"]
if CALLS != [(NAME, "who", {})]:
    print("VIOLATION: GET %s -> %s %s; name server lookups: %r; invocations: %r (expected exactly one who() on %r)"
          % (url, status, body[:80], lookups, CALLS, NAME))
    sys.exit(1)
print("OK"); sys.exit(0)
