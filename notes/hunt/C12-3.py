"""C12 (context leak between clients, correlation id; outside the letter of the annotation sentence):
Daemon._handshake sets current_context.correlation_id only after the CONNECT message was received
and accepted.  When receiving fails with a protocol error (wrong message type / bad version), the
CONNECTFAIL answer is still built by SendingMessage, which stamps the thread's *current* correlation id
on it: the id of the last request that thread served -- a request of a different client."""
import sys, threading, socket, uuid, time
import Pyro5.api as api
from Pyro5 import config, protocol, socketutil
from Pyro5.callcontext import current_context

@api.expose
class Obj(object):
    def corr(self):
        return str(current_context.correlation_id)

def run(servertype):
    config.SERVERTYPE = servertype
    config.THREADPOOL_SIZE_MIN = 1   # thread server: the one idle worker that served A also takes B
    problems = []
    d = api.Daemon(host="127.0.0.1", port=0)
    uri = d.register(Obj(), "obj")
    threading.Thread(target=d.requestLoop, daemon=True).start()
    host, port = d.sock.getsockname()[:2]
    # client A: a call with its own correlation id
    secret = uuid.uuid4()
    current_context.correlation_id = secret
    with api.Proxy(uri) as p:
        assert p.corr() == str(secret)
    current_context.correlation_id = None
    time.sleep(0.2)   # (thread server: let the worker that served A become idle again)
    # client B: new connection, first message is not a CONNECT message, and carries NO correlation id
    s = socket.create_connection((host, port))
    conn = socketutil.SocketConnection(s)
    bogus = protocol.SendingMessage(protocol.MSG_INVOKE, 0, 7, 1, b"x" * 50)
    assert not (int.from_bytes(bogus.data[8:10], "big") & protocol.FLAGS_CORR_ID)
    conn.send(bogus.data)
    reply = protocol.recv_stub(conn, [protocol.MSG_CONNECTFAIL, protocol.MSG_CONNECTOK])
    conn.close()
    if reply.flags & protocol.FLAGS_CORR_ID and bytes(reply.corr_id) == secret.bytes:
        problems.append("CONNECTFAIL answer to client B carries correlation id %s = the id of client A's earlier call"
                        % uuid.UUID(bytes=bytes(reply.corr_id)))
    d.shutdown()
    return problems

bad = False
for st in ("thread", "multiplex"):
    for pr in run(st):
        bad = True
        print("VIOLATION: [%s] %s" % (st, pr))
if bad:
    sys.exit(1)
print("OK")
