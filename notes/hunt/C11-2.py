"""C11: on a class registered with instance_mode="percall", a batch runs ALL its calls on ONE
instance (server.py resolves the instance once, before the batch loop), whereas the same calls
made one by one each get a fresh instance.  Results (and the per-instance state seen by the
calls) differ."""
import sys, threading
import Pyro5.api as api
from Pyro5 import config

created = []

@api.behavior(instance_mode="percall")
@api.expose
class Counter(object):
    def __init__(self):
        self.n = 0
        created.append(self)
    def inc(self, k):
        self.n += k
        return self.n

def run(serializer, servertype):
    config.SERIALIZER = serializer
    config.SERVERTYPE = servertype
    with api.Daemon(host="127.0.0.1", port=0) as d:
        uri = d.register(Counter, "ctr")
        threading.Thread(target=d.requestLoop, daemon=True).start()
        args = [1, 10, 100]
        del created[:]
        with api.Proxy(uri) as p:
            seq = [p.inc(k) for k in args]
        seq_instances = len(created)
        del created[:]
        with api.Proxy(uri) as p:
            b = api.BatchProxy(p)
            for k in args:
                b.inc(k)
            bat = list(b())
        bat_instances = len(created)
        d.shutdown()
    if seq != bat or seq_instances != bat_instances:
        return "percall class, calls inc(1),inc(10),inc(100): sequential results=%r (%d instances) batch results=%r (%d instances)" % (
            seq, seq_instances, bat, bat_instances)

bad = False
for st in ("thread", "multiplex"):
    for ser in ("serpent", "json", "marshal", "msgpack"):
        pr = run(ser, st)
        if pr:
            bad = True
            print("VIOLATION: [%s/%s] %s" % (st, ser, pr))
if bad:
    sys.exit(1)
print("OK")
