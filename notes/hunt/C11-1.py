"""C11: a method marked @oneway inside a NORMAL batch is executed synchronously:
its return value is delivered (sequentially the proxy returns None), and when it raises,
the exception is delivered and the rest of the batch is NOT executed (sequentially the
exception is swallowed in the oneway thread and the following calls all run)."""
import sys, threading, time
import Pyro5.api as api
from Pyro5 import config

@api.expose
class Ref(object):
    def __init__(self):
        self.log = []
    def add(self, x):
        self.log.append(x)
        return len(self.log)
    @api.oneway
    def ow_ok(self, x):
        self.log.append(("ow", x))
        return 42
    @api.oneway
    def ow_bad(self, x):
        self.log.append(("owbad", x))
        raise ValueError("oneway failed %r" % (x,))
    def getlog(self):
        return list(self.log)

def run(serializer):
    config.SERIALIZER = serializer
    config.SERVERTYPE = "thread"
    problems = []
    with api.Daemon(host="127.0.0.1", port=0) as d:
        seq_obj, bat_obj = Ref(), Ref()
        u1 = d.register(seq_obj, "seq")
        u2 = d.register(bat_obj, "bat")
        t = threading.Thread(target=d.requestLoop, daemon=True)
        t.start()
        calls = [("add", 1), ("ow_ok", 2), ("add", 3), ("ow_bad", 4), ("add", 5)]
        # sequential reference run
        seq_results = []
        with api.Proxy(u1) as p:
            for name, arg in calls:
                try:
                    seq_results.append(("ok", getattr(p, name)(arg)))
                except Exception as x:
                    seq_results.append(("exc", type(x).__name__))
                    break
                time.sleep(0.1)  # let the oneway thread finish, keeps the reference order deterministic
            time.sleep(0.2)
            seq_state = p.getlog()
        # batch run
        bat_results = []
        with api.Proxy(u2) as p:
            b = api.BatchProxy(p)
            for name, arg in calls:
                getattr(b, name)(arg)
            try:
                for r in b():
                    bat_results.append(("ok", r))
            except Exception as x:
                bat_results.append(("exc", type(x).__name__))
            time.sleep(0.2)
            bat_state = p.getlog()
        d.shutdown()
    if seq_results != bat_results:
        problems.append("results differ: sequential=%r batch=%r" % (seq_results, bat_results))
    if seq_state != bat_state:
        problems.append("object state differs: sequential=%r batch=%r" % (seq_state, bat_state))
    return problems

bad = False
for ser in ("serpent", "json", "marshal", "msgpack"):
    for pr in run(ser):
        bad = True
        print("VIOLATION: [%s] %s" % (ser, pr))
if bad:
    sys.exit(1)
print("OK")
