"""C13: a tracked resource whose close() calls current_context.untrack_resource(self) (a natural way to share one
close() between 'client freed it explicitly' and 'connection dropped') aborts SocketConnection.close():
close() iterates the WeakSet tracked_resources directly, untrack_resource() discards from that same set,
and the next iteration step raises RuntimeError('Set changed size during iteration') OUTSIDE the suppress block.
Effect: the remaining resources of the ended connection are never closed (tracked_resources.clear() is skipped
too), the thread-pool worker logs 'unhandled exception from job', and on the multiplex server the RuntimeError
escapes events()/loop() and terminates the daemon's request loop, so every other open connection stops being served."""
import sys, time, threading, collections
import Pyro5.api, Pyro5.server
from Pyro5 import config
from Pyro5.callcontext import current_context

CLOSES = collections.Counter()
KEEP = []          # strong refs: tracking is weak


class Res(object):
    def __init__(self, name):
        self.name = name

    def close(self):
        CLOSES[self.name] += 1
        current_context.untrack_resource(self)     # "I am closed now, no need to track me any longer"


class D(Pyro5.server.Daemon):
    def __init__(self, *a, **k):
        super().__init__(*a, **k)
        self.disc = collections.Counter()

    def clientDisconnect(self, conn):
        self.disc[id(conn)] += 1


@Pyro5.server.expose
@Pyro5.server.behavior(instance_mode="session")
class Svc(object):
    def make(self, names):
        for n in names:
            r = Res(n)
            KEEP.append(r)
            current_context.track_resource(r)

    def ping(self):
        return "pong"


problems = []
for servertype in ("thread", "multiplex"):
    CLOSES.clear()
    config.SERVERTYPE = servertype
    d = D(host="127.0.0.1", port=0)
    uri = d.register(Svc, "svc")
    t = threading.Thread(target=d.requestLoop, daemon=True)
    t.start()
    other = Pyro5.api.Proxy(uri)
    other._pyroTimeout = 3
    other.make(["other-" + servertype])                 # a second connection that stays open
    p = Pyro5.api.Proxy(uri)
    names = ["a", "b", "c", "d"]
    p.make(names)
    p._pyroRelease()                        # orderly release of the first connection
    time.sleep(1.0)
    closed = {n: CLOSES[n] for n in names}
    if any(c != 1 for c in closed.values()):
        problems.append("%s server: close() counts of the 4 resources tracked on the released connection: %r (expected 1 each)" % (servertype, closed))
    if not t.is_alive():
        problems.append("%s server: the request loop thread died after the connection ended" % servertype)
    try:
        other.ping()
    except Exception as x:
        problems.append("%s server: the other, still open connection is no longer served: %s" % (servertype, type(x).__name__))
    if CLOSES["other-" + servertype]:
        problems.append("%s server: resource of the open connection was closed" % servertype)
    try:
        d.close()
    except Exception:
        pass

if problems:
    for pr in problems:
        print("VIOLATION:", pr)
    sys.exit(1)
print("OK")
