"""C13 (borderline): tracked_resources is a WeakSet, i.e. keyed on __eq__/__hash__, not identity.  Two distinct
resources that compare equal (e.g. handles identified by a key) collapse into one entry: the second is never
closed when the connection ends (and untrack_resource(second) would silently untrack the first)."""
import sys, time, threading, collections
import Pyro5.api, Pyro5.server
from Pyro5 import config
from Pyro5.callcontext import current_context

CLOSES = collections.Counter()
KEEP = []


class Handle(object):
    def __init__(self, name, key):
        self.name, self.key = name, key

    def __eq__(self, other):
        return isinstance(other, Handle) and other.key == self.key

    def __hash__(self):
        return hash(self.key)

    def close(self):
        CLOSES[self.name] += 1


@Pyro5.server.expose
class Svc(object):
    def make(self):
        for n in ("h1", "h2"):
            r = Handle(n, "same-key")
            KEEP.append(r)
            current_context.track_resource(r)


problems = []
for servertype in ("thread", "multiplex"):
    CLOSES.clear()
    config.SERVERTYPE = servertype
    d = Pyro5.server.Daemon(host="127.0.0.1", port=0)
    uri = d.register(Svc, "svc")
    threading.Thread(target=d.requestLoop, daemon=True).start()
    p = Pyro5.api.Proxy(uri)
    p.make()
    p._pyroRelease()
    time.sleep(0.5)
    got = {n: CLOSES[n] for n in ("h1", "h2")}
    if got != {"h1": 1, "h2": 1}:
        problems.append("%s server: two distinct (but equal) resources tracked, close() counts %r (expected 1 each)" % (servertype, got))
    d.close()
if problems:
    for pr in problems:
        print("VIOLATION:", pr)
    sys.exit(1)
print("OK")
