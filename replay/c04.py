"""Native harness for C04 (bounded): hostile class-tagged payload trees decoded by the REAL serializers on both decoding paths
(loadsCall / loads), each payload decoded twice; observes (1) the types reachable in what comes back against the closed set of the property,
(2) interpreter audit events (import, exec, compile, open, socket, subprocess, os.system ...) raised while a decoding function is on the stack,
(3) that decoding writes neither the exception whitelist nor the converter registry, (4) that a registered converter is called for exactly its tag.
modes: quick | thorough | find      output: last line = JSON report"""
import builtins
import datetime
import decimal
import json
import os
import random
import sqlite3
import struct
import sys
import tempfile
import time
import uuid

import Pyro5.core as core
import Pyro5.client as client
import Pyro5.server as server
import Pyro5.errors as errors
import Pyro5.serializers as serializers
from Pyro5.serializers import SerializerBase

PLAIN = (type(None), bool, int, float, complex, str, bytes, bytearray, list, tuple, set, frozenset, dict,
         datetime.datetime, datetime.date, datetime.time, datetime.timedelta, decimal.Decimal, uuid.UUID)
OWN = (core.URI, client.Proxy, server.Daemon, serializers.SerpentSerializer, serializers.MarshalSerializer, serializers.JsonSerializer,
       serializers.MsgpackSerializer, core._ExceptionWrapper)
EXC_MODULES = ("builtins", "Pyro5.errors", "sqlite3", "struct")
DECODING = {"dict_to_class", "make_exception", "recreate_classes", "object_hook", "ext_hook", "__setstate__"}
BAD_EVENTS = ("import", "exec", "compile", "open", "socket.", "subprocess.", "os.system", "os.exec", "os.posix_spawn", "os.spawn", "os.fork",
              "ctypes.", "pty.spawn", "code.__new__", "os.startfile", "webbrowser.open", "os.remove", "os.rename", "shutil.")

_audit = {"on": False, "hits": []}


def _hook(event, args):
    if not _audit["on"]:
        return
    if not event.startswith(BAD_EVENTS):
        return
    f = sys._getframe(1)
    inside = False
    while f is not None:
        if f.f_code.co_name in DECODING and ("Pyro5" in f.f_code.co_filename):
            inside = True
            break
        f = f.f_back
    if inside:
        _audit["hits"].append("%s%r" % (event, tuple(str(a)[:60] for a in args[:2])))


sys.addaudithook(_hook)


class Local(object):
    """a test-local application class: must never be built by decoding"""
    built = 0

    def __init__(self, *a, **k):
        Local.built += 1


def bad_types(v, depth=0, seen=None):
    """types reachable in a decoded value that are outside the closed set"""
    seen = seen if seen is not None else set()
    if id(v) in seen or depth > 12:
        return []
    seen.add(id(v))
    t = type(v)
    out = []
    if t in PLAIN:
        if t in (list, tuple, set, frozenset):
            for x in v:
                out.extend(bad_types(x, depth + 1, seen))
        elif t is dict:
            for k, x in v.items():
                out.extend(bad_types(k, depth + 1, seen))
                out.extend(bad_types(x, depth + 1, seen))
        return out
    if t in OWN:
        if t is core._ExceptionWrapper:
            out.extend(bad_types(v.exception, depth + 1, seen))
        return out
    if isinstance(v, BaseException) and t.__module__ in EXC_MODULES:
        for x in v.args:
            out.extend(bad_types(x, depth + 1, seen))
        for k, x in vars(v).items():
            out.extend(bad_types(x, depth + 1, seen))
        return out
    return ["%s.%s" % (t.__module__, t.__qualname__)]


def tag_sites(tree, path=()):
    """positions of class-tagged dicts in a payload tree (outermost only: what is below a tagged dict is that class's business)"""
    if isinstance(tree, dict):
        if "__class__" in tree:
            return [path]
        out = []
        for k, v in tree.items():
            out.extend(tag_sites(v, path + (k,)))
        return out
    if isinstance(tree, (list, tuple)):
        out = []
        for i, v in enumerate(tree):
            out.extend(tag_sites(v, path + (i,)))
        return out
    return []


def at(v, path):
    for p in path:
        v = v[p]
    return v


def expected_class(tag, table):
    """the exception class a tag names, per the property: a whitelist entry, or <namespace>.<Name> in builtins / Pyro5.errors / sqlite3 / struct"""
    if tag in table:
        return table[tag]
    ns, _, name = tag.rpartition(".")
    mod = {"builtins": builtins, "exceptions": builtins, "Pyro5.errors": errors, "sqlite3": sqlite3, "struct": struct}.get(ns)
    return getattr(mod, name, None) if mod is not None else None


CONVERTED = []


def converter(classname, data):
    CONVERTED.append(classname)
    return ("converted", classname)


REG_TAGS = ("app.Thing", "my__dunder.Thing")


def tags(mode, rnd):
    names = sorted(set(dir(builtins)))
    t = ["builtins.open", "builtins.eval", "builtins.exec", "builtins.compile", "builtins.__import__", "builtins.type", "builtins.object", "builtins.input",
         "os.system", "os.remove", "subprocess.Popen", "subprocess.call", "socket.socket", "socket.create_connection", "importlib.import_module",
         "Pyro5.server.Daemon", "Pyro5.core.URI", "Pyro5.client.Proxy", "Pyro5.util.SerpentSerializer", "Pyro5.util.MarshalSerializer",
         "Pyro5.util.JsonSerializer", "Pyro5.util.MsgpackSerializer", "Pyro5.util.Other", "Pyro5.errors.NamingError", "Pyro5.errors.PyroError",
         "Pyro5.errors.get_pyro_traceback", "Pyro5.errors.sys", "Pyro5.errors.traceback", "Pyro5.errors.config", "Pyro5.errors.", "Pyro5.errors.NamingError.mro",
         "Pyro5.errors.__builtins__", "Pyro5.errorsX.NamingError", "xPyro5.errors.NamingError", "Pyro5.nameserver.NameServer", "Pyro5.server.DaemonObject",
         "Pyro5.core._ExceptionWrapper", "Pyro5.socketutil.SocketConnection", "Pyro5.client.BatchProxy", "Pyro5.client.SerializedBlob",
         "exceptions.ValueError", "builtins.ValueError", "ValueError", "exceptions.open", "builtins.KeyboardInterrupt", "builtins.SystemExit", "builtins.BaseException",
         "builtins.ValueError.mro", "builtins.", ".ValueError", "builtins..ValueError", "sqlite3.OperationalError", "sqlite3.connect", "sqlite3.Error", "sqlite3.Connection",
         "sqlite3.dbapi2.Error", "sqlite3.xError", "struct.error", "struct.Struct", "struct.pack", "float", "int", "decimal.Decimal", "uuid.UUID", "datetime.datetime",
         "%s.Local" % __name__, "__main__.Local", "replay.c04.Local", "c04.Local", "builtins.__loader__", "builtins.__build_class__", "builtins.__spec__",
         "Pyro5.errors.PyroError.__class__", "builtins.ValueError.__subclasses__", "__class__", "____", "a__b", "app.Thing", "x.app.Thing", "app.Thing.x", "App.Thing", "Thing",
         "my__dunder.Thing", "x.my__dunder.Thing", "", ".", "<unknown>", "é.è", "builtins.open\x00", " builtins.ValueError", "builtins.ValueError "]
    if mode != "quick":
        for ns in ("builtins", "exceptions", "Pyro5.errors", "sqlite3", "struct", "Pyro5.util", "os"):
            for n in names + sorted(dir(errors)) + sorted(dir(sqlite3))[::3]:
                t.append(ns + "." + n)
    else:
        for ns in ("builtins", "Pyro5.errors", "sqlite3"):
            for n in (names + sorted(dir(errors)))[::4]:
                t.append(ns + "." + n)
    return t


def bodies(tag, marker):
    """payload bodies for a tag: exception-flagged or not, with hostile args / attributes / state"""
    hostile_args = [(marker, "w"), ("echo pwned > %s" % marker,), (), ({"__class__": "builtins.open", "__exception__": True, "args": (marker, "w")},)]
    out = []
    for flag in (True, False, None):
        for args in hostile_args[:2 if flag is not True else 4]:
            d = {"__class__": tag, "args": args, "attributes": {"__class__": "x", "with_traceback": 1, "marker": marker}, "state": (marker, 1, 2, 3, 4, 5, 6),
                 "exception": {"__class__": tag, "__exception__": True, "args": args}, "value": "nan"}
            if flag is not None:
                d["__exception__"] = flag
            out.append(d)
    out.append({"__class__": tag})
    out.append({"__class__": tag, "__exception__": True, "args": (), "attributes": {}})
    out.append({"__class__": tag, "state": ("PYRO:obj@localhost:1", set(), set(), set(), 0.0, "serpent", 0)})
    # members that are themselves class-tagged Proxy dicts: a decoder that revives bottom-up (msgpack's object_hook) turns them into LIVE proxies before the
    # enclosing dict is rebuilt - unpacking / iterating / measuring such a member would call its remote object, i.e. open a socket to the address in the payload
    live = {"__class__": "Pyro5.client.Proxy", "state": ["PYRO:obj@127.0.0.1:1", [], [], [], None, None]}
    out.append({"__class__": tag, "__exception__": True, "args": live})
    out.append({"__class__": tag, "__exception__": True, "args": [], "attributes": live})
    out.append({"__class__": tag, "state": live})
    out.append({"__class__": tag, "state": ["PYRO:obj@127.0.0.1:1", live, [], live, None, None]})
    return out


def main(mode):
    t0 = time.time()
    rnd = random.Random(4)
    tmpdir = tempfile.mkdtemp(prefix="c04-")
    marker = os.path.join(tmpdir, "marker")
    for t in REG_TAGS:
        SerializerBase.register_dict_to_class(t, converter)
    snapshot_exc = dict(serializers.all_exceptions)
    reg = SerializerBase._SerializerBase__custom_dict_to_class_registry
    snapshot_reg = dict(reg)
    sers = sorted(serializers.serializers.items())
    all_tags = tags(mode, rnd)
    if mode == "quick":
        all_tags = all_tags[:150] + all_tags[150::2]
    runs = 0
    fail = None
    stats = {"rejected": 0, "accepted": 0, "converted": 0}
    modules_before = set(sys.modules)
    for tag in all_tags:
        for body in bodies(tag, marker):
            trees = [("result", [1, {"nested": body}]), ("call", [body])]
            variants = [body]
            if isinstance(tag, str):
                try:
                    variants.append(dict(body, __class__=tag.encode("utf-8")))        # bytes tag (marshal, msgpack carry bytes)
                except UnicodeError:
                    pass
            for b in variants:
                for name, ser in sers:
                    for pathkind in ("call", "result"):
                        if isinstance(b["__class__"], bytes) and name in ("serpent", "json"):
                            continue
                        try:
                            if pathkind == "call":
                                payload = ser.dumpsCall("obj", "meth", [b, [b]], {"kw": b})
                                decode = ser.loadsCall
                                sites = [(2, 0), (2, 1, 0), (3, "kw")]
                            else:
                                payload = ser.dumps([1, {"nested": b}, b])
                                decode = ser.loads
                                sites = [(1, "nested"), (2,)]
                        except Exception:      # noqa  (payload not encodable with this serializer)
                            continue
                        for attempt in (1, 2):
                            runs += 1
                            CONVERTED[:] = []
                            Local.built = 0
                            _audit["hits"] = []
                            _audit["on"] = True
                            try:
                                result = decode(payload)
                                raised = None
                            except BaseException as x:      # noqa
                                result = None
                                raised = x
                            finally:
                                _audit["on"] = False
                            stats["rejected" if raised is not None else ("converted" if CONVERTED else "accepted")] += 1
                            desc = {"serializer": name, "path": pathkind, "attempt": attempt, "payload_body": repr(b)[:400], "tag": repr(b["__class__"])}
                            bad = None
                            tagtext = b["__class__"].decode("utf-8") if isinstance(b["__class__"], bytes) else b["__class__"]
                            if _audit["hits"]:
                                bad = "decoding raised audit events: %s" % _audit["hits"][:3]
                            elif os.path.exists(marker):
                                bad = "decoding created a file"
                            elif Local.built:
                                bad = "decoding called the constructor of an application class"
                            elif serializers.all_exceptions != snapshot_exc:
                                extra = sorted(set(serializers.all_exceptions) ^ set(snapshot_exc))
                                bad = "decoding changed the exception whitelist: %s" % extra[:3]
                            elif dict(reg) != snapshot_reg:
                                bad = "decoding changed the converter registry"
                            elif CONVERTED and any(c != tagtext or tagtext not in REG_TAGS for c in CONVERTED):
                                bad = "a converter registered for %s was called for tag %r" % (REG_TAGS, tagtext)
                            elif set(sys.modules) - modules_before:
                                bad = "decoding imported %s" % sorted(set(sys.modules) - modules_before)[:3]
                            elif raised is not None and not isinstance(raised, Exception):
                                bad = "decoding escaped with %r" % (raised,)
                            elif raised is None:
                                bt = bad_types(result)
                                if bt:
                                    bad = "decoded value contains instances of %s" % bt[:3]
                                elif tagtext not in REG_TAGS:
                                    for site in sites:
                                        v = at(result, site)
                                        if type(v) is dict or (type(v) in PLAIN and not (name == "serpent" and tagtext == "float" and type(v) is float)):
                                            bad = "a class-tagged dict with an unsupported tag was not rejected (came back as %s)" % type(v).__name__
                                            break
                                        if "__" in tagtext:
                                            bad = "a tag containing a double underscore was accepted (%s)" % type(v).__name__
                                            break
                                        if isinstance(v, BaseException):
                                            if type(v) is not expected_class(tagtext, snapshot_exc):
                                                bad = "tag %r produced an exception of unrelated class %s" % (tagtext, type(v).__name__)
                                                break
                            if os.path.exists(marker):
                                os.remove(marker)
                            if bad and fail is None:
                                fail = dict(desc, violated=bad)
                                serializers.all_exceptions.clear()
                                serializers.all_exceptions.update(snapshot_exc)
                            if fail is not None and mode == "find":
                                break
                        if fail is not None:
                            break
                    if fail is not None:
                        break
                if fail is not None:
                    break
            if fail is not None:
                break
        if fail is not None:
            break
    # listed known finding: the marshal format itself can spell objects that are neither plain data nor in the closed set (a code object, the
    # StopIteration class object, Ellipsis); marshal.loads hands them back (nothing is executed)
    KNOWN = []
    import marshal as _marshal
    crafted = _marshal.dumps((compile("1+1", "<crafted>", "eval"), StopIteration, Ellipsis))
    try:
        runs += 1
        got = serializers.serializers["marshal"].loads(crafted)
        if any(type(x).__name__ == "code" for x in got):
            KNOWN.append("C04-marshal-decodes-code-objects")
    except Exception:      # noqa
        pass
    # listed known finding: msgpack decodes its reserved extension code -1 itself (before ext_hook is asked) into a msgpack.ext.Timestamp instance
    try:
        import msgpack as _msgpack
        runs += 1
        got = serializers.serializers["msgpack"].loads(_msgpack.packb([_msgpack.Timestamp(1, 2)]))
        if type(got[0]).__name__ == "Timestamp":
            KNOWN.append("C04-msgpack-timestamp-extension")
    except Exception:      # noqa
        pass
    for t in REG_TAGS:
        SerializerBase.unregister_dict_to_class(t)
    try:
        os.rmdir(tmpdir)
    except OSError:
        pass
    rep = {"runs": runs, "failing_input": fail, "known_findings_reproduced": KNOWN, "outcomes": stats, "wall_s": round(time.time() - t0, 2),
           "bounded": [{"what": "real serializers decoding hostile class-tagged payloads (both paths, each payload twice): reachable types, audit events, "
                                "whitelist/registry frame, converter called for exactly its tag",
                        "bound": "%d tags x %d bodies x (str, bytes tag) x %d serializers x 2 paths x 2 attempts" % (len(all_tags), len(bodies("t", marker)), len(sers)),
                        "runs": runs, "failures": 0 if fail is None else 1}]}
    print(json.dumps(rep))
    return 0


if __name__ == "__main__":
    sys.exit(main(sys.argv[1] if len(sys.argv) > 1 else "quick"))
