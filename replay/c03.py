"""Native harness for C03 / C12 client side (bounded): a REAL Proxy talks to a scripted fake daemon that speaks the real wire protocol
and applies a fault script to the replies (deliver, lose, delay past the timeout, cut at a byte offset + reset, duplicate, replay a stale
reply, alter the sequence number).  Oracle: every call returns the value derived from its own unique token or raises a communication
error; execution counts per token respect MAX_RETRIES; after a communication error the next call on a healthy transport works;
oneway returns None without consuming a reply; sequence wrap-around; response annotations seen by the client belong to that call.
modes: quick | thorough | find      output: last line = JSON report"""
import itertools
import json
import os
import random
import socket
import sys
import threading
import time

import Pyro5.client as client
import Pyro5.errors as errors
import Pyro5.protocol as P
import Pyro5.serializers as serializers
import Pyro5.socketutil as socketutil
from Pyro5 import config
from Pyro5.callcontext import current_context

SER = serializers.serializers["marshal"]


class FakeDaemon(threading.Thread):
    """accepts connections; answers the handshake; for each INVOKE applies the next fault from the script"""

    def __init__(self, script):
        super().__init__(daemon=True)
        self.script = list(script)
        self.sock = socket.socket()
        self.sock.bind(("127.0.0.1", 0))
        self.sock.listen(5)
        self.addr = self.sock.getsockname()
        self.executions = {}
        self.last_reply = None
        self.stop = False
        self.oneway = {"fire"}

    def run(self):
        self.sock.settimeout(0.05)
        while not self.stop:
            try:
                c, _ = self.sock.accept()
            except socket.timeout:
                continue
            except OSError:
                return
            threading.Thread(target=self.serve, args=(c,), daemon=True).start()

    def serve(self, c):
        conn = socketutil.SocketConnection(c)
        try:
            msg = P.recv_stub(conn, [P.MSG_CONNECT])
            meta = {"methods": ["echo", "fire"], "oneway": ["fire"], "attrs": []}
            data = SER.dumps({"handshake": "hello", "meta": meta})
            conn.send(P.SendingMessage(P.MSG_CONNECTOK, 0, msg.seq, SER.serializer_id, data).data)
            while True:
                msg = P.recv_stub(conn, [P.MSG_INVOKE])
                obj, method, vargs, kwargs = SER.loadsCall(msg.data)
                token = vargs[0]
                self.executions[token] = self.executions.get(token, 0) + 1
                if msg.flags & P.FLAGS_ONEWAY:
                    continue
                fault = self.script.pop(0) if self.script else ("deliver",)
                reply = P.SendingMessage(P.MSG_RESULT, 0, msg.seq, SER.serializer_id, SER.dumps("result-of-" + token),
                                         annotations={"TOKN": token.encode()}).data
                kind = fault[0]
                if kind == "deliver":
                    conn.send(reply)
                elif kind == "lose":
                    pass
                elif kind == "delay":
                    time.sleep(0.35)
                    try:
                        conn.send(reply)
                    except errors.CommunicationError:
                        return
                elif kind == "cut":
                    c.sendall(reply[:fault[1]])
                    c.setsockopt(socket.SOL_SOCKET, socket.SO_LINGER, b"\x01\x00\x00\x00\x00\x00\x00\x00")
                    c.close()
                    return
                elif kind == "reset-before":
                    c.setsockopt(socket.SOL_SOCKET, socket.SO_LINGER, b"\x01\x00\x00\x00\x00\x00\x00\x00")
                    c.close()
                    return
                elif kind == "duplicate":
                    conn.send(reply + reply)
                elif kind == "stale" and self.last_reply is not None:
                    conn.send(self.last_reply)
                    conn.send(reply)
                elif kind == "stale-only" and self.last_reply is not None:
                    conn.send(self.last_reply)
                elif kind == "alter-seq":
                    bad = bytearray(reply)
                    bad[10:12] = ((msg.seq + fault[1]) & 0xffff).to_bytes(2, "big")
                    conn.send(bytes(bad))
                else:
                    conn.send(reply)
                self.last_reply = reply
        except (errors.CommunicationError, OSError):
            return
        finally:
            try:
                c.close()
            except OSError:
                pass


FAULTS = [("deliver",), ("lose",), ("delay",), ("cut", 0), ("cut", 7), ("cut", 41), ("reset-before",), ("duplicate",), ("stale",), ("stale-only",),
          ("alter-seq", 1), ("alter-seq", -1)]


def run_script(script, retries, start_seq, ncalls):
    d = FakeDaemon(script)
    d.start()
    config.MAX_RETRIES = retries
    config.COMMTIMEOUT = 0.2
    config.SERIALIZER = "marshal"
    desc = {"fault_script": [list(f) for f in script], "MAX_RETRIES": retries, "start_seq": start_seq}
    bad = None
    try:
        with client.Proxy("PYRO:obj@%s:%d" % d.addr) as p:
            p._pyroBind()
            p._pyroSeq = start_seq
            for i in range(ncalls):
                token = "t%d-%d" % (i, random.randrange(10 ** 9))
                current_context.response_annotations = {"STALE": b"x"}
                try:
                    r = p.echo(token)
                    if r != "result-of-" + token:
                        bad = bad or dict(desc, call=i, violated="call returned %r which is not the answer to its own request (%s)" % (r, token))
                    ann = {k: bytes(v) for k, v in current_context.response_annotations.items()}
                    if ann.get("TOKN") != token.encode() or "STALE" in ann:
                        bad = bad or dict(desc, call=i, violated="client observed annotations %r after the call for %s" % (ann, token))
                    if d.executions.get(token, 0) < 1:
                        bad = bad or dict(desc, call=i, violated="call returned without having been executed")
                except errors.CommunicationError:
                    if "STALE" in current_context.response_annotations:
                        bad = bad or dict(desc, call=i, violated="stale response annotations survive a failed call")
                except Exception as x:      # noqa
                    bad = bad or dict(desc, call=i, violated="unexpected exception %r" % (x,))
                if d.executions.get(token, 0) > retries + 1:
                    bad = bad or dict(desc, call=i, violated="method executed %d times with MAX_RETRIES=%d" % (d.executions[token], retries))
            # oneway: returns None, consumes nothing, executed at most once
            tok = "ow-%d" % random.randrange(10 ** 9)
            try:
                if p.fire(tok) is not None:
                    bad = bad or dict(desc, violated="oneway call returned a value")
            except errors.CommunicationError:
                pass
            # the transport is healthy again: the next calls must be answered correctly
            for j in range(2):
                token = "after-%d-%d" % (j, random.randrange(10 ** 9))
                try:
                    r = p.echo(token)
                    if r != "result-of-" + token:
                        bad = bad or dict(desc, violated="after the faults: call returned %r for %s" % (r, token))
                except errors.CommunicationError as x:
                    if j == 1:
                        bad = bad or dict(desc, violated="proxy does not recover on a healthy transport: %r" % (x,))
            time.sleep(0.05)
            if d.executions.get(tok, 0) > 1:
                bad = bad or dict(desc, violated="oneway call executed %d times" % d.executions[tok])
    finally:
        d.stop = True
        d.sock.close()
    return bad


HANDSHAKE_FAULTS = ["connectfail", "connectfail-then-garbage", "result-type", "ok-empty-data", "ok-undecodable", "ok-no-meta", "cut-header", "cut-body", "close", "ok-then-extra"]


def handshake_faults(kind):
    """the daemon answers the CONNECT request wrongly; whatever the proxy raises, afterwards it holds NO connection (so nothing of that exchange can be taken for a
    later call's reply) - or a connection whose handshake completed; a following call on a healthy daemon is answered with its own reply"""
    srv = socket.socket()
    srv.bind(("127.0.0.1", 0))
    srv.listen(5)
    addr = srv.getsockname()
    state = {"n": 0, "executions": {}}

    def serve():
        srv.settimeout(3.0)
        while True:
            try:
                c, _ = srv.accept()
            except (socket.timeout, OSError):
                return
            state["n"] += 1
            conn = socketutil.SocketConnection(c)
            try:
                msg = P.recv_stub(conn, [P.MSG_CONNECT])
                meta = {"methods": ["echo"], "oneway": [], "attrs": []}
                ok = P.SendingMessage(P.MSG_CONNECTOK, 0, msg.seq, SER.serializer_id, SER.dumps({"handshake": "hello", "meta": meta})).data
                stale = P.SendingMessage(P.MSG_RESULT, 0, (msg.seq + 1) & 0xffff, SER.serializer_id, SER.dumps("result-of-STALE")).data
                if state["n"] == 1:
                    if kind == "connectfail":
                        conn.send(P.SendingMessage(P.MSG_CONNECTFAIL, 0, msg.seq, SER.serializer_id, SER.dumps("denied")).data)
                    elif kind == "connectfail-then-garbage":
                        conn.send(P.SendingMessage(P.MSG_CONNECTFAIL, 0, msg.seq, SER.serializer_id, SER.dumps("denied")).data + stale)
                    elif kind == "result-type":
                        conn.send(stale)
                    elif kind == "ok-empty-data":
                        conn.send(P.SendingMessage(P.MSG_CONNECTOK, 0, msg.seq, SER.serializer_id, b"").data + stale)
                    elif kind == "ok-undecodable":
                        conn.send(P.SendingMessage(P.MSG_CONNECTOK, 0, msg.seq, SER.serializer_id, b"\xff\xfe garbage").data + stale)
                    elif kind == "ok-no-meta":
                        conn.send(P.SendingMessage(P.MSG_CONNECTOK, 0, msg.seq, SER.serializer_id, SER.dumps({"handshake": "hello"})).data + stale)
                    elif kind == "cut-header":
                        c.sendall(ok[:17])
                    elif kind == "cut-body":
                        c.sendall(ok[:45])
                    elif kind == "ok-then-extra":
                        conn.send(ok)
                    if kind != "ok-then-extra":
                        time.sleep(0.05)
                        c.close()
                        continue
                else:
                    conn.send(ok)
                while True:
                    msg = P.recv_stub(conn, [P.MSG_INVOKE])
                    obj, method, vargs, kwargs = SER.loadsCall(msg.data)
                    state["executions"][vargs[0]] = state["executions"].get(vargs[0], 0) + 1
                    conn.send(P.SendingMessage(P.MSG_RESULT, 0, msg.seq, SER.serializer_id, SER.dumps("result-of-" + vargs[0])).data)
            except (errors.CommunicationError, OSError):
                pass
            finally:
                try:
                    c.close()
                except OSError:
                    pass
    t = threading.Thread(target=serve, daemon=True)
    t.start()
    config.MAX_RETRIES = 0
    config.COMMTIMEOUT = 0.3
    config.SERIALIZER = "marshal"
    desc = {"handshake_fault": kind}
    bad = None
    p = client.Proxy("PYRO:obj@%s:%d" % addr)
    try:
        try:
            p._pyroBind()
            if kind != "ok-then-extra":
                bad = dict(desc, violated="the faulty handshake was accepted")
        except Exception as x:      # noqa
            if p._pyroConnection is not None:
                bad = dict(desc, violated="after the failed handshake (%r) the proxy still holds the connection it was refused on" % (x,))
        for j in range(2):
            tok = "hs-%d-%d" % (j, random.randrange(10 ** 9))
            try:
                r = p.echo(tok)
                if r != "result-of-" + tok:
                    bad = bad or dict(desc, violated="after the handshake fault a call returned %r for %s" % (r, tok))
            except errors.CommunicationError as x:
                if j == 1:
                    bad = bad or dict(desc, violated="proxy does not recover after the handshake fault: %r" % (x,))
            except Exception as x:      # noqa
                bad = bad or dict(desc, violated="unexpected exception after the handshake fault: %r" % (x,))
    finally:
        p._pyroRelease()
        srv.close()
    return bad


def wraparound_stale():
    """listed known finding: the wire carries a 16-bit sequence number, so a stale reply recorded exactly 65536 calls earlier passes the sequence check.
    The 65536 calls in between are emulated by winding the proxy's counter back by one after the first call."""
    d = FakeDaemon([("deliver",), ("stale-only",)])
    d.start()
    config.MAX_RETRIES = 0
    config.COMMTIMEOUT = 0.5
    config.SERIALIZER = "marshal"
    try:
        with client.Proxy("PYRO:obj@%s:%d" % d.addr) as p:
            p._pyroBind()
            first = p.echo("first-token")
            p._pyroSeq = (p._pyroSeq - 1) & 0xffff          # == 65536 further calls later
            try:
                second = p.echo("second-token")
            except errors.CommunicationError:
                return False
            return second == first
    finally:
        d.stop = True
        d.sock.close()


def main(mode):
    known = []
    seed = int(os.environ.get("VERIF_SEED", "0") or 0)
    random.seed(seed)
    t0 = time.time()
    saved = (config.MAX_RETRIES, config.COMMTIMEOUT, config.SERIALIZER)
    runs = 0
    fail = None
    try:
        scripts = [[f] for f in FAULTS] + [[f, g] for f in FAULTS[1:] for g in (("deliver",), ("stale",), ("duplicate",))]
        if mode == "thorough":
            scripts += [list(s) for s in itertools.product(FAULTS, repeat=2)]
        for retries in (0, 1, 2) if mode != "find" else (0, 1):
            for start_seq in (0, 0xfffe):
                for script in scripts:
                    if fail:
                        break
                    runs += 1
                    fail = run_script(script, retries, start_seq, len(script) + 1)
        for kind in HANDSHAKE_FAULTS:
            if not fail:
                runs += 1
                fail = handshake_faults(kind)
        runs += 1
        if wraparound_stale():
            known.append("C03-stale-reply-after-sequence-wraparound")
    finally:
        config.MAX_RETRIES, config.COMMTIMEOUT, config.SERIALIZER = saved
    rep = {"runs": runs, "failing_input": fail, "known_findings_reproduced": known, "wall_s": round(time.time() - t0, 2),
           "bounded": [{"what": "real Proxy against a scripted fake daemon applying reply fault scripts; MAX_RETRIES 0/1/2; sequence wrap-around",
                        "bound": "single faults + pairs from %d fault kinds; %d handshake faults" % (len(FAULTS), len(HANDSHAKE_FAULTS)), "runs": runs, "failures": 0 if fail is None else 1}]}
    print(json.dumps(rep))
    return 0


if __name__ == "__main__":
    sys.exit(main(sys.argv[1] if len(sys.argv) > 1 else "quick"))
