"""Native harness for C18 (bounded): REAL svr_threads.Pool / Worker under forced schedules (a thread is paused at a chosen source
line with a trace hook while another operation runs), small pool sizes, job counts and close() racing with completions.
Oracles: every submitted job runs exactly once or is refused; busy+idle and live Worker threads never exceed THREADPOOL_SIZE;
after close() no worker thread stays alive once its job has ended, no further job starts.
modes: quick | thorough | find      output: last line = JSON report"""
import inspect
import json
import sys
import threading
import time

from Pyro5 import config
import Pyro5.svr_threads as T


class Pauser:
    """pause the first thread that reaches `func` at the source line containing `marker` (before executing it)"""

    def __init__(self, func, marker, occurrence=0):
        src, start = inspect.getsourcelines(func)
        hits = [i for i, l in enumerate(src) if marker in l]
        self.line = start + hits[occurrence]
        self.code = func.__code__
        self.at = threading.Event()
        self.resume = threading.Event()

    def tracer(self, frame, event, arg):
        if frame.f_code is self.code:
            def local(frame, event, arg):
                if event == "line" and frame.f_lineno == self.line and not self.at.is_set():
                    self.at.set()
                    self.resume.wait(5)
                return local
            return local
        return None

    def __enter__(self):
        threading.settrace(self.tracer)
        return self

    def __exit__(self, *a):
        threading.settrace(None)
        self.resume.set()


class Job:
    def __init__(self, log, n, hold=None):
        self.log, self.n, self.hold = log, n, hold

    def __call__(self):
        self.log.append(self.n)
        if self.hold is not None:
            self.hold.wait(3)


def workers_alive():
    return [t for t in threading.enumerate() if isinstance(t, T.Worker)]


def wait_dead(timeout=1.5):
    end = time.time() + timeout
    while time.time() < end and workers_alive():
        time.sleep(0.02)
    return workers_alive()


def scenario_notify_vs_process(size, smin):
    """worker paused inside notify_done (after leaving `busy`, before re-entering `idle`) while the accept loop submits"""
    config.THREADPOOL_SIZE, config.THREADPOOL_SIZE_MIN = size, smin
    ran = []
    with Pauser(T.Pool.notify_done, "if self.closed") as p:
        pool = T.Pool()
        holds = [threading.Event() for _ in range(size)]
        for i in range(size - 1):
            pool.process(Job(ran, "fill%d" % i, holds[i]))
        pool.process(Job(ran, "first"))
        if not p.at.wait(3):
            return {"scenario": "notify_done vs process", "violated": "harness: worker never reached notify_done"}
        res = {}

        def submit():
            try:
                pool.process(Job(ran, "second", holds[-1]))
                res["r"] = "accepted"
            except T.NoFreeWorkersError:
                res["r"] = "refused"
        t = threading.Thread(target=submit)
        t.start()
        t.join(0.3)
        n_threads = len(workers_alive())
        p.resume.set()
        t.join(2)
        time.sleep(0.1)
        total = pool.num_workers()
        for h in holds:
            h.set()
    out = None
    if n_threads > size or total > size:
        out = {"scenario": "notify_done vs process", "size": size, "min": smin,
               "schedule": "worker paused in notify_done before `if self.closed`; process(job) runs; worker resumes",
               "violated": "THREADPOOL_SIZE=%d but %d worker threads alive / busy+idle=%d" % (size, n_threads, total)}
    pool.close()
    wait_dead()
    return out


def scenario_close_vs_notify(size, smin):
    """close() runs while a worker is between its `closed` test and `idle.add` in notify_done"""
    config.THREADPOOL_SIZE, config.THREADPOOL_SIZE_MIN = size, smin
    ran = []
    with Pauser(T.Pool.notify_done, "self.idle.add(worker)") as p:
        pool = T.Pool()
        # occupy the idle workers so that the reporting worker takes the idle.add branch
        holds = []
        for i in range(smin - 1):
            h = threading.Event()
            holds.append(h)
            pool.process(Job(ran, "fill%d" % i, h))
        pool.process(Job(ran, "job"))
        if not p.at.wait(3):
            for h in holds:
                h.set()
            pool.close()
            wait_dead()
            return None       # branch not reachable in this configuration
        closer = threading.Thread(target=pool.close)
        closer.start()
        closer.join(0.6)
        p.resume.set()
        closer.join(3)
        for h in holds:
            h.set()
    left = wait_dead()
    if left:
        for w in left:
            w.process(None)
        wait_dead()
        return {"scenario": "close vs notify_done", "size": size, "min": smin,
                "schedule": "worker paused in notify_done before `self.idle.add(worker)`; close() runs; worker resumes",
                "violated": "%d worker thread(s) still alive after close() although their job has ended" % len(left)}
    return None


def scenario_close_overwrites_job(size, smin):
    """a job was handed to a worker that has not read its slot yet when close() runs"""
    config.THREADPOOL_SIZE, config.THREADPOOL_SIZE_MIN = size, smin
    ran = []
    with Pauser(T.Worker.run, "self.job_available.clear()") as p:
        pool = T.Pool()
        res = {}
        try:
            pool.process(Job(ran, "handed"))
            res["r"] = "accepted"
        except T.PoolError:
            res["r"] = "refused"
        p.at.wait(3)
        closer = threading.Thread(target=pool.close)
        closer.start()
        closer.join(0.6)
        p.resume.set()
        closer.join(3)
    time.sleep(0.2)
    left = wait_dead()
    for w in left:
        w.process(None)
    wait_dead()
    if res.get("r") == "accepted" and "handed" not in ran:
        return {"scenario": "close overwrites a handed job", "size": size, "min": smin,
                "schedule": "process(job) hands the job to a worker; the worker is paused before it reads its slot; close() runs; worker resumes",
                "violated": "the accepted job was neither run nor refused (silently dropped)"}
    return None


def scenario_sequential(size, smin, njobs):
    config.THREADPOOL_SIZE, config.THREADPOOL_SIZE_MIN = size, smin
    ran = []
    pool = T.Pool()
    hold = threading.Event()
    accepted = refused = 0
    for i in range(njobs):
        try:
            pool.process(Job(ran, i, hold))
            accepted += 1
        except T.NoFreeWorkersError:
            refused += 1
        if pool.num_workers() > size or len(workers_alive()) > size:
            hold.set()
            pool.close()
            return {"scenario": "sequential", "violated": "more than THREADPOOL_SIZE workers", "size": size}
    bad = None
    if accepted != min(njobs, size) or refused != njobs - accepted:
        bad = {"scenario": "sequential", "size": size, "min": smin, "jobs": njobs, "violated": "accepted %d refused %d" % (accepted, refused)}
    hold.set()
    time.sleep(0.15)
    if sorted(ran) != list(range(accepted)):
        bad = bad or {"scenario": "sequential", "violated": "jobs ran %r" % (ran,)}
    pool.close()
    try:
        pool.process(Job(ran, "late"))
        bad = bad or {"scenario": "sequential", "violated": "job accepted after close"}
    except T.PoolError:
        pass
    left = wait_dead()
    if left:
        bad = bad or {"scenario": "sequential", "size": size, "min": smin, "violated": "%d workers alive after close" % len(left)}
    return bad


def scenario_base_exception_job():
    """a job ending with a BaseException that is not an Exception (sys.exit() in a remote method) kills its worker thread: the pool must not
    keep counting the dead worker as busy (fixed defect - see known_findings.json)"""
    config.THREADPOOL_SIZE, config.THREADPOOL_SIZE_MIN = 1, 1
    pool = T.Pool()
    hook = threading.excepthook
    threading.excepthook = lambda args: None        # keep the dying thread quiet
    try:
        def bad():
            raise SystemExit(3)
        pool.process(bad)
        time.sleep(0.2)
        lost = len(pool.busy) == 1 and not any(w.is_alive() for w in pool.busy)
        refused = False
        try:
            pool.process(lambda: None)
        except T.NoFreeWorkersError:
            refused = True
        return lost and refused
    finally:
        threading.excepthook = hook
        pool.close()


def main(mode):
    t0 = time.time()
    saved = (config.THREADPOOL_SIZE, config.THREADPOOL_SIZE_MIN)
    runs = 0
    fail = None
    known = []
    sizes = [(1, 1), (2, 1), (2, 2), (3, 1), (3, 2)] if mode == "thorough" else [(1, 1), (2, 1), (2, 2)]
    try:
        for size, smin in sizes:
            for sc in (scenario_notify_vs_process, scenario_close_vs_notify, scenario_close_overwrites_job):
                runs += 1
                fail = fail or sc(size, smin)
            for njobs in (0, 1, size, size + 2):
                runs += 1
                fail = fail or scenario_sequential(size, smin, njobs)
            if fail:
                break
        runs += 1
        if scenario_base_exception_job():
            fail = fail or {"scenario": "job ending with SystemExit", "size": 1, "min": 1,
                            "violated": "the dead worker is still counted as busy: the slot is lost and the next connection is refused although no worker is running"}
    finally:
        threading.settrace(None)
        config.THREADPOOL_SIZE, config.THREADPOOL_SIZE_MIN = saved
    rep = {"runs": runs, "failing_input": fail, "known_findings_reproduced": known, "wall_s": round(time.time() - t0, 2),
           "bounded": [{"what": "real Pool/Worker under forced schedules (trace-hook pauses) and sequential submissions",
                        "bound": "pool sizes %r x 3 schedules + job counts 0..size+2" % (sizes,), "runs": runs, "failures": 0 if fail is None else 1}]}
    print(json.dumps(rep))
    return 0


if __name__ == "__main__":
    sys.exit(main(sys.argv[1] if len(sys.argv) > 1 else "quick"))
