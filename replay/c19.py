"""Native harness for C19 (bounded): REAL core.URI over strings generated from the URI grammar and its near-misses; checks
URI(str(u)) == u, the fixed point str(URI(str(u))) == str(u), eq/hash consistency, unequal locations never equal, the proxy state path
and the serializers; validates the assumed regex / int() contracts of specs/strings.py against CPython.
Listed known findings (exotic inputs) are reported separately and excluded from `failing_input`.
modes: quick | thorough | find      output: last line = JSON report"""
import itertools
import json
import os
import random
import re
import sys
import time

import Pyro5.core as core
import Pyro5.client as client
import Pyro5.errors as errors
import Pyro5.serializers as serializers

KNOWN = []


def classify_known(s, u):
    """exact input classes of the listed known findings"""
    if u.protocol == "PYROMETA":
        return "C19-pyrometa"
    if u.host is not None and (u.host == "./u" or u.host.startswith("[")) and ":" not in u.host:
        return "C19-host-looks-like-other-location-form"
    return None


def check_one(s):
    try:
        u = core.URI(s)
    except (errors.PyroError, TypeError, ValueError):
        return None
    desc = {"input": s}
    kf = classify_known(s, u)
    try:
        t = str(u)
        u2 = core.URI(t)
        bad = None
        if u2 != u or not (u2 == u):
            bad = "URI(str(u)) != u: %r -> %r -> %r" % (u.__getstate__(), t, u2.__getstate__())
        elif str(u2) != t:
            bad = "text form is not a fixed point: %r -> %r" % (t, str(u2))
        elif u.protocol != "PYROMETA" and hash(u2) != hash(u):
            bad = "equal URIs with different hashes"
    except Exception as x:      # noqa
        bad = "text form %r of an accepted URI is rejected or unusable: %r" % (str(u) if kf != "C19-pyrometa" else "?", x)
    if bad:
        if kf:
            if kf not in KNOWN:
                KNOWN.append(kf)
            return None
        return dict(desc, violated=bad)
    return None


def check_pair(a, b):
    try:
        ua, ub = core.URI(a), core.URI(b)
    except Exception:      # noqa
        return None
    if ua.protocol == "PYROMETA" or ub.protocol == "PYROMETA":
        return None
    same = ua.__getstate__() == ub.__getstate__()
    if (ua == ub) != same or (ua != ub) == same:
        return {"input": [a, b], "violated": "__eq__ disagrees with the state tuples"}
    if ua == ub and hash(ua) != hash(ub):
        return {"input": [a, b], "violated": "equal URIs, different hashes: %r %r" % (ua.__getstate__(), ub.__getstate__())}
    return None


def check_transport(s):
    try:
        u = core.URI(s)
    except Exception:      # noqa
        return None
    if u.protocol == "PYROMETA":
        return None
    # copies made through the state: URI(uri), copy.copy, copy.deepcopy
    import copy as _copy
    for how, mk in (("URI(u)", lambda: core.URI(u)), ("copy.copy", lambda: _copy.copy(u)), ("copy.deepcopy", lambda: _copy.deepcopy(u))):
        try:
            v = mk()
            if v != u or v.__getstate__() != u.__getstate__() or hash(v) != hash(u) or str(v) != str(u):
                return {"input": s, "via": how, "violated": "copy differs from the original: %r -> %r" % (u.__getstate__(), v.__getstate__())}
        except Exception as x:     # noqa
            return {"input": s, "via": how, "violated": "copy of an accepted URI failed: %r" % (x,)}
    for name in ("serpent", "json", "marshal", "msgpack"):
        ser = serializers.serializers[name]
        try:
            v = ser.loads(ser.dumps(u))
        except Exception as x:     # noqa
            return {"input": s, "serializer": name, "violated": "URI does not survive the serializer: %r" % (x,)}
        if v != u:
            return {"input": s, "serializer": name, "violated": "URI changed by the serializer: %r -> %r" % (u.__getstate__(), getattr(v, "__getstate__", lambda: v)())}
    if classify_known(s, u):
        return None
    p = client.Proxy(u)
    p2 = client.Proxy.__new__(client.Proxy)
    try:
        p2.__setstate__(p.__getstate__())
    except Exception as x:      # noqa
        return {"input": s, "violated": "proxy state does not carry the URI: %r" % (x,)}
    if p2._pyroUri != u:
        return {"input": s, "violated": "proxy state path changed the URI: %r -> %r" % (u.__getstate__(), p2._pyroUri.__getstate__())}
    for name in ("serpent", "json", "marshal", "msgpack"):
        ser = serializers.serializers[name]
        q = ser.loads(ser.dumps(p))
        if q._pyroUri != u:
            return {"input": s, "serializer": name, "violated": "Proxy._pyroUri changed by the serializer: %r -> %r" % (u.__getstate__(), q._pyroUri.__getstate__())}
    return None


def spec_validation():
    """the assumed contracts of specs/strings.py against CPython"""
    bad = []
    n = 0
    pat = re.compile(r"\[([0-9a-fA-F:%]+)](:(\d+))?")
    alphabet = "[]:a%9g "
    for ln in range(0, 6):
        for tup in itertools.product(alphabet, repeat=ln):
            s = "".join(tup)
            n += 1
            m = pat.match(s)
            # spec: s = "[" + host + "]" + rest, host non-empty over the class; port = maximal digit run after "]:" (if non-empty)
            exp = None
            if s.startswith("["):
                j = 1
                while j < len(s) and (s[j] in "0123456789abcdefABCDEF:%"):
                    j += 1
                if j > 1 and j < len(s) and s[j] == "]":
                    rest = s[j + 1:]
                    port = None
                    if rest.startswith(":") and len(rest) > 1 and rest[1] in "0123456789":
                        k = 1
                        while k < len(rest) and rest[k] in "0123456789":
                            k += 1
                        port = rest[1:k]
                    exp = (s[1:j], port)
            got = None if m is None else (m.group(1), m.group(3))
            if got != exp:
                bad.append(("ipv6 regex", s, got, exp))
    # the uri pattern as specified by specs.strings.uri_split (texts without newline): exhaustive over short strings, then sampled longer ones
    import Pyro5.core as _core
    upat = _core.URI.uriRegEx

    def uri_split_concrete(u):
        c = u.find(":")
        if c < 4:
            return None
        proto, rest = u[:c], u[c + 1:]
        if proto[:4].upper() != "PYRO" or not all(("a" <= ch <= "z") or ("A" <= ch <= "Z") for ch in proto):
            return None
        j = rest.find("@", 1)
        if j >= 1 and j <= len(rest) - 2:
            obj, loc = rest[:j], rest[j + 1:]
        else:
            obj, loc = rest, None
        if len(obj) < 1 or any(ch.isspace() for ch in obj):
            return None
        return proto, obj, loc
    samples = []
    for ln in range(0, 6):
        for tup in itertools.product("@: o\xa0", repeat=ln):
            samples.append("pyro:" + "".join(tup))
            samples.append("PYROx" + "".join(tup))
    import random as _r
    rr = _r.Random(5)
    for _ in range(20000):
        samples.append("".join(rr.choice("PYROpyrometanx:@@ .u/[]1\t\u2003é") for _ in range(rr.randrange(0, 14))))
    for u in samples:
        n += 1
        m = upat.match(u)
        got = None if m is None else (m.group("protocol"), m.group("object"), m.group("location"))
        exp = uri_split_concrete(u)
        if got != exp:
            bad.append(("uri regex", u, got, exp))
            break
    for t in ("PYRO", "PYRONAME", "pyroName", "PyRoMeTa"):
        n += 1
        if t.upper().upper() != t.upper() or "PYRO".upper() != "PYRO" or "PYRONAME".upper() != "PYRONAME":
            bad.append(("upper", t))
    for v in (0, 7, 9090, -5, 65535, 10 ** 30, -10 ** 30):
        n += 1
        if int("%d" % v) != v:
            bad.append(("int/%d", v))
    for s in ("", " ", "x", "1x", "0x10", "1.0"):
        n += 1
        try:
            int(s)
            bad.append(("int accepts", s))
        except ValueError:
            pass
    for s, sep in (("a:b:c", ":"), ("abc", ":"), (":x", ":"), ("x:", ":")):
        n += 1
        i = s.find(sep)
        exp = (s, "", "") if i < 0 else (s[:i], sep, s[i + 1:])
        if s.partition(sep) != exp:
            bad.append(("partition", s))
    return n, bad


def main(mode):
    seed = int(os.environ.get("VERIF_SEED", "0") or 0)
    rnd = random.Random(seed)
    t0 = time.time()
    runs = 0
    fail = None
    nspec, bad = spec_validation()
    if bad:
        fail = {"violated": "assumed string/regex contract differs from CPython: %r" % (bad[:3],)}
    protos = ["PYRO", "pyro", "PyRo", "PYRONAME", "pyroname", "PYROMETA", "PYROX", "PYR"]
    objs = ["obj", "o.b-j_1", "a@b", "x@", "Obj", "ＯＢＪ", "o:b", "a,b", ",", " a", "a b", ""]
    locs = [None, "h:0", "localhost:0", "h:00", "[::1]:0", "h:1", "host.example.COM:9090", "h", "h:", ":55", "h:0x10", "h: 7", "h:+7", "h:-7", "h:７", "h:1_0", "127.0.0.1:65535", "[::1]:8", "[::1]", "[2001:DB8::2:1]:4444", "[1:2:3]:4444", "[a:b]:1", "[fe80::1%2525]:4444", "[fe80::1%25eth0]:1", "[fe80::1%251]:2", "[::]:1", "[%eth0:1]:2", "[fe80::1%5]:7", "[12:34:56:78:9a:bc:de:f0:11]:9",
            "[abc]:5", "[%eth0]:1", "[[::1]]:5", "[::1]:", "[::1]:x", "[g]:1", "[]:1", "./u:sock", "./u:/tmp/s.sock", "./u:", "./u:a:b", "./u", "./u:9", "[h:1", "h:1:2", "h]:1",
            "@h:1", "h:1@x", "h\n:1", "H:00055"]
    inputs = []
    for p in protos:
        for o in objs:
            for l in locs:
                inputs.append(p + ":" + o + ("" if l is None else "@" + l))
    if mode == "thorough":
        alphabet = "PYRO:@h.1[]/u, "
        for _ in range(30000):
            inputs.append("".join(rnd.choice(alphabet) for _ in range(rnd.randrange(4, 16))))
            inputs.append("PYRO:" + "".join(rnd.choice("ab@:.[]/u19 ") for _ in range(rnd.randrange(1, 12))))
    for s in inputs:
        runs += 1
        fail = fail or check_one(s)
    sample = inputs if mode == "thorough" else inputs[::7]
    for s in sample:
        runs += 1
        fail = fail or check_transport(s)
    accepted = []
    for s in inputs[::3]:
        try:
            core.URI(s)
            accepted.append(s)
        except Exception:      # noqa
            pass
    for a, b in itertools.islice(itertools.combinations(accepted[:120], 2), 4000):
        runs += 1
        fail = fail or check_pair(a, b)
    for a in accepted:
        # near-miss pairs: same URI text with the letter case of the location (or of the object) changed
        i = a.find("@")
        variants = [a[:i + 1] + a[i + 1:].swapcase(), a[:i + 1] + a[i + 1:].lower(), a[:i + 1] + a[i + 1:].upper()] if i > 0 else []
        j = a.find(":")
        variants.append(a[:j + 1] + a[j + 1:(i if i > 0 else len(a))].swapcase() + (a[i:] if i > 0 else ""))
        for b in variants:
            runs += 1
            fail = fail or check_pair(a, b)
    # directed pairs: the same protocol and object with locations that differ in exactly one component (socket name, host, port, or location present / absent)
    for p in ("PYRO", "PYRONAME"):
        for o in ("obj", "x@"):
            ls = ["./u:sock", "./u:other", "./u:/tmp/ns-a.sock", "h:1", "h:2", "g:1", "[::1]:1", "[::2]:1", "h:9090"] + ([None] if p == "PYRONAME" else [])
            for la, lb in itertools.permutations(ls, 2):
                runs += 1
                fail = fail or check_pair(p + ":" + o + ("" if la is None else "@" + la), p + ":" + o + ("" if lb is None else "@" + lb))
    rep = {"runs": runs, "failing_input": fail, "known_findings_reproduced": KNOWN, "wall_s": round(time.time() - t0, 2),
           "bounded": [{"what": "real URI over grammar-generated strings and near-misses: round trip, fixed point, eq/hash, serializers, proxy state; regex/int/partition spec validation",
                        "bound": "%d protocols x %d objects x %d locations (+ seeded random strings in thorough); %d spec probes" % (len(protos), len(objs), len(locs), nspec),
                        "runs": runs, "failures": 0 if fail is None else 1}]}
    print(json.dumps(rep))
    return 0


if __name__ == "__main__":
    sys.exit(main(sys.argv[1] if len(sys.argv) > 1 else "quick"))
