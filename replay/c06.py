"""Native harness for C06 (bounded; never counted as proof).  REAL Pyro5.protocol encoder/decoder/recv_stub under CPython:
(a) round trip decode(encode(f)) == f over boundary field values, payloads around the compression threshold (compressible and
    incompressible), annotation dictionaries (empty, several, zero-length, memoryview), correlation id on/off, all
    fragmentations are irrelevant to recv_stub (exact reads, C17) so a whole-stream fake connection is used;
(b) decoder on mutated byte strings: whatever it accepts must re-encode to an equal message and consume exactly its bytes;
    too-large messages are refused after exactly 40 bytes;
(c) validation of the assumed struct layouts / zlib round trip used by the specs.
modes: quick | thorough | find      output: last line = JSON report"""
import json
import os
import random
import struct
import sys
import time
import uuid
import zlib

import Pyro5.protocol as P
from Pyro5 import config, errors
from Pyro5.callcontext import current_context


class Conn:
    def __init__(self, data):
        self.data, self.pos = bytes(data), 0

    def recv(self, n):
        if self.pos + n > len(self.data):
            self.pos = len(self.data)
            raise errors.ConnectionClosedError("receiving: not enough data")
        r = self.data[self.pos:self.pos + n]
        self.pos += n
        return r


def roundtrip(msgtype, flags, seq, ser, payload, ann, corr, compression):
    desc = {"fn": "roundtrip", "type": msgtype, "flags": flags, "seq": seq, "ser": ser, "payload_len": len(payload),
            "payload_head": list(payload[:8]), "annotations": {k: "%s of %d bytes" % (type(v).__name__, len(bytes(v))) for k, v in ann.items()}, "corr": corr is not None,
            "compression": compression}
    config.COMPRESSION = compression
    current_context.correlation_id = corr
    try:
        m = P.SendingMessage(msgtype, flags, seq, ser, payload, annotations=ann)
    except errors.ProtocolError:
        total = len(payload) + sum(8 + len(bytes(v)) for v in ann.values())
        if compression and len(payload) > 100:
            total = len(zlib.compress(payload, 4)) + sum(8 + len(bytes(v)) for v in ann.values())
        if total <= config.MAX_MESSAGE_SIZE:
            return dict(desc, violated="encoder refused a message within MAX_MESSAGE_SIZE")
        return None
    finally:
        current_context.correlation_id = None
    tail = b"NEXT"
    c = Conn(m.data + tail)
    try:
        r = P.recv_stub(c)
    except Exception as x:      # noqa
        return dict(desc, violated="decoder rejected an encoded message: %r" % (x,))
    if c.pos != len(m.data):
        return dict(desc, violated="consumed %d bytes of a %d byte message" % (c.pos, len(m.data)))
    want_flags = flags & ~P.FLAGS_COMPRESSED
    got_flags = r.flags & ~P.FLAGS_CORR_ID
    if corr is not None and not (r.flags & P.FLAGS_CORR_ID):
        return dict(desc, violated="correlation flag lost")
    if (r.type, r.seq, r.serializer_id, got_flags | (flags & P.FLAGS_CORR_ID)) != (msgtype, seq, ser, want_flags | (flags & P.FLAGS_CORR_ID)):
        return dict(desc, violated="fields differ", got=[r.type, r.seq, r.serializer_id, r.flags])
    if bytes(r.data) != payload:
        return dict(desc, violated="payload differs", got_len=len(r.data))
    if {k: bytes(v) for k, v in r.annotations.items()} != {k: bytes(v) for k, v in ann.items()}:
        return dict(desc, violated="annotations differ", got={k: len(v) for k, v in r.annotations.items()})
    if corr is not None and bytes(r.corr_id) != corr.bytes:
        return dict(desc, violated="correlation id differs")
    return None


def decode_arbitrary(b, maxsize):
    """whatever is accepted must tile exactly and re-encode to an equivalent message"""
    desc = {"fn": "decode", "bytes": list(b[:120]), "len": len(b), "max_message_size": maxsize}
    config.MAX_MESSAGE_SIZE = maxsize
    c = Conn(b)
    try:
        r = P.recv_stub(c)
    except errors.ProtocolError as x:
        if len(b) >= 40 and b[:4] == b"PYRO" and b[4:6] == b"\x01\xf6" and b[38:40] == b"\x4d\xc5":
            dsz, asz = struct.unpack("!II", b[12:20])
            if dsz + asz > maxsize and c.pos != 40:
                return dict(desc, violated="too large message not refused at the header (consumed %d)" % c.pos)
        if c.pos not in (6, 40):
            return dict(desc, violated="ProtocolError after consuming %d bytes" % c.pos)
        return None
    except (errors.ConnectionClosedError, AssertionError, UnicodeDecodeError, zlib.error, ValueError):
        return None
    except Exception as x:      # noqa
        return dict(desc, violated="unexpected exception %r" % (x,))
    finally:
        config.MAX_MESSAGE_SIZE = 1024 * 1024 * 1024
    dsz, asz = struct.unpack("!II", b[12:20])
    if c.pos != 40 + dsz + asz:
        return dict(desc, violated="accepted but consumed %d != %d" % (c.pos, 40 + dsz + asz))
    # exact tiling of the annotation area
    i = 0
    body = b[40:40 + asz + dsz]
    items = []
    while i < asz:
        ln = int.from_bytes(body[i + 4:i + 8], "big")
        items.append((body[i:i + 4], body[i + 8:i + 8 + ln]))
        i += 8 + ln
    if i != asz:
        return dict(desc, violated="accepted although annotation chunks do not tile the annotation area (walk ends at %d, size %d)" % (i, asz))
    # re-encode
    ann = {k: bytes(v) for k, v in r.annotations.items()}
    compressed = bool(b[9] & P.FLAGS_COMPRESSED) or bool(b[8] & 0)
    config.COMPRESSION = False
    current_context.correlation_id = uuid.UUID(bytes=bytes(r.corr_id)) if r.flags & P.FLAGS_CORR_ID else None
    try:
        m2 = P.SendingMessage(r.type, r.flags, r.seq, r.serializer_id, bytes(r.data), annotations=ann)
        r2 = P.recv_stub(Conn(m2.data))
    except errors.ProtocolError:
        return None
    finally:
        current_context.correlation_id = None
    if (r2.type, r2.seq, r2.serializer_id, bytes(r2.data), {k: bytes(v) for k, v in r2.annotations.items()}) != \
            (r.type, r.seq, r.serializer_id, bytes(r.data), ann):
        return dict(desc, violated="accepted message does not re-encode to an equivalent message")
    return None


def spec_validation():
    """the concrete layouts assumed in specs/pystruct.py against the real struct / zlib"""
    bad = []
    n = 0
    for vals in [(0, 0, 0, 0, 0, 0), (65535, 255, 255, 65535, 2 ** 32 - 1, 2 ** 32 - 1), (502, 4, 1, 77, 300, 16)]:
        ver, typ, ser, fl, d, a = vals
        b = struct.pack(P._header_format, b"PYRO", ver, typ, ser, fl, 9, d, a, b"c" * 16, 0, 0x4dc5)
        exp = b"PYRO" + ver.to_bytes(2, "big") + bytes([typ, ser]) + fl.to_bytes(2, "big") + (9).to_bytes(2, "big") + \
            d.to_bytes(4, "big") + a.to_bytes(4, "big") + b"c" * 16 + b"\0\0" + b"\x4d\xc5"
        n += 1
        if b != exp or len(b) != 40:
            bad.append("header layout")
    for v in (256, -1):
        try:
            struct.pack("!B", v)
            bad.append("range B")
        except struct.error:
            pass
        n += 1
    if struct.pack("!4sI", b"ab", 5) != b"ab\0\0\0\0\0\x05" or struct.pack("!4sI", b"abcdef", 5)[:4] != b"abcd":
        bad.append("4s pad/truncate")
    for b in (b"", b"x" * 101, bytes(range(256)) * 3):
        n += 1
        if zlib.decompress(zlib.compress(b, 4)) != b:
            bad.append("zlib round trip")
    try:
        zlib.decompress(b"not zlib")
        bad.append("zlib accepts garbage")
    except zlib.error:
        pass
    # zlib.decompress ignores whatever follows a complete stream (assumed so in specs/pystruct.py); a decompressor object reports it
    for b in (b"", b"x" * 101):
        c = zlib.compress(b, 4)
        for junk in (b"J", b"JUNK" * 5, c):
            n += 1
            try:
                if zlib.decompress(c + junk) != b:
                    bad.append("zlib.decompress(stream + junk) != data of the stream")
            except zlib.error:
                bad.append("zlib.decompress refuses trailing bytes (the model says it ignores them)")
            d = zlib.decompressobj()
            if d.decompress(c + junk) != b or not d.eof or d.unused_data != junk:
                bad.append("decompressobj: eof / unused_data after stream + junk")
        d = zlib.decompressobj()
        d.decompress(c[:-2])
        n += 1
        if d.eof or d.unused_data:
            bad.append("decompressobj: eof on a truncated stream")
        try:
            zlib.decompress(c[:-2])
            bad.append("zlib.decompress accepts a truncated stream")
        except zlib.error:
            pass
    return n, bad


def fragmented(mode):
    """the receiver reads from a SOCKET: the real recv_stub over the real SocketConnection.recv / receive_data on a scripted socket that hands the bytes of an encoded
    message out in pieces (first reads short - also with MSG_WAITALL, where a short read is legal: signal, timeout race, peer pause).  The decoded message must be the
    one encoded, whatever the fragmentation."""
    import Pyro5.socketutil as su
    from replay.c17 import FakeSock
    config.COMPRESSION = False
    config.MAX_MESSAGE_SIZE = 1024 * 1024 * 1024
    current_context.correlation_id = None
    payload = bytes(range(256)) * 2
    ann = {"ABCD": b"0123456789", "WXYZ": b"\xff" * 7}
    m = P.SendingMessage(4, P.FLAGS_ONEWAY, 77, 2, payload, annotations=ann)
    runs = 0
    scripts = [[("data", k)] for k in (1, 2, 3, 5, 6, 33, 34, 100)] + [[("data", 1), ("data", 1), ("data", 2)], [("data", 3), ("err", 11), ("data", 4)],
               [("all",), ("data", 5)], [("all",), ("all",), ("data", 7), ("data", 1)], [("all",), ("data", 30), ("all",), ("data", 100), ("data", 3)]]
    for waitall in (True, False):
        for ssl in (False, True):
            for script in scripts:
                runs += 1
                su.USE_MSG_WAITALL = waitall
                sock = FakeSock(m.data + b"NEXT", script, ssl=ssl)
                conn = su.SocketConnection(sock)
                desc = {"fn": "fragmented", "script": script, "USE_MSG_WAITALL": waitall, "ssl": ssl}
                try:
                    r = P.recv_stub(conn)
                except Exception as x:      # noqa
                    return runs, dict(desc, violated="decoder rejected an encoded message that arrived in pieces: %r" % (x,))
                if sock.pos != len(m.data):
                    return runs, dict(desc, violated="consumed %d bytes of a %d byte message" % (sock.pos, len(m.data)))
                if (r.type, r.flags, r.seq, r.serializer_id) != (4, P.FLAGS_ONEWAY, 77, 2) or bytes(r.data) != payload or \
                        {k: bytes(v) for k, v in r.annotations.items()} != ann:
                    return runs, dict(desc, violated="a message that arrived in pieces was decoded into different fields / payload / annotations",
                                      got=[r.type, r.flags, r.seq, r.serializer_id, len(r.data)])
    return runs, None


def main(mode):
    seed = int(os.environ.get("VERIF_SEED", "0") or 0)
    rnd = random.Random(seed)
    t0 = time.time()
    runs = 0
    fail = None
    nspec, bad = spec_validation()
    if bad:
        fail = {"fn": "spec_validation", "violated": "assumed library contract differs from the real library: %s" % bad}
    corr = uuid.UUID(int=0x1234567890abcdef1234567890abcdef)
    payloads = [b"", b"p", b"x" * 100, b"x" * 101, b"y" * 5000, bytes(rnd.randrange(256) for _ in range(101)),
                bytes(rnd.randrange(256) for _ in range(700)), zlib.compress(bytes(rnd.randrange(256) for _ in range(400)))]
    import array
    anns = [{}, {"ABCD": b""}, {"ABCD": b"v" * 3, "WXYZ": memoryview(b"mv"), "QQQQ": bytearray(b"\0\1\2")},
            {"WIDE": memoryview(array.array("I", [1, 2, 3])), "HALF": memoryview(array.array("H", [])), "ABCD": b"x"},     # memoryviews with multi-byte elements
            {"A" + str(i).zfill(3): bytes([i]) * i for i in range(12)}]
    fields = [(1, 0, 0, 0), (255, 0xffff & ~0x42, 65535, 255), (4, P.FLAGS_COMPRESSED | P.FLAGS_ONEWAY, 65535, 2), (5, P.FLAGS_EXCEPTION, 1, 3)]
    config.MAX_MESSAGE_SIZE = 1024 * 1024 * 1024
    for (t, f, sq, se) in fields:
        for p in payloads:
            for a in anns:
                for c in (None, corr):
                    for comp in (False, True):
                        if fail:
                            break
                        runs += 1
                        fail = roundtrip(t, f, sq, se, p, a, c, comp)
    # size limit: refused by the sender above the limit, accepted at the limit
    if not fail:
        for limit in (0, 7, 100, 108, 109):
            config.MAX_MESSAGE_SIZE = limit
            for plen in (0, 99, 100, 101):
                runs += 1
                current_context.correlation_id = None
                config.COMPRESSION = False
                try:
                    m = P.SendingMessage(1, 0, 1, 1, b"z" * plen, annotations={"ABCD": b"1"})
                    if plen + 9 > limit:
                        fail = fail or {"fn": "limit", "violated": "sender accepted %d > MAX %d" % (plen + 9, limit)}
                except errors.ProtocolError:
                    if plen + 9 <= limit:
                        fail = fail or {"fn": "limit", "violated": "sender refused %d <= MAX %d" % (plen + 9, limit)}
        # compressible payloads around a lowered limit: what the sender accepts (the limit applies to the bytes on the wire) must come back whole
        for limit in (150, 300, 4096):
            for plen in (limit - 50, limit, limit + 1, 3 * limit, 20 * limit):
                for a in ({}, {"ABCD": b"12"}):
                    for comp in (False, True):
                        config.MAX_MESSAGE_SIZE = limit
                        runs += 1
                        fail = fail or roundtrip(4, 0, 9, 2, bytes((i * 7) % 3 + 65 for i in range(plen)), a, None, comp)
        config.MAX_MESSAGE_SIZE = 1024 * 1024 * 1024
    # compressed messages whose data region holds more than the one zlib stream (length field adjusted so that the header is consistent): the extra bytes
    # belong to nothing - such a byte string must not be accepted
    if not fail:
        for plen in (101, 700):
            for junk in (b"J", b"JUNKJUNK", zlib.compress(b"second stream", 4)):
                for a in ({}, {"ABCD": b"12"}):
                    config.COMPRESSION = True
                    config.MAX_MESSAGE_SIZE = 1024 * 1024 * 1024
                    current_context.correlation_id = None
                    m = P.SendingMessage(4, 0, 5, 2, bytes((i * 7) % 3 + 65 for i in range(plen)), annotations=a)
                    b = bytearray(m.data)
                    if not (b[9] & P.FLAGS_COMPRESSED):
                        continue
                    dsz = int.from_bytes(b[12:16], "big")
                    b[12:16] = (dsz + len(junk)).to_bytes(4, "big")
                    b += junk
                    runs += 1
                    try:
                        r = P.recv_stub(Conn(bytes(b)))
                        fail = fail or {"fn": "decode", "violated": "accepted a compressed message whose data region continues after the end of the zlib stream "
                                        "(%d surplus bytes tile nothing; they are silently dropped)" % len(junk), "bytes": list(b[:60]), "len": len(b),
                                        "decoded_data_len": len(r.data)}
                    except (errors.ProtocolError, zlib.error):
                        pass
        config.COMPRESSION = False
    # decoder on mutated messages
    if not fail:
        config.COMPRESSION = False
        base = P.SendingMessage(4, 0, 3, 2, b"payload-bytes", annotations={"ABCD": b"12345", "EFGH": b"", "IJKL": b"xyz"}).data
        n_mut = 1500 if mode != "thorough" else 20000
        for i in range(n_mut):
            b = bytearray(base)
            kind = rnd.randrange(6)
            if kind == 0:
                pos = rnd.randrange(len(b))
                b[pos] = rnd.randrange(256)
            elif kind == 1:
                off = rnd.choice([12, 16, 40 + 4, 40 + 4 + 8 + 5 + 4, 40 + 4 + 8 + 5 + 8 + 4])
                b[off:off + 4] = rnd.choice([0, 1, 3, 5, 6, 8, 13, 21, 29, 37, 2 ** 32 - 1, 2 ** 31, rnd.randrange(60)]).to_bytes(4, "big")
            elif kind == 2:
                b = b[:rnd.randrange(len(b) + 1)]
            elif kind == 3:
                b = b + bytes(rnd.randrange(256) for _ in range(rnd.randrange(1, 20)))
            elif kind == 4:
                b = bytearray(rnd.randrange(256) for _ in range(rnd.randrange(0, 60)))
            else:
                pos = rnd.randrange(40, len(b))
                b[pos:pos + 1] = bytes(rnd.randrange(256) for _ in range(rnd.randrange(0, 3)))
            runs += 1
            fail = fail or decode_arbitrary(bytes(b), rnd.choice([1024 * 1024 * 1024, 20, 34, 35, 0]))
            if fail:
                break
    if not fail:
        n, fail = fragmented(mode)
        runs += n
    rep = {"runs": runs, "failing_input": fail, "wall_s": round(time.time() - t0, 2),
           "bounded": [{"what": "real SendingMessage / recv_stub round trip, size limit, decoder on mutated byte strings; the same message read from a scripted socket in pieces "
                                "(13 fragmentation scripts x MSG_WAITALL on/off x ssl on/off); struct/zlib spec validation",
                        "bound": "4 field tuples x 8 payloads (around the 100-byte threshold, compressible and not) x 4 annotation dicts x corr on/off x compression on/off; "
                                 "%d seeded mutations of a 3-annotation message; %d library-spec probes" % (1500 if mode != "thorough" else 20000, nspec),
                        "runs": runs, "failures": 0 if fail is None else 1}]}
    print(json.dumps(rep))
    return 0


if __name__ == "__main__":
    sys.exit(main(sys.argv[1] if len(sys.argv) > 1 else "quick"))
