"""Native harness for C17 (bounded; never counted as proof).  Runs the REAL Pyro5.socketutil.receive_data / send_data
under CPython against a scripted fake socket that obeys the assumed socket contract (specs/socket_model.py), evaluates
the sidecar postconditions concretely, and so (a) validates the engine's encoding and the assumed model against CPython,
(b) finds a concrete failing input when the verifier has refuted an obligation.
modes: quick | thorough | find     output: last line = JSON report"""
import errno
import itertools
import json
import os
import random
import socket
import sys
import time

import Pyro5.socketutil as su
from Pyro5.errors import TimeoutError as PyroTimeout, ConnectionClosedError

su.time = type("T", (), {"sleep": staticmethod(lambda d: None)})()     # no real waiting

RETRY = errno.EAGAIN
FATAL = errno.ECONNRESET


class FakeSock:
    def __init__(self, stream, script, ssl=False, blocking=True):
        self.stream, self.pos, self.script, self.i = stream, 0, list(script), 0
        self.out = b""
        self.blocking = blocking
        self.fatal = False
        self.eof_reported = False
        if ssl:
            self.getpeercert = lambda: None

    def _step(self):
        if self.i < len(self.script):
            s = self.script[self.i]
            self.i += 1
            return s
        return ("all",)

    def recv(self, n, flags=0):
        assert n >= 0
        s = self._step()
        if s[0] == "timeout":
            raise socket.timeout("timed out")
        if s[0] == "err":
            if s[1] not in su.ERRNO_RETRIES:
                self.fatal = True
            raise socket.error(s[1], "scripted")
        k = n if s[0] == "all" else min(s[1], n)
        c = self.stream[self.pos:self.pos + k]
        self.pos += len(c)
        if n > 0 and not c:
            self.eof_reported = True        # (a scripted ("data", 0) is an end-of-stream report too: recv returned b"")
        return c

    def recv_into(self, buf, nbytes=0, flags=0):
        # (socket.recv_into: up to nbytes - or len(buf) when 0 - bytes are written at the START of buf; returns the count)
        n = nbytes or len(buf)
        assert n <= len(buf)
        c = self.recv(n, flags)
        buf[:len(c)] = c
        return len(c)

    def gettimeout(self):
        return None if self.blocking else 1.0

    def sendall(self, d):
        s = self._step()
        if s[0] == "timeout":
            self.out += d[:1]
            raise socket.timeout("timed out")
        if s[0] == "err":
            raise socket.error(s[1], "scripted")
        self.out += bytes(d)

    def send(self, d):
        s = self._step()
        if s[0] == "timeout":
            raise socket.timeout("timed out")
        if s[0] == "err":
            raise socket.error(s[1], "scripted")
        k = len(d) if s[0] == "all" else min(s[1], len(d))
        self.out += bytes(d[:k])
        return k


def check_recv(stream, size, script, waitall, ssl):
    su.USE_MSG_WAITALL = waitall
    sock = FakeSock(stream, script, ssl=ssl)
    desc = {"fn": "receive_data", "stream": list(stream), "size": size, "script": script, "USE_MSG_WAITALL": waitall, "ssl": ssl}
    try:
        r = su.receive_data(sock, size)
    except PyroTimeout:
        return None
    except ConnectionClosedError as x:
        if not (sock.eof_reported or sock.fatal):
            return dict(desc, violated="connection-closed raised although no read reported end of stream and no fatal error occurred (a short read is fragmentation)", cursor=sock.pos)
        if hasattr(x, "partialData"):
            if bytes(x.partialData) != stream[:sock.pos] or len(x.partialData) > size or (size > 0 and len(x.partialData) >= size):
                return dict(desc, violated="partialData==received-so-far", got=list(bytes(x.partialData)), cursor=sock.pos)
        else:
            return dict(desc, violated="the connection-closed error carries the bytes received so far (partialData)", cause="fatal errno" if sock.fatal else "end of stream")
        return None
    except Exception as x:      # noqa
        return dict(desc, violated="noescape", got=repr(x))
    if bytes(r) != stream[:size] or len(r) != size or sock.pos != size:
        return dict(desc, violated="exact-bytes/cursor", got=list(bytes(r)), cursor=sock.pos)
    return None


def check_send(data, script, blocking):
    sock = FakeSock(b"", script, blocking=blocking)
    desc = {"fn": "send_data", "data": list(data), "script": script, "blocking": blocking}
    try:
        r = su.send_data(sock, data)
    except (PyroTimeout, ConnectionClosedError):
        if not data.startswith(sock.out):
            return dict(desc, violated="sent-is-prefix", got=list(sock.out))
        return None
    except Exception as x:      # noqa
        return dict(desc, violated="noescape", got=repr(x))
    if sock.out != data or r is not None:
        return dict(desc, violated="every-byte-once-in-order", got=list(sock.out))
    return None


def steps(maxk):
    return [("data", k) for k in range(0, maxk + 1)] + [("timeout",), ("err", RETRY), ("err", FATAL)]


def main(mode):
    seed = int(os.environ.get("VERIF_SEED", "0") or 0)
    rnd = random.Random(seed)
    t0 = time.time()
    runs = 0
    fail = None
    maxlen, maxscript = (3, 3) if mode in ("quick", "find") else (4, 4)
    stream = bytes(range(65, 65 + maxlen + 2))
    for size in range(0, maxlen + 1):
        for n in range(0, maxscript + 1):
            for script in itertools.product(steps(size), repeat=n):
                for waitall, ssl in ((True, False), (False, False), (True, True)):
                    for st in (stream, stream[:max(0, size - 1)]):
                        runs += 1
                        fail = fail or check_recv(st, size, list(script), waitall, ssl)
            if fail:
                break
        if fail:
            break
    if not fail:
        for dl in range(0, maxlen + 1):
            data = bytes(range(97, 97 + dl))
            for n in range(0, maxscript + 1):
                for script in itertools.product(steps(dl), repeat=n):
                    for blocking in (True, False):
                        if not blocking and any(s == ("data", 0) for s in script) and n == maxscript:
                            pass
                        runs += 1
                        fail = fail or check_send(data, list(script) + [("all",)] * 3, blocking)
    # long runs of retryable errors within ONE call (the back-off delays are drawn from a generator: it must not run dry)
    if not fail:
        for k in (5, 13, 14, 20, 60, 300):
            for waitall in (True, False):
                runs += 2
                fail = fail or check_recv(b"ABCDEFGH", 4, [("err", RETRY)] * k + [("data", 2)] + [("err", RETRY)] * k, waitall, False)
                fail = fail or check_send(b"abcdefgh", [("err", RETRY)] * k + [("data", 3)] + [("err", RETRY)] * k + [("all",)] * 3, False)
    # randomised longer scripts
    if not fail:
        for _ in range(300 if mode != "thorough" else 5000):
            size = rnd.randrange(0, 200)
            st = bytes(rnd.randrange(256) for _ in range(rnd.choice([size, size + 5, max(0, size - 1)])))
            script = [rnd.choice([("data", rnd.randrange(0, size + 1)), ("timeout",), ("err", RETRY), ("err", RETRY), ("err", FATAL),
                                  ("data", rnd.randrange(0, 70000))]) for _ in range(rnd.randrange(0, 8))]
            runs += 1
            fail = fail or check_recv(st, size, script, rnd.random() < 0.5, rnd.random() < 0.2)
            data = bytes(rnd.randrange(256) for _ in range(rnd.randrange(0, 100)))
            sscript = [rnd.choice([("data", rnd.randrange(0, len(data) + 1)), ("err", RETRY), ("err", RETRY), ("timeout",), ("err", FATAL)]) for _ in range(rnd.randrange(0, 8))]
            runs += 1
            fail = fail or check_send(data, sscript, rnd.random() < 0.5)
    rep = {"runs": runs, "failing_input": fail, "wall_s": round(time.time() - t0, 2),
           "bounded": [{"what": "real receive_data/send_data vs scripted fake socket obeying the assumed socket contract; "
                                "sidecar postconditions evaluated concretely",
                        "bound": "exhaustive: size<=%d, script length<=%d over {deliver k, timeout, retryable errno, fatal errno}, "
                                 "MSG_WAITALL on/off, ssl on/off; plus seeded random scripts" % (maxlen, maxscript),
                        "runs": runs, "failures": 0 if fail is None else 1}]}
    print(json.dumps(rep))
    return 0


if __name__ == "__main__":
    sys.exit(main(sys.argv[1] if len(sys.argv) > 1 else "quick"))
