"""Native harness for C09 (bounded).  REAL Daemon._getInstance under CPython over generated instance shapes (truthy, falsy via
__len__/__bool__, custom __eq__/__hash__), modes, creators (none / ok / wrong type / raising), call histories over two
connections, and a forced two-thread schedule for 'single' (first creation parked while a second first call arrives).
modes: quick | thorough | find      output: last line = JSON report"""
import itertools
import json
import os
import sys
import threading
import time

import Pyro5.server as S
import Pyro5.socketutil as su


class FakeSock:
    def close(self): pass
    def shutdown(self, *a): pass


_DAEMON = []


def mk_daemon():
    """a real Daemon (so that whatever state __init__ sets up for instance creation exists), its instance table emptied"""
    if not _DAEMON:
        _DAEMON.append(S.Daemon(host="127.0.0.1", port=0))
    d = _DAEMON[0]
    d._pyroInstances.clear()
    return d


def shapes():
    class Truthy:
        pass

    class FalsyLen:
        def __len__(self): return 0

    class FalsyBool:
        def __bool__(self): return False

    class EqAll:
        def __eq__(self, other): return True
        def __hash__(self): return 1

    class EqNone:
        def __eq__(self, other): return False
        __hash__ = None
    return [Truthy, FalsyLen, FalsyBool, EqAll, EqNone]


def run_history(cls, mode, creator_kind, history):
    log = []

    def creator(c):
        log.append("creator")
        if creator_kind == "raise":
            raise RuntimeError("creator failed")
        if creator_kind == "wrong":
            return object()
        return c()
    if creator_kind == "falsy":
        class FalsyFactory(object):             # a callable factory object that is falsy (container-like): still THE instance creator
            def __len__(self):
                return 0

            def __call__(self, c):
                log.append("creator")
                return c()
        creator = FalsyFactory()
    cls._pyroInstancing = (mode, None if creator_kind == "none" else creator)
    d = mk_daemon()
    conns = [su.SocketConnection(FakeSock()), su.SocketConnection(FakeSock())]
    seen = {0: [], 1: []}
    desc = {"fn": "_getInstance", "class": cls.__name__, "mode": mode, "creator": creator_kind, "history": history}
    for ci in history:
        n_before = len(log)
        try:
            inst = d._getInstance(cls, conns[ci])
        except (RuntimeError, TypeError):
            if creator_kind in ("raise", "wrong"):
                if d._pyroInstances or conns[0].pyroInstances or conns[1].pyroInstances:
                    return dict(desc, violated="failing creation stored something")
                continue
            return dict(desc, violated="unexpected exception")
        if not isinstance(inst, cls):
            return dict(desc, violated="result is not an instance")
        seen[ci].append(inst)
    allinst = seen[0] + seen[1]
    ids = {id(x) for x in allinst}
    if mode == "single" and len(ids) > 1:
        return dict(desc, violated="single: %d distinct instances served calls" % len(ids))
    if mode == "session":
        for ci in (0, 1):
            if len({id(x) for x in seen[ci]}) > 1:
                return dict(desc, violated="session: connection %d saw %d instances" % (ci, len({id(x) for x in seen[ci]})))
        if seen[0] and seen[1] and {id(x) for x in seen[0]} & {id(x) for x in seen[1]}:
            return dict(desc, violated="session: instance shared between connections")
    if mode == "percall" and len(ids) != len(allinst):
        return dict(desc, violated="percall: instance reused")
    if creator_kind in ("ok", "falsy") and len(log) != len(ids):
        return dict(desc, violated="creator called %d times for %d instances" % (len(log), len(ids)))
    for c in conns:
        c.close()
        if c.pyroInstances:
            return dict(desc, violated="session instances survive close()")
    return None


def forced_race():
    """two first calls on a 'single' class: the first creation is parked until the second call has reached _getInstance"""
    d = mk_daemon()
    started = threading.Event()
    second_in = threading.Event()
    made = []

    class Single:
        pass

    def creator(c):
        made.append(1)
        if len(made) == 1:
            started.set()
            second_in.wait(1.0)
        return c()
    Single._pyroInstancing = ("single", creator)
    res = []
    c1, c2 = su.SocketConnection(FakeSock()), su.SocketConnection(FakeSock())
    t1 = threading.Thread(target=lambda: res.append(d._getInstance(Single, c1)))
    t1.start()
    started.wait(2.0)

    def second():
        second_in.set()
        res.append(d._getInstance(Single, c2))
    t2 = threading.Thread(target=second)
    t2.start()
    # the unlocked variant lets t2 pass the lookup before t1 stores: give it a moment, then release
    t1.join(3.0)
    t2.join(3.0)
    if len(made) != 1 or len({id(x) for x in res}) != 1:
        return {"fn": "_getInstance/schedule", "schedule": "T1 parked inside creator; T2 enters _getInstance; T1 resumes",
                "violated": "single: %d creations, %d distinct instances" % (len(made), len({id(x) for x in res}))}
    return None


def line_schedules(max_k):
    """bounded schedule exploration at source-line granularity (replay/sched.py): two connections make the FIRST call on a 'single' class at the
    same time; whatever the interleaving, one instance is created and both calls are served by it"""
    import replay.sched as sched

    def make():
        from Pyro5 import config
        saved = config.SERVERTYPE
        config.SERVERTYPE = "multiplex"          # (no thread pool to wind down when the daemon is closed; the transport is not used here)
        try:
            d = S.Daemon(host="127.0.0.1", port=0)
        finally:
            config.SERVERTYPE = saved
        made = []

        class Single:
            pass

        def creator(c):
            made.append(1)
            return c()
        Single._pyroInstancing = ("single", creator)
        c1, c2 = su.SocketConnection(FakeSock()), su.SocketConnection(FakeSock())
        return [lambda: d._getInstance(Single, c1), lambda: d._getInstance(Single, c2)], (d, made)

    def oracle(ctx, workers):
        d, made = ctx
        try:
            d.close()
        except Exception:      # noqa
            pass
        errs = [repr(w.error) for w in workers if w.error is not None]
        if errs:
            return {"fn": "_getInstance/line-schedule", "violated": "exception in a first call: %s" % errs}
        if not all(w.done.is_set() for w in workers):
            return {"fn": "_getInstance/line-schedule", "violated": "a first call never returned (deadlock)"}
        insts = {id(w.result) for w in workers}
        if len(made) != 1 or len(insts) != 1:
            return {"fn": "_getInstance/line-schedule", "violated": "single: %d creations, %d distinct instances for two concurrent first calls" % (len(made), len(insts))}
        return None
    runs, bad = sched.explore([S.__file__], make, oracle, max_k=max_k)
    if bad:
        return runs, bad

    # a first call interleaved with the daemon's periodic housekeeping: whatever the interleaving, the instance created by the first call serves the next call too
    def make2():
        from Pyro5 import config
        saved = config.SERVERTYPE
        config.SERVERTYPE = "multiplex"
        try:
            d = S.Daemon(host="127.0.0.1", port=0)
        finally:
            config.SERVERTYPE = saved
        made = []

        class Single:
            pass

        def creator(c):
            made.append(1)
            return c()
        Single._pyroInstancing = ("single", creator)
        d.register(Single, "single-class")
        c1 = su.SocketConnection(FakeSock())
        return [lambda: d._getInstance(Single, c1), lambda: d._housekeeping()], (d, made, Single, c1)

    def oracle2(ctx, workers):
        d, made, Single, c1 = ctx
        errs = [repr(w.error) for w in workers if w.error is not None]
        again = None
        if not errs:
            try:
                again = d._getInstance(Single, su.SocketConnection(FakeSock()))
            except Exception as x:      # noqa
                errs.append(repr(x))
        try:
            d.close()
        except Exception:      # noqa
            pass
        if errs:
            return {"fn": "_getInstance/housekeeping line-schedule", "violated": "exception: %s" % errs}
        if len(made) != 1 or again is not workers[0].result:
            return {"fn": "_getInstance/housekeeping line-schedule",
                    "violated": "single: %d creations; the call after a housekeeping pass was served by %s instance" % (len(made), "the same" if again is workers[0].result else "ANOTHER")}
        return None
    n2, bad = sched.explore([S.__file__], make2, oracle2, max_k=max_k)
    return runs + n2, bad


def main(mode):
    t0 = time.time()
    runs = 0
    fail = None
    maxh = 3 if mode != "thorough" else 5
    for cls in shapes():
        for m in ("single", "session", "percall"):
            for ck in ("none", "ok", "wrong", "raise", "falsy"):
                for n in range(1, maxh + 1):
                    for h in itertools.product((0, 1), repeat=n):
                        runs += 1
                        fail = fail or run_history(cls, m, ck, list(h))
    if not fail:
        for _ in range(3 if mode != "thorough" else 20):
            runs += 1
            fail = fail or forced_race()
    if not fail:
        n, fail = line_schedules(12 if mode != "thorough" else 30)
        runs += n
    for d in _DAEMON:
        d.close()
    rep = {"runs": runs, "failing_input": fail, "wall_s": round(time.time() - t0, 2),
           "bounded": [{"what": "real Daemon._getInstance over instance shapes x modes x creators x call histories on two connections; forced 2-thread schedule for 'single'; line-granular two-thread schedules (strict alternation, and 'A runs k lines, then B') of two concurrent first calls",
                        "bound": "5 shapes x 3 modes x 5 creator kinds (none, ok, wrong type, raising, falsy callable object) x all histories of length <= %d over 2 connections" % maxh, "runs": runs,
                        "failures": 0 if fail is None else 1}]}
    print(json.dumps(rep))
    return 0


if __name__ == "__main__":
    sys.exit(main(sys.argv[1] if len(sys.argv) > 1 else "quick"))
