"""Native harness for C09 (bounded).  REAL Daemon._getInstance under CPython over generated instance shapes (truthy, falsy via
__len__/__bool__, custom __eq__/__hash__), modes, creators (none / ok / wrong type / raising), call histories over two
connections, and a forced two-thread schedule for 'single' (first creation parked while a second first call arrives).
modes: quick | thorough | find      output: last line = JSON report"""
import itertools
import json
import os
import sys
import threading
import time

import Pyro5.server as S
import Pyro5.socketutil as su


class FakeSock:
    def close(self): pass
    def shutdown(self, *a): pass


def mk_daemon():
    d = S.Daemon.__new__(S.Daemon)
    d._pyroInstances = {}
    d.create_single_instance_lock = threading.Lock()
    return d


def shapes():
    class Truthy:
        pass

    class FalsyLen:
        def __len__(self): return 0

    class FalsyBool:
        def __bool__(self): return False

    class EqAll:
        def __eq__(self, other): return True
        def __hash__(self): return 1

    class EqNone:
        def __eq__(self, other): return False
        __hash__ = None
    return [Truthy, FalsyLen, FalsyBool, EqAll, EqNone]


def run_history(cls, mode, creator_kind, history):
    log = []

    def creator(c):
        log.append("creator")
        if creator_kind == "raise":
            raise RuntimeError("creator failed")
        if creator_kind == "wrong":
            return object()
        return c()
    cls._pyroInstancing = (mode, None if creator_kind == "none" else creator)
    d = mk_daemon()
    conns = [su.SocketConnection(FakeSock()), su.SocketConnection(FakeSock())]
    seen = {0: [], 1: []}
    desc = {"fn": "_getInstance", "class": cls.__name__, "mode": mode, "creator": creator_kind, "history": history}
    for ci in history:
        n_before = len(log)
        try:
            inst = d._getInstance(cls, conns[ci])
        except (RuntimeError, TypeError):
            if creator_kind in ("raise", "wrong"):
                if d._pyroInstances or conns[0].pyroInstances or conns[1].pyroInstances:
                    return dict(desc, violated="failing creation stored something")
                continue
            return dict(desc, violated="unexpected exception")
        if not isinstance(inst, cls):
            return dict(desc, violated="result is not an instance")
        seen[ci].append(inst)
    allinst = seen[0] + seen[1]
    ids = {id(x) for x in allinst}
    if mode == "single" and len(ids) > 1:
        return dict(desc, violated="single: %d distinct instances served calls" % len(ids))
    if mode == "session":
        for ci in (0, 1):
            if len({id(x) for x in seen[ci]}) > 1:
                return dict(desc, violated="session: connection %d saw %d instances" % (ci, len({id(x) for x in seen[ci]})))
        if seen[0] and seen[1] and {id(x) for x in seen[0]} & {id(x) for x in seen[1]}:
            return dict(desc, violated="session: instance shared between connections")
    if mode == "percall" and len(ids) != len(allinst):
        return dict(desc, violated="percall: instance reused")
    if creator_kind == "ok" and len(log) != len(ids):
        return dict(desc, violated="creator called %d times for %d instances" % (len(log), len(ids)))
    for c in conns:
        c.close()
        if c.pyroInstances:
            return dict(desc, violated="session instances survive close()")
    return None


def forced_race():
    """two first calls on a 'single' class: the first creation is parked until the second call has reached _getInstance"""
    d = mk_daemon()
    started = threading.Event()
    second_in = threading.Event()
    made = []

    class Single:
        pass

    def creator(c):
        made.append(1)
        if len(made) == 1:
            started.set()
            second_in.wait(1.0)
        return c()
    Single._pyroInstancing = ("single", creator)
    res = []
    c1, c2 = su.SocketConnection(FakeSock()), su.SocketConnection(FakeSock())
    t1 = threading.Thread(target=lambda: res.append(d._getInstance(Single, c1)))
    t1.start()
    started.wait(2.0)

    def second():
        second_in.set()
        res.append(d._getInstance(Single, c2))
    t2 = threading.Thread(target=second)
    t2.start()
    # the unlocked variant lets t2 pass the lookup before t1 stores: give it a moment, then release
    t1.join(3.0)
    t2.join(3.0)
    if len(made) != 1 or len({id(x) for x in res}) != 1:
        return {"fn": "_getInstance/schedule", "schedule": "T1 parked inside creator; T2 enters _getInstance; T1 resumes",
                "violated": "single: %d creations, %d distinct instances" % (len(made), len({id(x) for x in res}))}
    return None


def main(mode):
    t0 = time.time()
    runs = 0
    fail = None
    maxh = 3 if mode != "thorough" else 5
    for cls in shapes():
        for m in ("single", "session", "percall"):
            for ck in ("none", "ok", "wrong", "raise"):
                for n in range(1, maxh + 1):
                    for h in itertools.product((0, 1), repeat=n):
                        runs += 1
                        fail = fail or run_history(cls, m, ck, list(h))
    if not fail:
        for _ in range(3 if mode != "thorough" else 20):
            runs += 1
            fail = fail or forced_race()
    rep = {"runs": runs, "failing_input": fail, "wall_s": round(time.time() - t0, 2),
           "bounded": [{"what": "real Daemon._getInstance over instance shapes x modes x creators x call histories on two connections; forced 2-thread schedule for 'single'",
                        "bound": "5 shapes x 3 modes x 4 creator kinds x all histories of length <= %d over 2 connections" % maxh, "runs": runs,
                        "failures": 0 if fail is None else 1}]}
    print(json.dumps(rep))
    return 0


if __name__ == "__main__":
    sys.exit(main(sys.argv[1] if len(sys.argv) > 1 else "quick"))
