"""Native harness for C01 (bounded): generated values through the REAL serializers on both paths (dumpsCall/loadsCall as positional, keyword and nested
argument; dumps/loads as result) and through a REAL in-process daemon (echo method: what the method saw, what the proxy returned; batch result, streamed item),
compression on and off.  Oracles: (1) lossless core: every path delivers exactly the value sent (type-exact, NaN- and signed-zero-aware);
(2) symmetry: the argument path and the result path deliver the same value for the same input, in every position; (3) idempotence: applying the
serializer's mapping twice changes nothing; (4) what the server method received / the proxy returned equals the locally computed mapping.
modes: quick | thorough | find      output: last line = JSON report"""
import datetime
import os
import decimal
import json
import math
import random
import sys
import threading
import time
import uuid

import Pyro5.api as api
import Pyro5.server as server
import Pyro5.client as client
import Pyro5.errors as errors
import Pyro5.serializers as serializers
from Pyro5 import config


def same(a, b):
    """type-exact structural equality; NaN equals NaN, -0.0 differs from 0.0"""
    if type(a) is not type(b):
        return False
    if isinstance(a, float):
        if math.isnan(a) or math.isnan(b):
            return math.isnan(a) and math.isnan(b)
        return a == b and math.copysign(1, a) == math.copysign(1, b)
    if isinstance(a, complex):
        return same(a.real, b.real) and same(a.imag, b.imag)
    if isinstance(a, (list, tuple)):
        return len(a) == len(b) and all(same(x, y) for x, y in zip(a, b))
    if isinstance(a, dict):
        return len(a) == len(b) and all(k in b and type(k) in [type(k2) for k2 in b if k2 == k] and same(v, b[k]) for k, v in a.items())
    if isinstance(a, (set, frozenset)):
        return a == b
    return a == b


INTS = [0, 1, -1, 255, 256, -128, -129, 2 ** 31, -2 ** 31, 2 ** 32, 2 ** 63 - 1, 2 ** 63, -2 ** 63, -2 ** 63 - 1, 2 ** 64, 2 ** 64 - 1, -2 ** 64, 2 ** 71, 2 ** 72 - 1, 2 ** 127,
        2 ** 128, -2 ** 127, -2 ** 128 - 1, 2 ** 200 + 12345, -2 ** 200 - 7, 10 ** 40, -10 ** 40, 2 ** 255, 2 ** 256 - 1]
FLOATS = [0.0, -0.0, 1.5, -2.25, 1e308, -1e308, 5e-324, 0.1, float("inf"), float("-inf"), float("nan"), 3.141592653589793, 1e-7, 123456789.123456789]
TEXTS = ["", "a", "hello world", "\x00", "tab\tnl\ncr\r", "quote'\"\\", "éè", "€", "\U0001f600", "é", "퟿", "�", "  ", "__class_", "\x7f\x80", "a" * 300,
         "  ", "\u0085", "{}[]()#", "# comment", "None", "True", "1e5", "nan", "'''", "\\u1234", "\\x00"]


def object_values():
    import Pyro5.core as core
    u = core.URI("PYRO:obj@host:1")
    u2 = core.URI("PYRONAME:thing")
    e = ValueError("bad", 3)
    n = errors.NamingError("nope")
    atoms = [u, e, n]
    out = []
    for a in atoms:
        out += [a, [a], (a,), {"k": a}, [(a,)], [[a]], [{"k": a}], ({"k": [a]},), {"k": (a,)}, [(1, [a, (a,)])], [[(a, 2)], "x"], ((a,),), [u, (u2, [a])], {"k": [(a,)]}]
    out += [[set([u])], [frozenset([u2])], (set([u]),)]
    return out


def core_value(rnd, depth):
    r = rnd.random()
    if depth <= 0 or r < 0.45:
        k = rnd.randrange(5)
        if k == 0:
            return None
        if k == 1:
            return rnd.choice([True, False])
        if k == 2:
            return rnd.choice(INTS) if rnd.random() < 0.7 else rnd.randrange(-10 ** 30, 10 ** 30)
        if k == 3:
            return rnd.choice(FLOATS) if rnd.random() < 0.7 else rnd.uniform(-1e6, 1e6)
        return rnd.choice(TEXTS) if rnd.random() < 0.7 else "".join(chr(rnd.choice([rnd.randrange(32, 127), rnd.randrange(0xa0, 0xd7ff), rnd.randrange(0x10000, 0x10ffff)])) for _ in range(rnd.randrange(0, 8)))
    if r < 0.75:
        return [core_value(rnd, depth - 1) for _ in range(rnd.randrange(0, 4))]
    return {rnd.choice(TEXTS + ["k1", "k2", "state", "args", "__exception__", "value"]): core_value(rnd, depth - 1) for _ in range(rnd.randrange(0, 4))}


def ext_value(rnd, depth):
    r = rnd.random()
    if depth <= 0 or r < 0.4:
        k = rnd.randrange(10)
        if k == 0:
            return rnd.choice([b"", b"abc", b"\x00\xff", bytes(range(256)), b"x" * 200])
        if k == 1:
            return complex(rnd.choice(FLOATS[:10]), rnd.choice(FLOATS[:10]))
        if k == 2:
            return uuid.UUID(int=rnd.getrandbits(128))
        if k == 3:
            return decimal.Decimal(rnd.choice(["0", "1.5", "-3.25", "1E+30", "0.1000"]))
        if k == 4:
            return datetime.date(2000 + rnd.randrange(30), 1 + rnd.randrange(12), 1 + rnd.randrange(28))
        if k == 5:
            return datetime.datetime(2000 + rnd.randrange(30), 1 + rnd.randrange(12), 1 + rnd.randrange(28), rnd.randrange(24), rnd.randrange(60), rnd.randrange(60))
        if k == 6:
            return bytearray(b"ba\x00")
        return core_value(rnd, 0)
    if r < 0.55:
        return tuple(ext_value(rnd, depth - 1) for _ in range(rnd.randrange(0, 4)))
    if r < 0.65:
        return set(rnd.sample([1, 2, 3, "a", "b", 2 ** 70, 1.5, None, (1, 2)], rnd.randrange(0, 3)))
    if r < 0.70:
        return frozenset(rnd.sample([1, "a", 2 ** 70], rnd.randrange(0, 2)))
    if r < 0.85:
        return [ext_value(rnd, depth - 1) for _ in range(rnd.randrange(0, 4))]
    return {rnd.choice(["k1", "k2", "k3", "€"]): ext_value(rnd, depth - 1) for _ in range(rnd.randrange(0, 4))}


DIRECTED_EXT = [
    datetime.datetime(2500, 1, 1, 0, 0, 0, 1), [datetime.datetime(9999, 12, 31, 23, 59, 59, 999999)], datetime.datetime(2020, 5, 17, 13, 45, 59, 123457),
    [(1, 2)], [[(1, 2)]], [({"a": (1,)},)], {"k": ({"x": [1, (2, 3)]},)}, [set([1])], (set([2]),), [b"ab"], [(b"ab",)], {"k": [uuid.UUID(int=5)]},
    [[[(1, [2, (3,)])]]], ((), [], {}), [2 ** 63], [(2 ** 64,)], {"k": 2 ** 127}, [complex(1, 2)], [(complex(0, -1),)],
]


def leaves(x):
    """atomic leaves in order (containers flattened; dict values by sorted key; sets by repr order)"""
    if isinstance(x, (list, tuple)):
        return [l for e in x for l in leaves(e)]
    if isinstance(x, dict):
        return [l for k in sorted(x, key=repr) for l in leaves(x[k])]
    if isinstance(x, (set, frozenset)):
        return [l for e in sorted(x, key=repr) for l in leaves(e)]
    return [x]


def same_leaf(a, b):
    if isinstance(a, BaseException):
        return type(a) is type(b) and a.args == b.args
    return same(a, b)


def check_objects(name, ser, v):
    """values carrying Pyro's own classes (URI, exceptions): every path must hand back the objects, not their wire dicts"""
    desc = {"serializer": name, "value": repr(v)[:300]}
    want = leaves(v)
    paths = [("result", lambda: ser.loads(ser.dumps(v))), ("positional", lambda: ser.loadsCall(ser.dumpsCall("o", "m", [v], {}))[2][0]),
             ("keyword", lambda: ser.loadsCall(ser.dumpsCall("o", "m", [], {"kw": v}))[3]["kw"])]
    got = [(pn,) + attempt(f) for pn, f in paths]
    if len(set(g[1] for g in got)) != 1:
        return dict(desc, violated="accepted as %s but not as %s" % ([g[0] for g in got if g[1]], [g[0] for g in got if not g[1]]))
    if not got[0][1]:
        return None
    for pn, _, val in got:
        have = leaves(val)
        if len(have) != len(want) or not all(same_leaf(a, b) for a, b in zip(want, have)):
            return dict(desc, violated="%s path delivered %r" % (pn, val), position=pn)
    return None


def has_negzero_complex(v):
    if isinstance(v, complex):
        return (v.real == 0 and math.copysign(1, v.real) < 0) or (v.imag == 0 and math.copysign(1, v.imag) < 0)
    if isinstance(v, (list, tuple, set, frozenset)):
        return any(has_negzero_complex(x) for x in v)
    if isinstance(v, dict):
        return any(has_negzero_complex(x) for x in v.values())
    return False


def has_far_datetime(v):
    if isinstance(v, datetime.datetime):
        return v.year >= 2200
    if isinstance(v, (list, tuple, set, frozenset)):
        return any(has_far_datetime(x) for x in v)
    if isinstance(v, dict):
        return any(has_far_datetime(x) for x in v.values())
    return False


def attempt(f):
    try:
        return True, f()
    except Exception as x:      # noqa
        return False, x


def check_local(name, ser, v, lossless):
    """top-level and nested positions separately: result vs positional vs keyword argument must agree in acceptance and in value"""
    desc = {"serializer": name, "value": repr(v)[:300]}
    if name == "serpent" and has_negzero_complex(v):
        # listed known finding: serpent's text form of complex numbers loses the sign of a zero part step by step
        ok, r1 = attempt(lambda: ser.loads(ser.dumps(v)))
        ok2, r2 = attempt(lambda: ser.loads(ser.dumps(r1)))
        if ok and ok2 and not same(r1, r2) and "C01-serpent-complex-negative-zero" not in KNOWN:
            KNOWN.append("C01-serpent-complex-negative-zero")
        return None

    if name == "msgpack" and has_far_datetime(v):
        # listed known finding: the msgpack datetime extension is a C double - microseconds drift far from the epoch
        ok, r1 = attempt(lambda: ser.loads(ser.dumps(v)))
        if (not ok or not same(r1, v)) and "C01-msgpack-datetime-double-precision" not in KNOWN:
            KNOWN.append("C01-msgpack-datetime-double-precision")
        return None

    def call(args, kwargs):
        o, m, a, k = ser.loadsCall(ser.dumpsCall("obj", "meth", args, kwargs))
        if (o, m) != ("obj", "meth"):
            raise AssertionError("object id / method name changed: %r %r" % (o, m))
        return a, k
    positions = {
        "top-level": [("result", lambda: ser.loads(ser.dumps(v))), ("positional", lambda: call([v], {})[0][0]), ("keyword", lambda: call([], {"kw": v})[1]["kw"])],
        "nested": [("result", lambda: ser.loads(ser.dumps([v, {"in": v}]))), ("positional", lambda: call([[v, {"in": v}]], {})[0][0]),
                   ("keyword", lambda: call([], {"kw": [v, {"in": v}]})[1]["kw"])],
    }
    for where, paths in positions.items():
        got = [(pn,) + attempt(f) for pn, f in paths]
        oks = [g[1] for g in got]
        if lossless and not all(oks):
            bad = [g for g in got if not g[1]][0]
            return dict(desc, violated="a lossless-core value is not accepted (%s, as %s): %r" % (where, bad[0], bad[2]), position=where)
        if len(set(oks)) != 1:
            return dict(desc, violated="%s: accepted as %s but not as %s: %r" % (where, [g[0] for g in got if g[1]], [g[0] for g in got if not g[1]],
                                                                                 [g[2] for g in got if not g[1]][0]), position=where)
        if not oks[0]:
            continue        # not a value this serializer supports in this position
        res = got[0][2]
        want = v if where == "top-level" else [v, {"in": v}]
        for pn, _, val in got:
            if lossless and not same(val, want):
                return dict(desc, violated="lossless core: %s %s delivered %r" % (where, pn, val), position=where + "/" + pn)
            if not same(val, res):
                return dict(desc, violated="asymmetric mapping (%s): as result %r, as %s %r" % (where, res, pn, val), position=where + "/" + pn)
        ok2, again = attempt(lambda: ser.loads(ser.dumps(res)))
        if not ok2:
            return dict(desc, violated="the mapped value %r cannot be sent again: %r" % (res, again))
        if not same(again, res):
            return dict(desc, violated="mapping is not idempotent: %r -> %r -> %r" % (want, res, again))
    return None


SEEN = []
KNOWN = []


@api.expose
class Echo(object):
    def echo(self, *args, **kwargs):
        SEEN.append((args, kwargs))
        return args[0] if args else kwargs["kw"]

    def items(self, v):
        return iter([v, [v]])

    def blob(self, b):
        SEEN.append(("blob", b.info))
        return b.deserialized()


ANNOTATE = [False]


class AnnotatingDaemon(server.Daemon):
    """replies carry an annotation when ANNOTATE is on (a message with annotations reaches the deserializer as a memoryview slice, not as bytes)"""

    def annotations(self):
        return {"XTRA": b"reply-annotation"} if ANNOTATE[0] else {}


class Wire:
    def __init__(self):
        self.saved = (config.SERVERTYPE, config.COMPRESSION, config.SERIALIZER)
        config.SERVERTYPE = "thread"
        self.daemon = AnnotatingDaemon(host="127.0.0.1", port=0)
        self.uri = self.daemon.register(Echo(), "echo")
        self.thread = threading.Thread(target=self.daemon.requestLoop, daemon=True)
        self.thread.start()
        self.proxies = {}

    def proxy(self, name):
        if name not in self.proxies:
            p = client.Proxy(self.uri)
            p._pyroSerializer = name
            self.proxies[name] = p
        return self.proxies[name]

    def close(self):
        for p in self.proxies.values():
            p._pyroRelease()
        self.daemon.shutdown()
        self.thread.join(2)
        self.daemon.close()
        config.SERVERTYPE, config.COMPRESSION, config.SERIALIZER = self.saved


def check_wire(w, name, ser, v, lossless, compression, annotated=False):
    desc = {"serializer": name, "value": repr(v)[:300], "compression": compression, "annotated_messages": annotated, "over": "real daemon"}
    ANNOTATE[0] = annotated
    from Pyro5.callcontext import current_context as _ctx
    _ctx.annotations = {"XREQ": b"request-annotation"} if annotated else {}
    try:
        expect = ser.loads(ser.dumps(v))
    except Exception:      # noqa
        return None
    nested_ok = attempt(lambda: ser.loads(ser.dumps([v])))[0]
    config.COMPRESSION = compression
    p = w.proxy(name)
    del SEEN[:]
    try:
        back = p.echo(v, kw=v)
        back2 = p.echo([v], kw={"in": v}) if nested_ok else None
    except Exception as x:      # noqa
        return dict(desc, violated="remote call failed for a value both local paths accept: %r" % (x,))
    if len(SEEN) != (2 if nested_ok else 1):
        return dict(desc, violated="method ran %d times" % len(SEEN))
    (args, kwargs) = SEEN[0]
    got_list = [("positional", args[0]), ("keyword", kwargs["kw"]), ("returned", back)]
    if nested_ok:
        got_list += [("nested_in_positional", SEEN[1][0][0][0]), ("nested_in_keyword", SEEN[1][1]["kw"]["in"]), ("returned_nested", back2[0])]
    for pos, got in got_list:
        if not same(got, expect):
            return dict(desc, violated="%s: server method / client got %r, the serializer's mapping gives %r" % (pos, got, expect), position=pos)
        if lossless and not same(got, v):
            return dict(desc, violated="lossless core over the wire: %s delivered %r" % (pos, got), position=pos)
    if len(kwargs) != 1 or len(args) != 1:
        return dict(desc, violated="argument structure changed: %r %r" % (args, kwargs))
    if not nested_ok:
        return None
    # batch result and streamed item
    try:
        b = client.BatchProxy(p)
        b.echo(v)
        b.echo([v])
        r = list(b())
        if not (same(r[0], expect) and same(r[1][0], expect)):
            return dict(desc, violated="batch result differs from the plain result: %r vs %r" % (r, expect), position="batch result")
        it = p.items(v)
        got = list(it)
        if not (same(got[0], expect) and same(got[1][0], expect)):
            return dict(desc, violated="streamed item differs from the plain result: %r vs %r" % (got, expect), position="streamed item")
    except Exception as x:      # noqa
        return dict(desc, violated="batch / stream transport failed: %r" % (x,))
    # the value travelling inside a SerializedBlob (kept serialized until the server method asks for it): the method gets the same arguments
    try:
        del SEEN[:]
        got = p.blob(client.SerializedBlob("blob-info", [v]))
        if SEEN != [("blob", "blob-info")]:
            return dict(desc, violated="blob call: the method saw %r" % (SEEN,), position="blob argument")
        if not (isinstance(got, (list, tuple)) and len(got) == 1 and same(got[0], expect)):
            return dict(desc, violated="blob argument: deserialized() gave %r, the serializer's mapping of the argument list is [%r]" % (got, expect), position="blob argument")
    except Exception as x:      # noqa
        return dict(desc, violated="blob call failed: %r" % (x,), position="blob argument")
    return None


TIMEZONES = ["EST5", "XYZ-5:30", "UTC0"]       # POSIX TZ strings (no tz database needed): UTC-5, UTC+5:30, UTC
DATES = [datetime.datetime(1969, 7, 20, 20, 17, 40), datetime.datetime(1900, 1, 1, 0, 0, 0), datetime.datetime(1970, 1, 1, 0, 0, 0),
         datetime.datetime(2020, 5, 17, 13, 45, 59, 123457), datetime.datetime(1999, 12, 31, 23, 59, 59), datetime.date(1900, 1, 1),
         datetime.date(1969, 12, 31), [datetime.datetime(1955, 11, 5, 6, 0, 0)], {"k": (datetime.datetime(1912, 6, 23, 1, 2, 3),)}]


def check_timezones(sers):
    """date / datetime values (also before 1970) must map the same way whatever the local time zone of the process is"""
    runs, fail = 0, None
    saved = os.environ.get("TZ")
    try:
        for tz in TIMEZONES:
            os.environ["TZ"] = tz
            time.tzset()
            for name, ser in sers:
                for v in DATES:
                    runs += 1
                    r = check_local(name, ser, v, False)
                    if r and fail is None:
                        fail = dict(r, timezone=tz)
    finally:
        if saved is None:
            os.environ.pop("TZ", None)
        else:
            os.environ["TZ"] = saved
        time.tzset()
    return runs, fail


def check_concurrent_encoders(sers, max_k):
    """the serializer objects are process-wide singletons shared by all threads: two threads encoding at the same time (one of them inside a default() fall-back for a
    value the library cannot encode natively) must each get the encoding of their OWN value - explored with the line-granular two-thread schedules of replay/sched.py"""
    import replay.sched as sched
    runs, fail = 0, None
    pairs = [([1, 2, 2 ** 70 + 12345], 7), ({"k": (1, {2, 3})}, "text"), ([uuid.UUID(int=5), 2 ** 80], [1.5, None])]
    for name, ser in sers:
        for va, vb in pairs:
            if fail:
                break
            try:
                ea, eb = ser.loads(ser.dumps(va)), ser.loads(ser.dumps(vb))
            except Exception:      # noqa
                continue

            def make(ser=ser, va=va, vb=vb):
                return [lambda: ser.dumps(va), lambda: ser.dumpsCall("obj", "meth", [vb], {})], None

            def oracle(ctx, workers, ser=ser, name=name, va=va, vb=vb, ea=ea, eb=eb):
                desc = {"serializer": name, "values": [repr(va)[:80], repr(vb)[:80]], "position": "two threads encoding concurrently"}
                if workers[0].error is not None or workers[1].error is not None:
                    return dict(desc, violated="concurrent encoding failed: %r / %r" % (workers[0].error, workers[1].error))
                try:
                    ga = ser.loads(workers[0].result)
                    gb = ser.loadsCall(workers[1].result)[2][0]
                except Exception as x:      # noqa
                    return dict(desc, violated="the bytes a thread produced do not decode: %r" % (x,))
                if not same(ga, ea) or not same(gb, eb):
                    return dict(desc, violated="a thread's encoding decodes to %r / %r instead of its own value %r / %r" % (ga, gb, ea, eb))
                return None
            n, bad = sched.explore([serializers.__file__], make, oracle, max_k=max_k)
            runs += n
            fail = fail or bad
    return runs, fail


def main(mode):
    t0 = time.time()
    rnd = random.Random(1)
    n_core = {"quick": 250, "find": 600, "thorough": 4000}[mode]
    n_ext = {"quick": 250, "find": 600, "thorough": 4000}[mode]
    n_wire = {"quick": 25, "find": 40, "thorough": 300}[mode]
    sers = sorted(serializers.serializers.items())
    core = [x for x in INTS + FLOATS + TEXTS] + [[x] for x in INTS[:8]] + [{"k": x} for x in FLOATS] + [core_value(rnd, 4) for _ in range(n_core)]
    ext = list(DIRECTED_EXT) + [ext_value(rnd, 4) for _ in range(n_ext)]
    runs = 0
    fail = None
    for name, ser in sers:
        for v in core:
            runs += 1
            fail = fail or check_local(name, ser, v, True)
        for v in ext:
            runs += 1
            fail = fail or check_local(name, ser, v, False)
        for v in object_values():
            runs += 1
            fail = fail or check_objects(name, ser, v)
        if fail is not None and mode == "find":
            break
    if fail is None:
        tz_runs, fail = check_timezones(sers)
        runs += tz_runs
    if fail is None:
        c_runs, fail = check_concurrent_encoders(sers, 12 if mode != "thorough" else 40)
        runs += c_runs
    if fail is None:
        w = Wire()
        try:
            wire_vals = [(v, True) for v in (INTS[::4] + FLOATS[::3] + TEXTS[::5] + core[-n_wire:])] + [(v, False) for v in DIRECTED_EXT + ext[-n_wire:]]
            wire_vals += [(["x" * 500, {"k": list(range(100))}], True), ([2 ** 200] * 30, True)]     # above the compression threshold
            for name, ser in sers:
                for v, lossless in wire_vals:
                    for compression, annotated in ((False, False), (True, False), (False, True), (True, True)):
                        runs += 1
                        r = check_wire(w, name, ser, v, lossless, compression, annotated)
                        if isinstance(r, str):
                            if r[6:] not in KNOWN:
                                KNOWN.append(r[6:])
                        elif r and fail is None:
                            fail = r
        finally:
            w.close()
    rep = {"runs": runs, "failing_input": fail, "known_findings_reproduced": KNOWN, "wall_s": round(time.time() - t0, 2),
           "bounded": [{"what": "real serializers on both paths and a real daemon (echo, batch, stream; compression on/off): lossless core exactness, "
                                "argument/result symmetry per position, idempotence of the mapping",
                        "bound": "%d serializers x (%d lossless-core + %d extended generated values, depth <= 4); %d values x 2 compression settings x messages with / without annotations over the wire"
                                 % (len(sers), len(core), len(ext), 0 if fail else len(wire_vals)),
                        "runs": runs, "failures": 0 if fail is None else 1}]}
    print(json.dumps(rep))
    return 0


if __name__ == "__main__":
    sys.exit(main(sys.argv[1] if len(sys.argv) > 1 else "quick"))
