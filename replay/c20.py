"""Native harness for C20 (bounded): the REAL WSGI app pyro_app in front of an in-process name server + daemon; every request is
checked against counters of name-server lookups and object invocations.  Refusals (403/404/405) must cause no Pyro traffic; a forwarded
request must invoke exactly the named member of the named object once with exactly the query parameters.
modes: quick | thorough | find      output: last line = JSON report"""
import io
import json
import os
import sys
import threading
import time
import urllib.parse

import Pyro5.api as api
import Pyro5.nameserver as nameserver
import Pyro5.utils.httpgateway as gw
from Pyro5 import config

CALLS = []
LOOKUPS = []


@api.expose
class Target(object):
    def ping(self):
        CALLS.append(("ping",))
        return "pong"

    def echo(self, **kw):
        CALLS.append(("echo", tuple(sorted(kw.items()))))
        return kw

    def slow(self):
        CALLS.append(("slow",))
        if len([c for c in CALLS if c[0] == "slow"]) == 1:
            time.sleep(1.0)
        return "done"

    def fail(self):
        CALLS.append(("fail",))
        raise ValueError("remote failure")

    @api.oneway
    def fire(self, **kw):
        CALLS.append(("fire", tuple(sorted(kw.items()))))

    @property
    def attr(self):
        CALLS.append(("attr",))
        return 42

    def _pyroRelease(self):
        CALLS.append(("_pyroRelease",))


KNOWN = []


def request(path, query="", method="GET", headers=None):
    env = {"REQUEST_METHOD": method, "PATH_INFO": path, "QUERY_STRING": query, "wsgi.errors": io.StringIO()}
    env.update(headers or {})
    out = {}

    def start_response(status, hdrs):
        out["status"] = status
    body = b"".join(gw.pyro_app(env, start_response))
    return out.get("status", "?"), body


def main(mode):
    t0 = time.time()
    runs = 0
    fail = None
    saved = (config.SERIALIZER, config.COMMTIMEOUT, config.NS_HOST, config.NS_PORT)
    nsuri, nsdaemon, _ = nameserver.start_ns(host="127.0.0.1", port=0, enableBroadcast=False)
    config.NS_HOST, config.NS_PORT = "127.0.0.1", nsuri.port
    ns = nsdaemon.nameserver
    orig_lookup = ns.lookup

    def counting_lookup(name, *a, **k):
        LOOKUPS.append(name)
        return orig_lookup(name, *a, **k)
    counting_lookup._pyroExposed = True
    ns.lookup = counting_lookup
    threading.Thread(target=nsdaemon.requestLoop, daemon=True).start()
    d = api.Daemon(host="127.0.0.1")
    t = Target()
    uri = d.register(t, "target")
    ns.register("http.obj", uri)
    ns.register("http.obj2", uri)
    ns.register("other.obj", uri)
    ns.register("xhttp.obj", uri)
    threading.Thread(target=d.requestLoop, daemon=True).start()
    time.sleep(0.1)
    gw.pyro_app.ns_regex = r"http\."
    gw.pyro_app.comm_timeout = 0.0
    try:
        cases = []
        for key in (None, b"secret"):
            for name in ("http.obj", "http.obj2", "other.obj", "xhttp.obj", "HTTP.obj", "http", "nosuch", "http.nosuch"):
                for member in ("ping", "echo", "fail", "fire", "attr", "$meta", "_pyroRelease", "_pyroBind", "__class__", "nosuch"):
                    for keyhow in ("none", "header-right", "header-wrong", "param-right", "param-wrong", "param-twice", "both-wrong-right", "both-right", "header-right-param-wrong"):
                        if key is None and keyhow not in ("none", "param-right"):
                            continue
                        cases.append((key, name, member, keyhow))
        if mode != "thorough":
            cases = cases[::3] + [c for c in cases if c[3] in ("param-twice",)][:20] + [c for c in cases if c[3] in ("both-right", "header-right-param-wrong") and c[1] == "http.obj"]
        for key, name, member, keyhow in cases:
            runs += 1
            gw.pyro_app.gateway_key = key
            headers = {}
            q = [("a", "1"), ("b", "x y")] if member in ("echo", "fire") else []
            if keyhow == "header-right":
                headers["HTTP_X_PYRO_GATEWAY_KEY"] = "secret"
            elif keyhow == "header-wrong":
                headers["HTTP_X_PYRO_GATEWAY_KEY"] = "wrong"
            elif keyhow == "param-right":
                q.append(("$key", "secret"))
            elif keyhow == "param-wrong":
                q.append(("$key", "wrong"))
            elif keyhow == "param-twice":
                q += [("$key", "wrong"), ("$key", "alsowrong")]
            elif keyhow == "both-wrong-right":
                headers["HTTP_X_PYRO_GATEWAY_KEY"] = "wrong"
                q.append(("$key", "secret"))
            elif keyhow == "both-right":
                headers["HTTP_X_PYRO_GATEWAY_KEY"] = "secret"
                q.append(("$key", "secret"))
            elif keyhow == "header-right-param-wrong":
                headers["HTTP_X_PYRO_GATEWAY_KEY"] = "secret"
                q.append(("$key", "wrong"))
            del CALLS[:]
            del LOOKUPS[:]
            desc = {"gateway_key": None if key is None else "secret", "object": name, "member": member, "key_presented": keyhow}
            try:
                status, body = request("/pyro/%s/%s" % (name, member), urllib.parse.urlencode(q), headers=headers)
            except Exception as x:     # noqa
                fail = fail or dict(desc, violated="the WSGI app raised %r instead of answering" % (x,))
                continue
            time.sleep(0.02 if member == "fire" else 0)
            key_ok = key is None or keyhow in ("header-right", "param-right", "both-right", "header-right-param-wrong")
            pat_ok = name.startswith("http.")
            authorised = key_ok and pat_ok and not member.startswith("_")
            if not authorised:
                if LOOKUPS or CALLS:
                    fail = fail or dict(desc, violated="Pyro traffic for an unauthorised request: lookups=%r calls=%r (status %s)" % (LOOKUPS, CALLS, status))
                if not status.startswith(("403", "404", "405")):
                    fail = fail or dict(desc, violated="unauthorised request answered with %s" % status)
                continue
            if LOOKUPS != [name]:
                fail = fail or dict(desc, violated="name server lookups %r for object %r" % (LOOKUPS, name))
            exists = name in ("http.obj", "http.obj2")
            if not exists:
                if CALLS or not status.startswith("500"):
                    fail = fail or dict(desc, violated="unknown object: status %s calls %r" % (status, CALLS))
                continue
            expect_params = tuple(sorted((k, v) for k, v in q if k != "$key" or key is None))
            if member == "attr" and expect_params:
                want = []          # an attribute fetch with query parameters is refused by the gateway (500), nothing is invoked
            elif member in ("ping", "fail") and expect_params:
                want = None        # unexpected keyword arguments: the remote call fails in the daemon; not checked here
            elif member in ("ping", "fail", "attr"):
                want = [(member,)]
            elif member in ("echo", "fire"):
                want = [(member, expect_params)]
            else:
                want = []
            if want is not None and CALLS != want:
                fail = fail or dict(desc, violated="object invocations %r, expected %r" % (CALLS, want))
            if want is None:
                continue
            if member == "ping" and (not status.startswith("200") or json.loads(body) != "pong"):
                fail = fail or dict(desc, violated="ping answered %s %r" % (status, body[:60]))
            if member == "fail" and not status.startswith("500"):
                fail = fail or dict(desc, violated="remote error answered with %s" % status)
            if member == "fire" and (not status.startswith("200") or body):
                fail = fail or dict(desc, violated="oneway answered %s %r" % (status, body[:40]))
            if member == "$meta" and (not status.startswith("200") or "methods" not in json.loads(body)):
                fail = fail or dict(desc, violated="$meta answered %s" % status)
        # a forwarded call is made once, also when the reply does not arrive in time
        runs += 1
        gw.pyro_app.gateway_key = None
        gw.pyro_app.comm_timeout = 0.3
        del CALLS[:]
        status, body = request("/pyro/http.obj/slow")
        time.sleep(1.0)
        n = len([c for c in CALLS if c[0] == "slow"])
        if n != 1 or not status.startswith("500"):
            fail = fail or {"object": "http.obj", "member": "slow", "gateway_timeout": 0.3, "violated": "one HTTP request caused %d invocations (status %s)" % (n, status)}
        # exactly the query parameters are forwarded: empty values included
        gw.pyro_app.comm_timeout = 0.0
        for qs in ([("a", "")], [("a", ""), ("b", "1")]):
            runs += 1
            del CALLS[:]
            status, body = request("/pyro/http.obj/echo", urllib.parse.urlencode(qs))
            expect = [("echo", tuple(sorted(qs)))]
            if CALLS != expect:
                fail = fail or {"object": "http.obj", "member": "echo", "query": urllib.parse.urlencode(qs),
                                "violated": "object invocations %r, expected %r (a parameter with an empty value was dropped)" % (CALLS, expect)}
        # listed known findings: a path containing a newline is cut there; a non-ASCII object name in the path arrives latin-1-decoded
        runs += 1
        del CALLS[:]
        del LOOKUPS[:]
        status, body = request("/pyro/http.obj/ping\nxyz/abc")
        if CALLS == [("ping",)] and status.startswith("200"):
            KNOWN.append("C20-path-with-newline-truncated")
        elif CALLS:
            fail = fail or {"path": "/pyro/http.obj/ping\\nxyz/abc", "violated": "invocations %r" % (CALLS,)}
        runs += 1
        del LOOKUPS[:]
        wire_path = "/pyro/http.caf\u00e9/ping".encode("utf-8").decode("latin-1")      # what a WSGI server hands over for /pyro/http.caf%C3%A9/ping
        status, body = request(wire_path)
        if LOOKUPS and LOOKUPS != ["http.caf\u00e9"]:
            KNOWN.append("C20-non-ascii-path-latin1")
        # non-call requests
        for path, meth, want in (("/pyro/http.obj", "GET", "404"), ("/other", "GET", "404"), ("/pyro/http.obj/ping", "PUT", "405"), ("/pyro/http.obj/ping", "DELETE", "405")):
            runs += 1
            del CALLS[:]
            del LOOKUPS[:]
            status, body = request(path, method=meth)
            if not status.startswith(want) or CALLS or LOOKUPS:
                fail = fail or {"path": path, "method": meth, "violated": "answered %s, traffic %r %r" % (status, LOOKUPS, CALLS)}
    finally:
        config.SERIALIZER, config.COMMTIMEOUT, config.NS_HOST, config.NS_PORT = saved
        gw.pyro_app.gateway_key = None
        gw.pyro_app.comm_timeout = config.COMMTIMEOUT
        d.shutdown()
        nsdaemon.shutdown()
    rep = {"runs": runs, "failing_input": fail, "known_findings_reproduced": KNOWN, "wall_s": round(time.time() - t0, 2),
           "bounded": [{"what": "real pyro_app over an in-process name server and daemon with lookup / invocation counters",
                        "bound": "key settings x object names (prefix/suffix/case near-misses) x members x ways of presenting the key; timeout scenario; non-call requests",
                        "runs": runs, "failures": 0 if fail is None else 1}]}
    print(json.dumps(rep))
    return 0


if __name__ == "__main__":
    sys.exit(main(sys.argv[1] if len(sys.argv) > 1 else "quick"))
