"""Native harness for C14 (bounded): REAL NameServer over MemoryStorage and SqlStorage versus a reference map
{name: (uri, set(tags))}, on seeded operation histories (register safe/unsafe, remove by name/prefix/regex, set_metadata, lookup, list,
yplookup, count) over an alphabet with upper/lower case pairs, SQL wildcards, regex metacharacters, unicode and the empty string;
sqlite reopen after every history; every sqlite statement of every mutating operation as a failure point (the operation must then have
no effect).   modes: quick | thorough | find      output: last line = JSON report"""
import json
import os
import random
import re
import sqlite3
import sys
import tempfile
import time

import Pyro5.nameserver as NS
import Pyro5.core as core
from Pyro5.errors import NamingError

NAMES = ["a", "A", "ab", "aB", "a_", "a%", "a%c", "axc", "abc", "Abc", "a.b", "a+", "^a", "a$", "é", "É", "test.alpha", "Test.beta", "", "Pyro.NameServer", "pre.x", "pre.y", "Pre.x",
         # characters at the edges of the code space (non-BMP, U+FFFF, private use): sort orders / range scans of a back-end must not lose them
         "pre.\uffff.tail", "pre.\U0001f600", "a\U00020000z", "a\uffff", "a\ue000b", "pre.\U0010ffff"]
TAGS = ["t", "T", "u", "%", "_", "é", "x.y"]
PREFIXES = ["a", "A", "a_", "a%", "ab", "test.", "Test.", "pre.", "", "é", "Pyro."]
REGEXES = ["a.*", "A", r"a\.", "a%", ".*c$", "[", "^pre\\.", "é", ""]


class Model:
    def __init__(self):
        self.m = {}

    def apply(self, op):
        k = op[0]
        if k == "register":
            _, name, uri, safe, meta = op
            if safe and name in self.m:
                return ("naming-error",)
            self.m[name] = (uri, set(meta or []))
            return ("ok", None)
        if k == "set_metadata":
            _, name, meta = op
            if name not in self.m:
                return ("naming-error",)
            self.m[name] = (self.m[name][0], set(meta or []))
            return ("ok", None)
        if k == "remove":
            _, name, prefix, regex = op
            if name is not None and name in self.m and name != core.NAMESERVER_NAME:      # a simple map: the empty name is a name
                del self.m[name]
                return ("ok", 1)
            sel = []
            if prefix:
                sel = [n for n in self.m if n.startswith(prefix)]
            elif regex:
                try:
                    rx = re.compile(regex)
                except re.error:
                    return ("naming-error",)
                sel = [n for n in self.m if rx.match(n)]
            sel = [n for n in sel if n != core.NAMESERVER_NAME]
            for n in sel:
                del self.m[n]
            return ("ok", len(sel))
        if k == "lookup":
            if op[1] not in self.m:
                return ("naming-error",)
            return ("ok", (self.m[op[1]][0], sorted(self.m[op[1]][1])))
        if k == "count":
            return ("ok", len(self.m))
        if k == "list":
            _, prefix, regex = op
            if prefix:
                return ("ok", sorted((n, v[0], sorted(v[1])) for n, v in self.m.items() if n.startswith(prefix)))
            if regex:
                try:
                    rx = re.compile(regex)
                except re.error:
                    return ("naming-error",)
                return ("ok", sorted((n, v[0], sorted(v[1])) for n, v in self.m.items() if rx.match(n)))
            return ("ok", sorted((n, v[0], sorted(v[1])) for n, v in self.m.items()))
        if k == "yplookup":
            _, allt, anyt = op
            if allt:
                return ("ok", sorted(n for n, v in self.m.items() if set(allt) <= v[1]))
            if anyt:
                return ("ok", sorted(n for n, v in self.m.items() if set(anyt) & v[1]))
            return ("ok", [])


def apply_real(ns, op):
    k = op[0]
    try:
        if k == "register":
            return ("ok", ns.register(op[1], op[2], safe=op[3], metadata=op[4]))
        if k == "set_metadata":
            return ("ok", ns.set_metadata(op[1], op[2]))
        if k == "remove":
            return ("ok", ns.remove(name=op[1], prefix=op[2], regex=op[3]))
        if k == "lookup":
            u, md = ns.lookup(op[1], return_metadata=True)
            return ("ok", (str(u), sorted(md)))
        if k == "count":
            return ("ok", ns.count())
        if k == "list":
            r = ns.list(prefix=op[1], regex=op[2], return_metadata=True)
            return ("ok", sorted((n, v[0], sorted(v[1])) for n, v in r.items()))
        if k == "yplookup":
            r = ns.yplookup(meta_all=op[1], meta_any=op[2])
            return ("ok", sorted(r))
    except NamingError:
        return ("naming-error",)
    except Exception as x:     # noqa
        return ("error", type(x).__name__ + ": " + str(x)[:80])


def full(ns):
    return sorted((n, v[0], sorted(v[1])) for n, v in ns.list(return_metadata=True).items())


def gen_op(rnd):
    k = rnd.choice(["register", "register", "register", "remove", "remove", "set_metadata", "lookup", "count", "list", "yplookup"])
    name = rnd.choice(NAMES)
    meta = rnd.choice([None, [], [rnd.choice(TAGS)], rnd.sample(TAGS, 2), [TAGS[0], TAGS[0]]])
    if k == "register":
        return (k, name, "PYRO:%s@h:%d" % (rnd.choice(["o", "O", "p"]), rnd.randrange(1, 4)), rnd.random() < 0.4, meta)
    if k == "set_metadata":
        return (k, name, meta)
    if k == "remove":
        how = rnd.randrange(3)
        return (k, name if how == 0 else None, rnd.choice(PREFIXES) if how == 1 else None, rnd.choice(REGEXES) if how == 2 else None)
    if k == "lookup":
        return (k, name)
    if k == "count":
        return (k,)
    if k == "list":
        how = rnd.randrange(3)
        return (k, rnd.choice(PREFIXES) if how == 1 else None, rnd.choice(REGEXES) if how == 2 else None)
    how = rnd.randrange(2)
    t = rnd.choice([[rnd.choice(TAGS)], rnd.sample(TAGS, 2), [TAGS[0], TAGS[0]]])
    return (k, t if how == 0 else None, t if how == 1 else None)


# directed prefixes of the first histories: the empty name is a name; names containing NUL and a prefix ending in NUL
DIRECTED = [
    [("register", "", "PYRO:o@h:1", False, None), ("lookup", ""), ("remove", "", None, None), ("count",), ("register", "", "PYRO:o@h:2", True, ["t"]), ("remove", "", None, None)],
    [("register", "a\x00b", "PYRO:o@h:1", False, None), ("register", "a\x00c", "PYRO:o@h:1", False, None), ("register", "ab", "PYRO:o@h:1", False, None),
     ("list", "a\x00", None), ("remove", None, "a\x00", None), ("list", "a", None)],
    [("register", "svc.\uffff.tail", "PYRO:o@h:1", False, None), ("register", "svc.\U0001d400lpha", "PYRO:o@h:1", False, ["t"]), ("register", "svc.\U00020000", "PYRO:o@h:1", False, None),
     ("register", "svc.plain", "PYRO:o@h:1", False, None), ("register", "svd", "PYRO:o@h:1", False, None), ("list", "svc.", None), ("list", "svc", None),
     ("remove", None, "svc.", None), ("list", "sv", None), ("count",)],
]


class FailingConnect:
    """sqlite3.connect replacement (as seen by Pyro5.nameserver): the n-th execute() of the next connection raises"""

    def __init__(self, fail_at):
        self.fail_at = fail_at
        self.count = 0
        self.fired = False

    def __call__(self, *a, **k):
        real = sqlite3.connect(*a, **k)
        outer = self

        class Conn:
            def __enter__(self_):
                real.__enter__()
                return self_

            def __exit__(self_, *e):
                return real.__exit__(*e)

            def _tick(self_):
                outer.count += 1
                if outer.count == outer.fail_at:
                    outer.fired = True
                    raise sqlite3.OperationalError("injected failure at statement %d" % outer.count)

            def execute(self_, *args, **kw):
                self_._tick()
                return real.execute(*args, **kw)

            def executemany(self_, *args, **kw):
                self_._tick()
                return real.executemany(*args, **kw)

            def cursor(self_, *args, **kw):
                cur = real.cursor(*args, **kw)
                conn = self_

                class Cur:
                    def execute(c_, *a2, **k2):
                        conn._tick()
                        return cur.execute(*a2, **k2)

                    def executemany(c_, *a2, **k2):
                        conn._tick()
                        return cur.executemany(*a2, **k2)

                    def __getattr__(c_, n):
                        return getattr(cur, n)
                return Cur()

            def __getattr__(self_, n):
                return getattr(real, n)
        return Conn()


def main(mode):
    seed = int(os.environ.get("VERIF_SEED", "0") or 0)
    rnd = random.Random(seed)
    t0 = time.time()
    runs = 0
    fail = None
    tmp = tempfile.mkdtemp(prefix="c14_")
    nhist, hlen = (60, 14) if mode != "thorough" else (600, 25)
    try:
        for h in range(nhist):
            path = os.path.join(tmp, "h%d.sqlite" % h)
            mem = NS.NameServer(NS.MemoryStorage())
            sql = NS.NameServer(NS.SqlStorage(path))
            model = Model()
            hist = []
            for i in range(hlen):
                op = DIRECTED[h][i] if h < len(DIRECTED) and i < len(DIRECTED[h]) else gen_op(rnd)
                hist.append(op)
                runs += 1
                want = model.apply(op)
                for label, ns in (("memory", mem), ("sqlite", sql)):
                    got = apply_real(ns, op)
                    if got != want:
                        fail = fail or {"history": [list(map(repr, o)) for o in hist], "backend": label,
                                        "violated": "operation %r answered %r, the reference map says %r" % (op, got, want)}
                want_all = model.apply(("list", None, None))[1]
                for label, ns in (("memory", mem), ("sqlite", sql)):
                    if full(ns) != want_all:
                        fail = fail or {"history": [list(map(repr, o)) for o in hist], "backend": label,
                                        "violated": "state after %r differs from the reference map: %r vs %r" % (op, full(ns)[:6], want_all[:6])}
                if fail:
                    break
            if fail:
                break
            # reopen
            sql2 = NS.NameServer(NS.SqlStorage(path))
            if full(sql2) != model.apply(("list", None, None))[1]:
                fail = {"history": [list(map(repr, o)) for o in hist], "violated": "sqlite back-end holds a different map after reopening"}
                break
            # crash points: every statement of a mutating operation on the sqlite back-end
            for op in [o for o in hist if o[0] in ("register", "remove", "set_metadata")][:4 if mode != "thorough" else 12]:
                before = full(sql2)
                for n in range(1, 24):
                    runs += 1
                    inj = FailingConnect(n)
                    saved = NS.sqlite3.connect
                    NS.sqlite3 = type("S", (), dict(vars(sqlite3), connect=inj))
                    try:
                        got = apply_real(sql2, op)
                    finally:
                        NS.sqlite3 = sqlite3
                    if not inj.fired:
                        # operation completed: bring the state back
                        break
                    after = full(sql2)
                    if after != before:
                        fail = fail or {"operation": list(map(repr, op)), "failing_statement": n,
                                        "violated": "a storage statement failed in the middle of the operation but the map changed: %r -> %r" % (before[:5], after[:5])}
                        break
                # restore state for the next op (the last, un-failed run may have applied the operation)
                for nme, uri, md in before:
                    pass
                if fail:
                    break
                # resynchronise with a fresh storage copy
                for k_ in list(sql2.storage):
                    del sql2.storage[k_]
                for nme, uri, md in before:
                    sql2.storage[nme] = (uri, set(md))
            if fail:
                break
        # directed: a removal that matches SEVERAL entries (prefix, regex), every statement of it as a failure point - a failure at the second or a later entry must
        # not leave the earlier deletions behind (also not after reopening the database)
        if not fail:
            for how, kw in (("prefix", {"prefix": "grp."}), ("regex", {"regex": r"grp\..*"})):
                path = os.path.join(tmp, "multi-%s.sqlite" % how)
                ns = NS.NameServer(NS.SqlStorage(path))
                for nme in ("grp.a", "grp.b", "grp.c", "grp.d", "other"):
                    ns.register(nme, "PYRO:%s@h:1" % nme.replace(".", "_"), metadata={"t-" + nme})
                before = full(ns)
                for n in range(1, 40):
                    runs += 1
                    inj = FailingConnect(n)
                    NS.sqlite3 = type("S", (), dict(vars(sqlite3), connect=inj))
                    try:
                        try:
                            ns.remove(**kw)
                        except Exception:      # noqa  (NamingError: the storage failed)
                            pass
                    finally:
                        NS.sqlite3 = sqlite3
                    if not inj.fired:
                        break
                    after = full(ns)
                    reopened = full(NS.NameServer(NS.SqlStorage(path)))
                    if after != before or reopened != before:
                        fail = fail or {"operation": "remove(%s) matching four entries" % how, "failing_statement": n,
                                        "violated": "a storage statement failed in the middle of the removal but the map changed: %d entries before, %d after, %d after reopening"
                                                    % (len(before), len(after), len(reopened))}
                        break
                if fail:
                    break
    finally:
        import shutil
        shutil.rmtree(tmp, ignore_errors=True)
    rep = {"runs": runs, "failing_input": fail, "wall_s": round(time.time() - t0, 2),
           "bounded": [{"what": "real NameServer on MemoryStorage and SqlStorage vs a reference map; reopen; sqlite statement failure injection",
                        "bound": "%d seeded histories of %d operations over %d names / %d tags / %d prefixes / %d regexes" % (nhist, hlen, len(NAMES), len(TAGS), len(PREFIXES), len(REGEXES)),
                        "runs": runs, "failures": 0 if fail is None else 1}]}
    print(json.dumps(rep))
    return 0


if __name__ == "__main__":
    sys.exit(main(sys.argv[1] if len(sys.argv) > 1 else "quick"))
