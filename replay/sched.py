"""Deterministic two-thread schedules at source-line granularity (bounded exploration used by the native harnesses).

Each worker thread runs under a `threading.settrace` hook; at every `line` event inside one of the traced source files it parks until the
controller gives it the turn.  Exactly one worker runs between two yield points, so a schedule is a list of thread indices.  A worker
that does not reach its next yield point within `block_s` seconds is considered blocked (waiting for a lock the other thread holds);
the controller then lets the other thread run.  Schedules explored by `explore`: strict alternation, and for every k "A runs k steps,
B runs until it ends or blocks, A runs to its end, B finishes" (and the same with the roles swapped)."""
import sys
import threading


class _Worker:
    def __init__(self, ctl, idx, fn):
        self.ctl, self.idx, self.fn = ctl, idx, fn
        self.go = threading.Semaphore(0)
        self.at_yield = threading.Event()
        self.done = threading.Event()
        self.steps = 0
        self.error = None
        self.result = None
        self.thread = threading.Thread(target=self._run, daemon=True)

    def _trace(self, frame, event, arg):
        if frame.f_code.co_filename not in self.ctl.files:
            return None
        if self.ctl.opcodes:
            frame.f_trace_opcodes = True
        if event == ("opcode" if self.ctl.opcodes else "line"):
            self.steps += 1
            self.at_yield.set()
            self.go.acquire()
        return self._trace

    def _run(self):
        self.go.acquire()
        sys.settrace(self._trace)
        try:
            self.result = self.fn()
        except BaseException as x:      # noqa
            self.error = x
        finally:
            sys.settrace(None)
            self.done.set()
            self.at_yield.set()


class Controller:
    def __init__(self, files, fns, block_s=0.05, opcodes=False):
        self.files = set(files)
        self.block_s = block_s
        self.opcodes = opcodes          # yield at every bytecode instruction instead of every source line (needed to split a comprehension or a single statement)
        self.workers = [_Worker(self, i, f) for i, f in enumerate(fns)]
        for w in self.workers:
            w.thread.start()

    def step(self, i):
        """let worker i run to its next yield point; returns 'yield' | 'done' | 'blocked'"""
        w = self.workers[i]
        if w.done.is_set():
            return "done"
        w.at_yield.clear()
        w.go.release()
        if not w.at_yield.wait(self.block_s):
            return "blocked"
        return "done" if w.done.is_set() else "yield"

    def settle(self, i):
        """a worker that was blocked may have reached a yield point meanwhile (it already holds its turn token)"""
        w = self.workers[i]
        return w.done.is_set() or w.at_yield.is_set()

    def run_policy(self, policy, max_steps=4000):
        """policy(step_no, states) -> index of the worker to advance; states[i] in ('ready', 'blocked', 'done')"""
        states = ["ready"] * len(self.workers)
        trace = []
        for n in range(max_steps):
            for i, w in enumerate(self.workers):
                if states[i] == "blocked" and self.settle(i):
                    states[i] = "done" if w.done.is_set() else "ready_parked"
            if all(w.done.is_set() for w in self.workers):
                break
            i = policy(n, states)
            if i is None:
                break
            if states[i] == "blocked":
                # nothing else can run: wait for it
                self.workers[i].at_yield.wait(1.0)
                if not self.settle(i):
                    break       # deadlock
                states[i] = "done" if self.workers[i].done.is_set() else "ready_parked"
                continue
            trace.append(i)
            if states[i] == "ready_parked":
                states[i] = "ready"     # it already consumed its token and sits at a yield point
                continue
            r = self.step(i)
            states[i] = {"yield": "ready", "done": "done", "blocked": "blocked"}[r]
        # let everything finish (round robin; a worker blocked on the other's lock gets its turn again once the other has moved on)
        pending = {i: "ready" for i, w in enumerate(self.workers) if not w.done.is_set()}
        for i in list(pending):
            if states[i] == "blocked":
                pending[i] = "blocked"
        for _ in range(20 * max_steps):
            if not pending:
                break
            progressed = False
            for i in list(pending):
                w = self.workers[i]
                if w.done.is_set():
                    del pending[i]
                    progressed = True
                    continue
                if pending[i] == "blocked":
                    if not w.at_yield.wait(0.0005):
                        continue
                    if w.done.is_set():
                        del pending[i]
                        progressed = True
                        continue
                    pending[i] = "ready"
                r = self.step(i)
                progressed = True
                if r == "done":
                    del pending[i]
                elif r == "blocked":
                    pending[i] = "blocked"
            if not progressed and all(v == "blocked" for v in pending.values()):
                if not any(self.workers[i].at_yield.wait(0.5) for i in pending):
                    break       # deadlock
        return trace


def _runnable(states, prefer):
    order = [prefer] + [i for i in range(len(states)) if i != prefer]
    for i in order:
        if states[i] in ("ready", "ready_parked"):
            return i
    for i in order:
        if states[i] == "blocked":
            return i
    return None


def policies(max_k):
    """named schedule policies for two workers"""
    out = [("strict alternation", lambda n, st: _runnable(st, n % 2))]
    for first in (0, 1):
        for k in range(1, max_k + 1):
            def pol(n, st, first=first, k=k, state={"phase": 0}):
                other = 1 - first
                if n < k:
                    return _runnable(st, first)
                return _runnable(st, other)
            out.append(("T%d runs %d line steps, then T%d until it ends or blocks, then the rest" % (first + 1, k, 2 - first), pol))
    return out


def explore(files, make_fns, oracle, max_k=25, block_s=0.05, opcodes=False, alternation=True):
    """for every policy: fresh scenario = make_fns() -> (list of callables, context); after the run oracle(context, workers) -> None | failure dict"""
    runs = 0
    if opcodes:
        # CPython instruments a code object for per-instruction events only from its second execution on: run the scenario once, unobserved
        fns, ctx = make_fns()
        c = Controller(files, fns, block_s, opcodes)
        c.run_policy(policies(1)[0][1])
        oracle(ctx, c.workers)
    for name, pol in policies(max_k):
        if not alternation and name == "strict alternation":
            continue
        fns, ctx = make_fns()
        c = Controller(files, fns, block_s, opcodes)
        c.run_policy(pol)
        runs += 1
        bad = oracle(ctx, c.workers)
        if bad:
            return runs, dict(bad, schedule=name)
    return runs, None
