"""Native schedule harness for C13 / C10 (bounded): Daemon._clientDisconnect(conn A) interleaved, at bytecode granularity, with another thread that
changes the item-stream table at the same time - a stream registered for connection B, A's stream closed through close_stream, A's stream expired by
the housekeeper.  Oracle: whatever the interleaving, _clientDisconnect does not raise, the user's disconnect hook has run exactly once for A, and no
stream is left registered for the dead connection A.     modes: quick | thorough | find      output: last line = JSON report"""
import json
import sys
import time

import Pyro5.server as S
from Pyro5 import config
import replay.sched as sched


class FakeConn(object):
    def __init__(self, name):
        self.name = name

    def __repr__(self):
        return "<conn %s>" % self.name


def scenario(linger, other):
    def make():
        config.SERVERTYPE = "multiplex"          # (no thread pool to wind down when the daemon is closed; the transport is not used here)
        d = S.Daemon(host="127.0.0.1", port=0)
        hooks = []
        d.clientDisconnect = lambda conn: hooks.append(conn)
        A, B = FakeConn("A"), FakeConn("B")
        now = time.time()
        d.streaming_responses["sA"] = (A, now - 100.0, 0, iter([1, 2, 3]))
        d.streaming_responses["sB"] = (B, now, 0, iter([1]))
        config.ITER_STREAM_LINGER = 30.0 if linger else 0
        config.ITER_STREAM_LIFETIME = 50.0 if other == "housekeeping" else 0
        dobj = S.DaemonObject(d)

        def t2():
            if other == "register":
                d._streamResponse(iter([7, 8]), B)
            elif other == "close_stream":
                dobj.close_stream("sA")
            elif other == "register+close":
                d._streamResponse(iter([7, 8]), B)
                dobj.close_stream("sB")
            else:
                d._housekeeping()
        return [lambda: d._clientDisconnect(A), t2], (d, hooks, A)

    def oracle(ctx, workers):
        d, hooks, A = ctx
        left = [k for k, v in d.streaming_responses.items() if v[0] is A]
        try:
            d.close()
        except Exception:      # noqa
            pass
        desc = {"fn": "Daemon._clientDisconnect/schedule", "linger": linger, "concurrent_operation": other}
        if workers[0].error is not None:
            return dict(desc, violated="_clientDisconnect raised %r: disconnect hook ran %d times" % (workers[0].error, len(hooks)))
        if workers[1].error is not None and not isinstance(workers[1].error, Exception):
            return dict(desc, violated="concurrent operation died: %r" % (workers[1].error,))
        if len(hooks) != 1:
            return dict(desc, violated="disconnect hook ran %d times" % len(hooks))
        if left:
            return dict(desc, violated="streams %r still registered for the closed connection" % left)
        return None
    return make, oracle


def main(mode):
    t0 = time.time()
    saved = (config.ITER_STREAM_LINGER, config.ITER_STREAM_LIFETIME, config.ITER_STREAMING)
    saved_st = config.SERVERTYPE
    config.ITER_STREAMING = True
    runs, fail = 0, None
    max_k = 120 if mode != "thorough" else 400
    try:
        for linger in (False, True):
            for other in ("register", "close_stream", "register+close", "housekeeping"):
                if fail:
                    break
                make, oracle = scenario(linger, other)
                n, fail = sched.explore([S.__file__], make, oracle, max_k=max_k, opcodes=True, block_s=0.2)
                runs += n
    finally:
        config.ITER_STREAM_LINGER, config.ITER_STREAM_LIFETIME, config.ITER_STREAMING = saved
        config.SERVERTYPE = saved_st
    rep = {"runs": runs, "failing_input": fail, "wall_s": round(time.time() - t0, 2),
           "bounded": [{"what": "real Daemon._clientDisconnect interleaved at bytecode granularity with a concurrent writer of the item-stream table (register, close_stream, housekeeping)",
                        "bound": "2 linger settings x 4 concurrent operations x (strict alternation + 'one thread runs k instructions, then the other' for k <= %d, both orders)" % max_k,
                        "runs": runs, "failures": 0 if fail is None else 1}]}
    print(json.dumps(rep))
    return 0


if __name__ == "__main__":
    sys.exit(main(sys.argv[1] if len(sys.argv) > 1 else "quick"))
