"""Native harness for C15 (bounded): REAL NameServer (memory and sqlite back-ends), pairs of operations on shared names run in
two threads under forced schedules at source-line granularity with one preemption: thread A is paused before each line of the
operation it executes (trace hook on Pyro5/nameserver.py), thread B then runs its whole operation (if B blocks on the lock,
A is resumed first), and the two results plus the final listing must be explained by one of the two sequential orders.
modes: quick | thorough | find      output: last line = JSON report"""
import itertools
import json
import os
import sys
import tempfile
import threading
import time

import Pyro5.nameserver as NS
from Pyro5.errors import NamingError

NSFILE = NS.__file__.replace(".pyc", ".py")


def fresh_ns(backend, tmp):
    if backend == "memory":
        ns = NS.NameServer(NS.MemoryStorage())
    else:
        path = os.path.join(tmp, "ns_%d.sqlite" % next(COUNTER))
        ns = NS.NameServer(NS.SqlStorage(path))
    ns.register("x", "PYRO:x@h:1", metadata=["t"])
    ns.register("pre.a", "PYRO:a@h:1")
    ns.register("pre.b", "PYRO:b@h:1")
    return ns


COUNTER = itertools.count()

OPS = {
    "register_safe_y": lambda ns: ns.register("y", "PYRO:y@h:1", safe=True),
    "register_safe_y2": lambda ns: ns.register("y", "PYRO:y2@h:1", safe=True),
    "register_x_new": lambda ns: ns.register("x", "PYRO:xnew@h:1"),
    "remove_x": lambda ns: ns.remove("x"),
    "remove_prefix": lambda ns: ns.remove(prefix="pre."),
    "remove_prefix2": lambda ns: ns.remove(prefix="pre."),
    "remove_regex": lambda ns: ns.remove(regex=r"pre\..*"),
    "remove_regex2": lambda ns: ns.remove(regex=r"pre\.[ab]"),
    "set_meta_x": lambda ns: ns.set_metadata("x", ["m"]),
    "lookup_x": lambda ns: str(ns.lookup("x")),
    "count": lambda ns: ns.count(),
    "list_pre": lambda ns: sorted(ns.list(prefix="pre.")),
}
PAIRS = [("register_safe_y", "register_safe_y2"), ("remove_x", "remove_x"), ("remove_x", "lookup_x"), ("set_meta_x", "remove_x"),
         ("set_meta_x", "register_x_new"), ("remove_prefix", "count"), ("remove_prefix", "list_pre"), ("remove_x", "count"),
         ("remove_prefix", "remove_prefix2"), ("remove_regex", "remove_regex2"), ("remove_prefix", "remove_regex")]


def run_op(ns, name):
    try:
        return ("ok", OPS[name](ns))
    except NamingError as x:
        return ("naming-error", None)
    except Exception as x:      # noqa
        return ("internal-error", type(x).__name__ + ": " + str(x))


def final(ns):
    return sorted((k, v[0], sorted(v[1])) for k, v in ns.list(return_metadata=True).items())


def sequential(backend, tmp, a, b):
    outs = []
    for idx, order in enumerate(((a, b), (b, a))):
        ns = fresh_ns(backend, tmp)
        r1 = run_op(ns, order[0])
        r2 = run_op(ns, order[1])
        outs.append(((r1, r2) if idx == 0 else (r2, r1), final(ns)))
    return outs


def forced(backend, tmp, a, b, pause_at):
    """run a in thread A, pausing just before its pause_at-th traced line in nameserver.py; then run b; then resume"""
    ns = fresh_ns(backend, tmp)
    reached = threading.Event()
    resume = threading.Event()
    count = [0]
    res = {}

    def tracer(frame, event, arg):
        if frame.f_code.co_filename != NSFILE:
            return None

        def local(frame, event, arg):
            if event == "line":
                count[0] += 1
                if count[0] == pause_at:
                    reached.set()
                    resume.wait(5.0)
            return local
        return local

    def ta():
        sys.settrace(tracer)
        try:
            res["a"] = run_op(ns, a)
        finally:
            sys.settrace(None)
            reached.set()

    def tb():
        res["b"] = run_op(ns, b)
    A = threading.Thread(target=ta)
    A.start()
    reached.wait(5.0)
    B = threading.Thread(target=tb)
    B.start()
    B.join(0.15)            # if B blocks on the name server lock, let A go on
    resume.set()
    A.join(5.0)
    B.join(5.0)
    return (res.get("a"), res.get("b")), final(ns), count[0]


def main(mode):
    t0 = time.time()
    runs = 0
    fail = None
    tmp = tempfile.mkdtemp(prefix="c15_")
    try:
        for backend in ("memory", "sqlite"):
            for a, b in PAIRS + [(y, x) for x, y in PAIRS if x != y]:
                seq = sequential(backend, tmp, a, b)
                # number of lines A executes when alone
                _, _, nlines = forced(backend, tmp, a, "count", 10 ** 9)
                points = range(1, nlines + 1) if mode == "thorough" or backend == "memory" else range(1, nlines + 1, 2)
                for p in points:
                    runs += 1
                    got = forced(backend, tmp, a, b, p)
                    obs = (got[0], got[1])
                    if not any(obs == s for s in seq):
                        fail = fail or {"fn": "NameServer", "backend": backend, "thread_A": a, "thread_B": b,
                                        "schedule": "A paused before its %d-th source line in nameserver.py; B runs; A resumes" % p,
                                        "observed": repr(obs), "sequential_outcomes": repr(seq),
                                        "violated": "results + final listing are not explained by any sequential order"}
                    if any(r and r[0] == "internal-error" for r in got[0]):
                        fail = fail or {"fn": "NameServer", "backend": backend, "thread_A": a, "thread_B": b, "schedule": "pause %d" % p,
                                        "violated": "operation failed with an internal error: %r" % (got[0],)}
                    if fail:
                        break
                if fail:
                    break
            if fail:
                break
    finally:
        import shutil
        shutil.rmtree(tmp, ignore_errors=True)
    rep = {"runs": runs, "failing_input": fail, "wall_s": round(time.time() - t0, 2),
           "bounded": [{"what": "real NameServer, two concurrent operations, forced schedules (one preemption at every source line of A), linearizability against the two sequential orders",
                        "bound": "%d operation pairs (both roles) x 2 back-ends x every pause point" % len(PAIRS), "runs": runs, "failures": 0 if fail is None else 1}]}
    print(json.dumps(rep))
    return 0


if __name__ == "__main__":
    sys.exit(main(sys.argv[1] if len(sys.argv) > 1 else "quick"))
