"""Native schedule harness for C10 (bounded): the operations on the daemon's item-stream table interleaved pairwise at bytecode granularity -
fetching the next item (also the last one / a failing one), close_stream, the housekeeper's expiry, a disconnect.  Oracle: none of them fails with an
error of its own (KeyError), a fetch ends with the iterator's own outcome (item, StopIteration, its exception) or 'item stream terminated',
and a stream that was closed or expired is gone afterwards.      modes: quick | thorough | find      output: last line = JSON report"""
import json
import sys
import time

import Pyro5.errors as errors
import Pyro5.server as S
from Pyro5 import config
from Pyro5.callcontext import current_context
import replay.sched as sched


class FakeConn(object):
    pass


class Boom(Exception):
    pass


def gen(kind):
    if kind == "last":
        return iter([])
    if kind == "raises":
        def g():
            raise Boom("generator failed")
            yield 1
        return g()
    return iter([1, 2, 3])


def scenario(first, second, linger, KNOWN):
    def make():
        config.SERVERTYPE = "multiplex"          # (no thread pool to wind down when the daemon is closed; the transport is not used here)
        d = S.Daemon(host="127.0.0.1", port=0)
        A = FakeConn()
        now = time.time()
        d.streaming_responses["s"] = (A, now - 100.0, 0, gen(first[1]) if first[0] == "next" else gen("items"))
        config.ITER_STREAM_LINGER = 30.0 if linger else 0
        config.ITER_STREAM_LIFETIME = 50.0
        dobj = S.DaemonObject(d)

        def op(o):
            def run():
                current_context.client = A
                if o[0] == "next":
                    return dobj.get_next_stream_item("s")
                if o[0] == "close":
                    return dobj.close_stream("s")
                if o[0] == "housekeeping":
                    return d._housekeeping()
                return d._clientDisconnect(A)
            return run
        return [op(first), op(second)], (d,)

    def oracle(ctx, workers):
        d, = ctx
        present = "s" in d.streaming_responses
        try:
            d.close()
        except Exception:      # noqa
            pass
        desc = {"fn": "stream table/schedule", "operations": [list(first), list(second)], "linger": linger}
        for w, o in zip(workers, (first, second)):
            e = w.error
            if e is None:
                continue
            allowed = (errors.PyroError,)
            if o[0] == "next":
                allowed += (StopIteration, Boom)
            if not isinstance(e, allowed):
                return dict(desc, violated="%s failed with %r" % (o[0], e))
        gone_expected = any(o[0] in ("close", "housekeeping") for o in (first, second)) or (first[0] == "next" and first[1] in ("last", "raises"))
        if gone_expected and present:
            if linger and "disconnect" in (first[0], second[0]):
                # listed known finding: a disconnect re-registers (as lingering) a stream that was closed / expired between its look-up and its update
                if "C10-disconnect-resurrects-closed-stream" not in KNOWN:
                    KNOWN.append("C10-disconnect-resurrects-closed-stream")
                return None
            return dict(desc, violated="the stream is still registered although it was closed / expired / exhausted")
        return None
    return make, oracle


def main(mode):
    t0 = time.time()
    saved = (config.ITER_STREAM_LINGER, config.ITER_STREAM_LIFETIME, config.ITER_STREAMING)
    saved_st = config.SERVERTYPE
    config.ITER_STREAMING = True
    runs, fail = 0, None
    KNOWN = []
    max_k = 60 if mode != "thorough" else 200
    pairs = [(("next", "last"), ("close",)), (("next", "raises"), ("close",)), (("next", "last"), ("housekeeping",)), (("housekeeping",), ("close",)),
             (("disconnect",), ("close",)), (("disconnect",), ("housekeeping",)), (("next", "items"), ("close",)), (("next", "last"), ("disconnect",))]
    try:
        for linger in (False, True):
            for first, second in pairs:
                if fail:
                    break
                make, oracle = scenario(first, second, linger, KNOWN)
                n, fail = sched.explore([S.__file__], make, oracle, max_k=max_k, opcodes=True, block_s=0.2)
                runs += n
    finally:
        config.ITER_STREAM_LINGER, config.ITER_STREAM_LIFETIME, config.ITER_STREAMING = saved
        config.SERVERTYPE = saved_st
    rep = {"runs": runs, "failing_input": fail, "known_findings_reproduced": KNOWN, "wall_s": round(time.time() - t0, 2),
           "bounded": [{"what": "pairs of real stream-table operations (next / close_stream / housekeeping / disconnect) interleaved at bytecode granularity",
                        "bound": "2 linger settings x %d operation pairs x (strict alternation + 'one thread runs k instructions, then the other' for k <= %d, both orders)" % (len(pairs), max_k),
                        "runs": runs, "failures": 0 if fail is None else 1}]}
    print(json.dumps(rep))
    return 0


if __name__ == "__main__":
    sys.exit(main(sys.argv[1] if len(sys.argv) > 1 else "quick"))
