"""Native harness for C10 (bounded): a REAL in-process Daemon (thread-pool; multiplex too in thorough) with real proxies and a virtual clock behind
Pyro5.server's time.time(); seeded random and directed histories of open / next / close / disconnect / reconnect / clock-advance+housekeeping steps over
several proxies and concurrently open streams, compared step by step with a reference model of the property (items in order, none lost or repeated or
from another stream, StopIteration exactly at exhaustion, generator errors re-raised, forgotten streams answer with an error, linger / lifetime expiry,
re-attachment within linger) and, at every quiescent point, the server's stream table with the reference's set of live streams.
modes: quick | thorough | find      output: last line = JSON report"""
import json
import random
import sys
import threading
import time as real_time

import Pyro5.api as api
import Pyro5.server as server
import Pyro5.client as client
import Pyro5.errors as errors
from Pyro5 import config


class Clock:
    """stands in for the `time` module inside Pyro5.server"""

    def __init__(self):
        self.now = 1000.0

    def time(self):
        return self.now

    def __getattr__(self, name):
        return getattr(real_time, name)


class Boom(Exception):
    pass


@api.expose
class Source(object):
    def gen(self, tag, n, fail_at):
        def g():
            for j in range(n):
                if j == fail_at:
                    raise ValueError("boom-%s" % tag)
                yield "%s:%d" % (tag, j)
        return g()

    def it(self, tag, n):
        return iter(["%s:%d" % (tag, j) for j in range(n)])

    def plain(self, tag):
        return ["%s" % tag]


class Ref:
    """reference model of one stream"""

    def __init__(self, tag, n, fail_at, created, owner):
        self.tag, self.n, self.fail_at, self.created, self.owner = tag, n, fail_at, created, owner
        self.pos = 0
        self.linger = 0.0
        self.known = True           # the server still knows the stream
        self.client_ended = False   # the client iterator has ended (StopIteration seen / closed)


class World:
    def __init__(self, servertype, linger, lifetime, nproxies):
        self.saved = {k: getattr(config, k) for k in ("SERVERTYPE", "ITER_STREAM_LINGER", "ITER_STREAM_LIFETIME", "ITER_STREAMING", "COMMTIMEOUT", "POLLTIMEOUT")}
        config.SERVERTYPE = servertype
        config.ITER_STREAM_LINGER = linger
        config.ITER_STREAM_LIFETIME = lifetime
        config.ITER_STREAMING = True
        config.POLLTIMEOUT = 0.2
        self.linger, self.lifetime = linger, lifetime
        self.clock = Clock()
        self.saved_time = server.time
        server.time = self.clock
        self.daemon = server.Daemon(host="127.0.0.1", port=0)
        self.disconnects = 0
        orig = self.daemon._clientDisconnect
        lock = threading.Lock()

        def counted(conn, _orig=orig):
            try:
                return _orig(conn)
            finally:
                with lock:
                    self.disconnects += 1
        self.daemon._clientDisconnect = counted
        self.uri = self.daemon.register(Source(), "src")
        self.thread = threading.Thread(target=self.daemon.requestLoop, daemon=True)
        self.thread.start()
        self.proxies = [client.Proxy(self.uri) for _ in range(nproxies)]
        self.gen = [0] * nproxies          # connection generation per proxy (0 = never connected)
        self.connected = [False] * nproxies
        self.streams = []                  # (Ref, client iterator, proxy index)
        self.log = []

    def close(self):
        for p in self.proxies:
            try:
                p._pyroRelease()
            except Exception:      # noqa
                pass
        try:
            self.daemon.shutdown()
            self.thread.join(2)
            self.daemon.close()
        finally:
            server.time = self.saved_time
            for k, v in self.saved.items():
                setattr(config, k, v)

    # --- steps ------------------------------------------------------------------------------------------------------
    def ensure_conn(self, pi):
        if not self.connected[pi]:
            self.gen[pi] += 1
            self.connected[pi] = True

    def op_open(self, pi, n, fail_at, kind):
        tag = "s%d" % len(self.streams)
        self.log.append(("open", pi, tag, n, fail_at, kind))
        p = self.proxies[pi]
        self.ensure_conn(pi)
        it = p.gen(tag, n, fail_at) if kind == "gen" else p.it(tag, n)
        if not isinstance(it, client._StreamResultIterator):
            return "an iterator result did not come back as a stream (%r)" % (it,)
        ref = Ref(tag, n, fail_at if kind == "gen" and 0 <= fail_at < n else -1, self.clock.now, (pi, self.gen[pi]))
        self.streams.append((ref, it, pi))
        return None

    def op_next(self, si):
        ref, it, pi = self.streams[si]
        self.log.append(("next", ref.tag))
        try:
            v = next(it)
            out = ("item", v)
        except StopIteration:
            out = ("stop", None)
        except Exception as x:      # noqa
            out = ("error", x)
        # --- what the property allows
        if ref.client_ended:
            return None if out[0] == "stop" else "ended client iterator produced %r" % (out,)
        if not self.connected[pi]:
            if out[0] == "error" and isinstance(out[1], errors.ConnectionClosedError):
                return None
            return "stream on a closed proxy produced %r" % (out,)
        if not ref.known:
            if out[0] == "error":
                return None
            return "a stream the server must have forgotten produced %r instead of an error" % (out,)
        if ref.pos == ref.fail_at:
            ref.known = False
            if out[0] == "error" and isinstance(out[1], ValueError) and ("boom-" + ref.tag) in str(out[1]):
                return None
            return "the generator's exception was not re-raised at position %d: got %r" % (ref.pos, out)
        if ref.pos >= ref.n:
            ref.known = False
            ref.client_ended = True
            return None if out[0] == "stop" else "exhausted stream did not end with StopIteration: %r" % (out,)
        want = "%s:%d" % (ref.tag, ref.pos)
        ref.pos += 1
        if ref.owner is None:
            ref.owner = (pi, self.gen[pi])        # re-attached to the connection that came back for it
            ref.linger = 0.0
        if out != ("item", want):
            return "stream %s: expected item %r, got %r" % (ref.tag, want, out)
        return None

    def op_close(self, si):
        ref, it, pi = self.streams[si]
        self.log.append(("close", ref.tag))
        sid = it.streamId
        in_sync = it.proxy is not None and it.pyroseq == it.proxy._pyroSeq
        try:
            it.close()
        except Exception as x:      # noqa
            return "close() raised %r" % (x,)
        if not ref.client_ended and self.connected[pi]:
            # the close request is oneway: wait until the server has handled it
            t0 = real_time.time()
            while sid in self.daemon.streaming_responses and real_time.time() - t0 < 2:
                real_time.sleep(0.005)
            if in_sync:
                real_time.sleep(0.01)
            ref.known = False
        ref.client_ended = True
        return None

    def op_disconnect(self, pi):
        self.log.append(("disconnect", pi))
        if not self.connected[pi]:
            return None
        before = self.disconnects
        self.proxies[pi]._pyroRelease()
        t0 = real_time.time()
        while self.disconnects == before and real_time.time() - t0 < 3:
            real_time.sleep(0.005)
        if self.disconnects == before:
            return "server never noticed the disconnect"
        self.connected[pi] = False
        for ref, it, spi in self.streams:
            if ref.known and ref.owner == (pi, self.gen[pi]):
                if self.linger > 0:
                    ref.owner = None
                    ref.linger = self.clock.now
                else:
                    ref.known = False
        return None

    def op_reconnect(self, pi):
        self.log.append(("reconnect", pi))
        if self.connected[pi]:
            return None
        self.proxies[pi]._pyroReconnect(tries=3)
        self.ensure_conn(pi)
        return None

    def op_advance(self, dt):
        self.log.append(("advance+housekeeping", dt))
        self.clock.now += dt
        self.daemon._housekeeping()
        now = self.clock.now
        for ref, it, pi in self.streams:
            if not ref.known:
                continue
            if self.lifetime > 0 and now - ref.created > self.lifetime:
                ref.known = False
            elif self.linger > 0 and ref.linger and now - ref.linger > self.linger:
                ref.known = False
        return None

    def check_table(self):
        want = sorted(it.streamId for ref, it, pi in self.streams if ref.known)
        t0 = real_time.time()
        while True:
            have = sorted(self.daemon.streaming_responses)
            if have == want or real_time.time() - t0 > 1:
                break
            real_time.sleep(0.01)
        if have != want:
            tags = {it.streamId: ref.tag for ref, it, pi in self.streams}
            return "server stream table holds %s, the property allows %s" % ([tags.get(k, k) for k in have], [tags.get(k, k) for k in want])
        return None


def run_history(servertype, linger, lifetime, steps, nproxies=2):
    w = World(servertype, linger, lifetime, nproxies)
    try:
        for i, step in enumerate(steps):
            kind = step[0]
            if kind in ("next", "close") and step[1] >= len(w.streams):
                continue
            bad = getattr(w, "op_" + kind)(*step[1:])
            bad = bad or w.check_table()
            if bad:
                return {"servertype": servertype, "ITER_STREAM_LINGER": linger, "ITER_STREAM_LIFETIME": lifetime, "history": [list(s) for s in steps[:i + 1]],
                        "violated": bad}
        return None
    except Exception as x:      # noqa
        return {"servertype": servertype, "ITER_STREAM_LINGER": linger, "ITER_STREAM_LIFETIME": lifetime, "history": [list(s) for s in steps],
                "violated": "harness step raised %r" % (x,)}
    finally:
        w.close()


def random_history(rnd, length, nproxies, linger, lifetime):
    steps = []
    nstreams = 0
    for _ in range(length):
        r = rnd.random()
        if nstreams == 0 or r < 0.15:
            n = rnd.choice([0, 1, 2, 3, 5, 8])
            fail_at = rnd.choice([-1, -1, -1, 0, 1, 2])
            steps.append(("open", rnd.randrange(nproxies), n, fail_at, rnd.choice(["gen", "gen", "it"])))
            nstreams += 1
        elif r < 0.60:
            steps.append(("next", rnd.randrange(nstreams)))
        elif r < 0.66:
            steps.append(("close", rnd.randrange(nstreams)))
        elif r < 0.76:
            steps.append(("disconnect", rnd.randrange(nproxies)))
        elif r < 0.88:
            steps.append(("reconnect", rnd.randrange(nproxies)))
        else:
            unit = max(linger, 1.0) if rnd.random() < 0.6 else max(lifetime, 1.0)
            steps.append(("advance", rnd.choice([0.0, 0.4 * unit, 0.7 * unit, 1.1 * unit, 2.5 * unit])))
    return steps


DIRECTED = [
    # plain consumption to the end, then sticky StopIteration
    [("open", 0, 3, -1, "gen"), ("next", 0), ("next", 0), ("next", 0), ("next", 0), ("next", 0)],
    # interleaved streams from one and from two proxies
    [("open", 0, 3, -1, "gen"), ("open", 0, 2, -1, "it"), ("open", 1, 3, -1, "gen"), ("next", 0), ("next", 1), ("next", 2), ("next", 0), ("next", 2), ("next", 1),
     ("next", 1), ("next", 0), ("next", 0), ("next", 2), ("next", 2)],
    # generator raising midway; early close; empty stream
    [("open", 0, 5, 2, "gen"), ("next", 0), ("next", 0), ("next", 0), ("next", 0), ("open", 0, 4, -1, "gen"), ("next", 1), ("close", 1), ("next", 1),
     ("open", 1, 0, -1, "gen"), ("next", 2), ("next", 2)],
    # reconnect within linger continues with the next item, keeps going after the original linger period has passed
    [("open", 0, 5, -1, "gen"), ("next", 0), ("disconnect", 0), ("advance", 0.4), ("reconnect", 0), ("next", 0), ("advance", 0.9), ("next", 0), ("advance", 1.5),
     ("next", 0), ("next", 0), ("next", 0)],
    # coming back after the linger period: error, never items
    [("open", 0, 5, -1, "gen"), ("next", 0), ("disconnect", 0), ("advance", 1.2), ("reconnect", 0), ("next", 0), ("next", 0)],
    # lifetime expiry of an attached stream; other proxy's streams survive a disconnect
    [("open", 0, 5, -1, "gen"), ("open", 1, 5, -1, "gen"), ("next", 0), ("disconnect", 0), ("next", 1), ("advance", 0.5), ("next", 1), ("reconnect", 0), ("next", 0),
     ("advance", 3.0), ("next", 0), ("next", 1)],
]


def scaled(steps, linger, lifetime):
    unit = linger if linger > 0 else (lifetime if lifetime > 0 else 10.0)
    return [(s[0], s[1] * unit) if s[0] == "advance" else s for s in steps]


def streaming_disabled():
    saved = config.ITER_STREAMING, config.SERVERTYPE
    config.ITER_STREAMING = False
    config.SERVERTYPE = "thread"
    d = server.Daemon(host="127.0.0.1", port=0)
    uri = d.register(Source(), "src")
    t = threading.Thread(target=d.requestLoop, daemon=True)
    t.start()
    bad = None
    try:
        with client.Proxy(uri) as p:
            try:
                r = p.gen("x", 3, -1)
                bad = "with streaming disabled an iterator result came back as %r" % (r,)
            except errors.ProtocolError:
                pass
            except Exception as x:      # noqa
                bad = "with streaming disabled: %r instead of ProtocolError" % (x,)
            if not bad and len(d.streaming_responses):
                bad = "with streaming disabled a stream was registered"
            if not bad and p.plain("y") != ["y"]:
                bad = "plain result broken"
    finally:
        d.shutdown()
        t.join(2)
        d.close()
        config.ITER_STREAMING, config.SERVERTYPE = saved
    return {"violated": bad, "history": ["ITER_STREAMING=False", "gen"]} if bad else None


def main(mode):
    t0 = real_time.time()
    rnd = random.Random(10)
    runs = 0
    fail = None
    cfgs = [(30.0, 0.0), (0.0, 0.0), (30.0, 100.0), (0.0, 50.0), (5.0, 8.0)]
    servertypes = ["thread"] if mode == "quick" else ["thread", "multiplex"]
    n_random = {"quick": 6, "find": 40, "thorough": 60}[mode]
    length = {"quick": 40, "find": 45, "thorough": 60}[mode]
    fail = streaming_disabled()
    runs += 1
    for stype in servertypes:
        for linger, lifetime in cfgs:
            hist = [scaled(d, linger, lifetime) for d in DIRECTED]
            for _ in range(n_random):
                hist.append(random_history(rnd, length, 2, linger, lifetime))
            for h in hist:
                if fail is not None:
                    break
                runs += 1
                fail = run_history(stype, linger, lifetime, h)
    rep = {"runs": runs, "failing_input": fail, "wall_s": round(real_time.time() - t0, 2),
           "bounded": [{"what": "real daemon + proxies under a virtual clock against a reference model of the stream property, table compared after every step",
                        "bound": "%d server type(s) x %d (linger, lifetime) settings x (%d directed + %d seeded random histories of %d steps), 2 proxies; streaming disabled: 1 scenario"
                                 % (len(servertypes), len(cfgs), len(DIRECTED), n_random, length),
                        "runs": runs, "failures": 0 if fail is None else 1}]}
    print(json.dumps(rep))
    return 0


if __name__ == "__main__":
    sys.exit(main(sys.argv[1] if len(sys.argv) > 1 else "quick"))
