"""Native harness for the dispatch properties (bounded; never counted as proof): C02 C03 C05 C07 C08 C11 C12 C13 C16.
A REAL in-process Daemon (thread-pool and multiplex) is driven through raw sockets speaking the real wire protocol, and through
real proxies; each scenario group evaluates the corresponding sidecar postconditions on what is observable.  Used
(a) to replay / find concrete failing inputs when the verifier refutes or cannot decide an obligation, (b) as bounded
validation of the assumed models.   usage: dispatch.py <quick|thorough|find>   (property from env VERIF_PROP)
output: last line = JSON report {runs, failing_input, bounded, known_findings_reproduced}"""
import json
import os
import socket
import struct
import sys
import threading
import time
import uuid

import Pyro5.api as api
import Pyro5.server as server
import Pyro5.client as client
import Pyro5.core as core
import Pyro5.errors as errors
import Pyro5.protocol as P
import Pyro5.serializers as serializers
import Pyro5.socketutil as socketutil
from Pyro5 import config
from Pyro5.callcontext import current_context

RUNS = [0]
FAIL = []
KNOWN = []


def fail(**kw):
    if not FAIL:
        FAIL.append(kw)


# ---------------------------------------------------------------------------------------------------------------------
# infrastructure

class Running:
    def __init__(self, servertype, daemon_cls=server.Daemon, **cfg):
        self.saved = {k: getattr(config, k) for k in list(cfg) + ["SERVERTYPE"]}
        config.SERVERTYPE = servertype
        for k, v in cfg.items():
            setattr(config, k, v)
        self.daemon = daemon_cls(host="127.0.0.1", port=0)
        self.thread = threading.Thread(target=self.daemon.requestLoop, daemon=True)
        self.alive = True

    def __enter__(self):
        self.thread.start()
        time.sleep(0.05)
        return self

    def __exit__(self, *a):
        try:
            self.daemon.shutdown()
            self.thread.join(2)
            self.daemon.close()
        finally:
            for k, v in self.saved.items():
                setattr(config, k, v)

    def loop_alive(self):
        return self.thread.is_alive()

    @property
    def addr(self):
        return self.daemon.sock.getsockname()


class Raw:
    """raw wire client"""

    def __init__(self, addr, timeout=2.0):
        self.sock = socket.create_connection(addr, timeout=timeout)
        self.conn = socketutil.SocketConnection(self.sock)
        self.ser = serializers.serializers["marshal"]

    def send_msg(self, msgtype, payload, flags=0, seq=0, ser_id=None, annotations=None):
        m = P.SendingMessage(msgtype, flags, seq, self.ser.serializer_id if ser_id is None else ser_id, payload, annotations=annotations)
        self.sock.sendall(m.data)

    def connect(self, objid, handshake="hello", **kw):
        self.send_msg(P.MSG_CONNECT, self.ser.dumps({"handshake": handshake, "object": objid}), **kw)
        return self.reply()

    def invoke(self, objid, method, vargs=(), kwargs=None, flags=0, seq=1, annotations=None):
        self.send_msg(P.MSG_INVOKE, self.ser.dumpsCall(objid, method, vargs, kwargs or {}), flags=flags, seq=seq, annotations=annotations)

    def reply(self):
        try:
            return P.recv_stub(self.conn)
        except (errors.CommunicationError, OSError):
            return None

    def closed_by_peer(self):
        try:
            self.sock.settimeout(1.0)
            return self.sock.recv(1) == b""
        except socket.timeout:
            return False
        except OSError:
            return True

    def close(self, reset=False):
        if reset:
            self.sock.setsockopt(socket.SOL_SOCKET, socket.SO_LINGER, struct.pack("ii", 1, 0))
        try:
            self.sock.close()
        except OSError:
            pass

    def value(self, msg):
        return self.ser.loads(msg.data)


LOG = []


@api.expose
class Target(object):
    def __init__(self):
        self.state = []

    def echo(self, x):
        LOG.append(("echo", x))
        return x

    def add(self, x):
        LOG.append(("add", x))
        self.state.append(x)
        return len(self.state)

    def boom(self, kind="ValueError"):
        LOG.append(("boom", kind))
        raise {"ValueError": ValueError("bad", 1), "KeyError": KeyError("k"), "ZeroDivisionError": ZeroDivisionError("z")}[kind]

    def annotate(self, tag, fail_after=False):
        LOG.append(("annotate", tag))
        current_context.response_annotations["TAGX"] = tag.encode()
        if fail_after:
            raise ValueError("after annotate")
        return "ok"

    def context(self):
        c = current_context
        return [c.seq, c.msg_flags, c.serializer_id, sorted(c.annotations), c.client is not None and id(c.client)]

    @api.oneway
    def fire(self, x):
        LOG.append(("fire", x))

    @property
    def prop(self):
        LOG.append(("prop-get",))
        return 7

    @prop.setter
    def prop(self, v):
        LOG.append(("prop-set", v))

    def _private(self):
        LOG.append(("private",))

    def __dunder__(self):
        LOG.append(("dunder",))
        return 1


class Plain(object):
    """nothing exposed"""

    def hidden(self):
        LOG.append(("hidden",))
        return 1

    @property
    def secret(self):
        LOG.append(("secret-get",))
        return 1


# ---------------------------------------------------------------------------------------------------------------------
# C08

def g_handshake(mode):
    class D(server.Daemon):
        behaviour = "accept"

        def validateHandshake(self, conn, data):
            b = D.behaviour
            if b == "accept":
                return "hello"
            if b == "ValueError":
                raise ValueError("denied by validator")
            if b == "ConnectionClosedError":
                raise errors.ConnectionClosedError("validator lost its backend")
            if b == "SecurityError":
                raise errors.SecurityError("nope")
            return {"weird": b}

    marshal = serializers.serializers["marshal"]
    for st in ("thread", "multiplex"):
        with Running(st, D) as r:
            t = Target()
            r.daemon.register(t, "target")
            firsts = [
                ("invoke-first", lambda c: c.invoke("target", "echo", ("intruder",))),
                ("ping-first", lambda c: c.send_msg(P.MSG_PING, b"ping")),
                ("result-first", lambda c: c.send_msg(P.MSG_RESULT, marshal.dumps(1))),
                ("connect-unknown-object", lambda c: c.send_msg(P.MSG_CONNECT, marshal.dumps({"handshake": "hello", "object": "nope"}))),
                ("connect-no-object-key", lambda c: c.send_msg(P.MSG_CONNECT, marshal.dumps({"handshake": "hello"}))),
                ("connect-no-handshake-key", lambda c: c.send_msg(P.MSG_CONNECT, marshal.dumps({"object": "target"}))),
                ("connect-empty-dict", lambda c: c.send_msg(P.MSG_CONNECT, marshal.dumps({}))),
                ("connect-list-payload", lambda c: c.send_msg(P.MSG_CONNECT, marshal.dumps(["handshake", "object"]))),
                ("connect-garbage-payload", lambda c: c.send_msg(P.MSG_CONNECT, b"\xff\xfe garbage")),
                ("connect-unknown-serializer", lambda c: c.send_msg(P.MSG_CONNECT, marshal.dumps({"handshake": "hello", "object": "target"}), ser_id=99)),
                # a failure reason the peer's serializer cannot encode (json + lone surrogate): the CONNECTFAIL must still arrive
                ("connect-json-class-tag-with-surrogate", lambda c: c.send_msg(P.MSG_CONNECT, b'{"handshake": {"__class__": "\\udc80"}, "object": "target"}',
                                                                               ser_id=serializers.serializers["json"].serializer_id)),
            ]
            for beh in ("accept", "ValueError", "SecurityError", "ConnectionClosedError", "weird"):
                D.behaviour = beh
                cases = firsts + [("connect-valid", lambda c: c.send_msg(P.MSG_CONNECT, marshal.dumps({"handshake": "hello", "object": "target"})))]
                for name, first in cases:
                    RUNS[0] += 1
                    del LOG[:]
                    c = Raw(r.addr)
                    try:
                        first(c)
                        try:
                            c.invoke("target", "echo", ("pipelined",))      # pipelined behind the first message
                        except OSError:
                            pass
                        m = c.reply()
                        should_accept = name == "connect-valid" and beh in ("accept", "weird")
                        desc = {"group": "C08", "server": st, "validator": beh, "first_message": name}
                        if should_accept:
                            if m is None or m.type != P.MSG_CONNECTOK:
                                fail(violated="valid handshake not accepted", **desc)
                            c.reply()           # the pipelined call is legitimately served; wait for it before moving on
                            continue
                        time.sleep(0.05)
                        if any(e[0] == "echo" for e in LOG):
                            fail(violated="method executed on a connection without accepted handshake: %r" % (LOG,), **desc)
                        if m is not None and m.type == P.MSG_CONNECTOK:
                            fail(violated="CONNECTOK although the handshake had to fail", **desc)
                        no_fail_msg = m is None or m.type != P.MSG_CONNECTFAIL
                        if no_fail_msg and name.startswith("connect") and beh != "ConnectionClosedError":
                            fail(violated="no CONNECTFAIL reason sent (got %s)" % (None if m is None else m.type), **desc)
                        if no_fail_msg and name == "connect-valid" and beh == "ConnectionClosedError":
                            if "C08-user-raised-connection-closed" not in KNOWN:
                                KNOWN.append("C08-user-raised-connection-closed")
                        if m is not None and not c.closed_by_peer():
                            fail(violated="connection left open after failed handshake", **desc)
                    finally:
                        c.close()
            # an id that WAS registered (weakly) and served, and whose object has since been garbage collected, names no registered object any more:
            # a CONNECT for it must fail, and what is pipelined behind it (a call on another, still registered object) must not run
            import gc
            D.behaviour = "accept"
            RUNS[0] += 1
            del LOG[:]
            w = Target()
            r.daemon.register(w, "weakling", weak=True)
            c0 = Raw(r.addr)
            m0 = c0.connect("weakling")
            if m0 is None or m0.type != P.MSG_CONNECTOK:
                fail(group="C08", server=st, violated="valid handshake to a weakly registered object not accepted")
            c0.close()
            del w
            gc.collect()
            c = Raw(r.addr)
            try:
                c.send_msg(P.MSG_CONNECT, marshal.dumps({"handshake": "hello", "object": "weakling"}))
                try:
                    c.invoke("target", "echo", ("pipelined",))
                except OSError:
                    pass
                m = c.reply()
                time.sleep(0.05)
                desc = {"group": "C08", "server": st, "first_message": "connect-to-collected-weak-object (served once before it was collected)"}
                if any(e[0] == "echo" for e in LOG):
                    fail(violated="method executed on a connection without accepted handshake: %r" % (LOG,), **desc)
                if m is not None and m.type == P.MSG_CONNECTOK:
                    fail(violated="CONNECTOK although the handshake had to fail (no object is registered under that id)", **desc)
            finally:
                c.close()
            if not r.loop_alive():
                fail(group="C08", server=st, violated="request loop died")


# ---------------------------------------------------------------------------------------------------------------------
# C05

def g_containment(mode):
    marshal = serializers.serializers["marshal"]

    class Unser(Exception):
        def __init__(self):
            self.lock = threading.Lock()

    @api.expose
    class Bad(object):
        def unser(self):
            raise Unser()

        def ok(self):
            return "fine"

    valid_invoke = P.SendingMessage(P.MSG_INVOKE, 0, 5, marshal.serializer_id, marshal.dumpsCall("bad", "ok", (), {})).data
    hostile = [b"", b"P", b"PYRX" + b"\0" * 60, b"PYRO\x00\x01" + b"\0" * 34, valid_invoke[:17], valid_invoke[:40], valid_invoke[:-3],
               b"\xff" * 100, valid_invoke[:12] + struct.pack("!I", 2 ** 32 - 1) + valid_invoke[16:],
               valid_invoke[:16] + struct.pack("!I", 16) + valid_invoke[20:],
               valid_invoke[:7] + b"\x63" + valid_invoke[8:], valid_invoke[:6] + b"\x09" + valid_invoke[7:],
               valid_invoke[:38] + b"\0\0", valid_invoke[:40] + b"\x00garbage-not-marshal",
               P.SendingMessage(P.MSG_INVOKE, 0, 5, marshal.serializer_id, marshal.dumpsCall("bad", "ok", (), {}), annotations={"ABCD": b"12345678"}).data.replace(
                   b"ABCD\x00\x00\x00\x08", b"ABCD\xff\xff\xff\xf8"),
               P.SendingMessage(P.MSG_INVOKE, 0, 5, marshal.serializer_id, marshal.dumpsCall("nosuch", "ok", (), {})).data,
               P.SendingMessage(P.MSG_INVOKE, 0, 5, marshal.serializer_id, marshal.dumpsCall("bad", "nosuch", (), {})).data,
               P.SendingMessage(P.MSG_INVOKE, 0, 5, marshal.serializer_id, marshal.dumpsCall("bad", "unser", (), {})).data,
               P.SendingMessage(P.MSG_INVOKE, P.FLAGS_BATCH, 5, marshal.serializer_id, marshal.dumps(("bad", "<batch>", 7, {}))).data,
               P.SendingMessage(P.MSG_INVOKE, 0, 5, marshal.serializer_id, marshal.dumps(("bad", "ok"))).data,
               P.SendingMessage(P.MSG_INVOKE, 0, 5, marshal.serializer_id, marshal.dumps(("bad", ["ok"], 5, 6))).data]
    for st in ("thread", "multiplex"):
        for commtimeout in (0.0, 0.5):
            with Running(st, COMMTIMEOUT=commtimeout, THREADPOOL_SIZE=4, THREADPOOL_SIZE_MIN=1) as r:
                r.daemon.register(Bad(), "bad")
                witness = Raw(r.addr)
                ok = witness.connect("bad")
                if ok is None or ok.type != P.MSG_CONNECTOK:
                    fail(group="C05", violated="witness could not connect")
                    continue
                for phase in ("before-handshake", "after-handshake"):
                    for hi, h in enumerate(hostile):
                        RUNS[0] += 1
                        desc = {"group": "C05", "server": st, "commtimeout": commtimeout, "phase": phase, "hostile_index": hi, "hostile_head": list(h[:48])}
                        c = Raw(r.addr, timeout=1.0)
                        try:
                            if phase == "after-handshake":
                                c.connect("bad")
                            c.sock.sendall(h)
                            if hi % 2:
                                c.close(reset=True)
                            else:
                                try:
                                    c.sock.settimeout(0.2)
                                    c.sock.recv(4096)
                                except OSError:
                                    pass
                        except OSError:
                            pass
                        finally:
                            c.close()
                        witness.invoke("bad", "ok", seq=hi + 1)
                        m = witness.reply()
                        if m is None or m.type != P.MSG_RESULT or m.seq != hi + 1 or witness.value(m) != "fine":
                            fail(violated="witness client disturbed after hostile input", **desc)
                        if not r.loop_alive():
                            fail(violated="daemon request loop died", **desc)
                        if FAIL:
                            break
                fresh = Raw(r.addr)
                m = fresh.connect("bad")
                if m is None or m.type != P.MSG_CONNECTOK:
                    fail(group="C05", server=st, violated="daemon does not accept new connections after the attack")
                fresh.close()
                witness.close()
                if st == "thread":
                    time.sleep(0.3)
                    pool = r.daemon.transportServer.pool
                    if len(pool.busy) > 0:
                        fail(group="C05", server=st, violated="worker stranded after attack: %d busy" % len(pool.busy))
    # stalled peers: with a communication timeout configured, clients that send a truncated CONNECT and then just stay connected must not
    # hold pool workers beyond that timeout
    RUNS[0] += 1
    with Running("thread", COMMTIMEOUT=0.3, THREADPOOL_SIZE=2, THREADPOOL_SIZE_MIN=1) as r:
        r.daemon.register(Bad(), "bad")
        connect = P.SendingMessage(P.MSG_CONNECT, 0, 1, marshal.serializer_id, marshal.dumps({"handshake": "hello", "object": "bad"})).data
        stalled = []
        for cut in (0, 10, len(connect) - 3):
            c = socket.create_connection(r.addr, timeout=2.0)
            if cut:
                c.sendall(connect[:cut])
            stalled.append(c)
        time.sleep(1.3)
        pool = r.daemon.transportServer.pool
        busy = len(pool.busy)
        fresh = Raw(r.addr)
        m = None
        try:
            m = fresh.connect("bad")
        except Exception:      # noqa
            pass
        if busy or m is None or m.type != P.MSG_CONNECTOK:
            fail(group="C05", server="thread", commtimeout=0.3, violated="stalled truncated handshakes still hold %d worker(s) 1.3 s after they began (COMMTIMEOUT 0.3 s); "
                 "a new client %s" % (busy, "is accepted" if m is not None and m.type == P.MSG_CONNECTOK else "is refused"))
        fresh.close()
        for c in stalled:
            c.close()
    # listed known finding (no communication timeout, the default): a peer that sends only part of a message and then just stays connected is waited for on the
    # server's only loop thread (multiplex: every recv_stub; thread pool: the refusal handshake of a client that connected while the pool was full runs on the accept
    # thread) - meanwhile nobody else is served.  Everything recovers the moment that peer goes away.
    RUNS[0] += 1
    with Running("multiplex", COMMTIMEOUT=0.0) as r:
        r.daemon.register(Bad(), "bad")
        witness = Raw(r.addr, timeout=0.6)
        ok = witness.connect("bad")
        silent = socket.create_connection(r.addr, timeout=2.0)
        silent.sendall(b"PYRO")
        time.sleep(0.1)
        witness.invoke("bad", "ok", (), seq=7)
        m = witness.reply()
        stalled = ok is not None and m is None
        silent.close()
        if stalled:
            witness.sock.settimeout(3.0)
            m2 = witness.reply()
            if m2 is None or m2.seq != 7:
                fail(group="C05", server="multiplex", violated="the witness got no reply even after the silent peer had gone away")
            if "C05-multiplex-silent-partial-message-stalls-the-loop" not in KNOWN:
                KNOWN.append("C05-multiplex-silent-partial-message-stalls-the-loop")
        witness.close()
    RUNS[0] += 1
    with Running("thread", COMMTIMEOUT=0.0, THREADPOOL_SIZE=2, THREADPOOL_SIZE_MIN=1) as r:
        r.daemon.register(Bad(), "bad")
        c1, c2 = Raw(r.addr, timeout=2.0), Raw(r.addr, timeout=2.0)
        ok = c1.connect("bad") is not None and c2.connect("bad") is not None          # both workers busy
        silent = socket.create_connection(r.addr, timeout=2.0)                        # connects while the pool is full: refused on the accept thread ...
        silent.sendall(b"PYRO")                                                       # ... which first waits for its CONNECT message
        time.sleep(0.2)
        c1.close()                                                                    # a worker becomes free again
        time.sleep(0.3)
        late = Raw(r.addr, timeout=0.6)
        ml = None
        try:
            ml = late.connect("bad")
        except Exception:      # noqa
            pass
        stalled = ok and ml is None
        silent.close()
        if stalled:
            late.sock.settimeout(3.0)
            ml = late.reply()
            if ml is None or ml.type != P.MSG_CONNECTOK:
                fail(group="C05", server="thread", violated="a new client was not accepted even after the silent peer had gone away and a worker was free")
            if "C05-threadpool-silent-peer-refused-on-the-accept-thread" not in KNOWN:
                KNOWN.append("C05-threadpool-silent-peer-refused-on-the-accept-thread")
        for c in (c2, late):
            c.close()
    # several events in ONE select round of the multiplex server: its loop thread is parked inside a remote method while an established connection sends hostile bytes,
    # a new client connects, and a witness sends a request; when the loop resumes it finds all of them ready at once.  Everybody but the hostile peer is served.
    gate = threading.Event()

    @api.expose
    class Parking(Bad):
        def hold(self):
            gate.wait(5.0)
            return "released"
    for hostile_bytes in (b"\xff" * 40, b"PYRX" + b"\0" * 36, valid_invoke[:12] + struct.pack("!I", 2 ** 31) + valid_invoke[16:], valid_invoke[:7] + b"\x63" + valid_invoke[8:]):
        RUNS[0] += 1
        gate.clear()
        with Running("multiplex", COMMTIMEOUT=0.0) as r:
            r.daemon.register(Parking(), "bad")
            witness, hostile_c, blocker = Raw(r.addr, timeout=4.0), Raw(r.addr, timeout=4.0), Raw(r.addr, timeout=4.0)
            okc = all(c.connect("bad") is not None for c in (witness, hostile_c, blocker))
            blocker.invoke("bad", "hold", (), seq=2)
            time.sleep(0.1)                                  # the loop thread is inside hold() now
            hostile_c.sock.sendall(hostile_bytes)
            newcomer = Raw(r.addr, timeout=4.0)
            newcomer.send_msg(P.MSG_CONNECT, newcomer.ser.dumps({"handshake": "hello", "object": "bad"}))
            witness.invoke("bad", "ok", (), seq=3)
            time.sleep(0.1)
            gate.set()
            mb = blocker.reply()
            mn = newcomer.reply()
            mw = witness.reply()
            time.sleep(0.1)
            late = Raw(r.addr, timeout=2.0)
            ml = None
            try:
                ml = late.connect("bad")
            except Exception:      # noqa
                pass
            problems = []
            if not okc:
                problems.append("setup failed")
            if mb is None:
                problems.append("the call that was being served got no reply")
            if mn is None or mn.type != P.MSG_CONNECTOK:
                problems.append("the client that connected in the same round was not accepted")
            if mw is None or mw.seq != 3:
                problems.append("the witness connection got no reply")
            if ml is None or ml.type != P.MSG_CONNECTOK:
                problems.append("no new connection is accepted afterwards")
            if not r.loop_alive():
                problems.append("the request loop thread ended")
            if problems:
                fail(group="C05", server="multiplex", scenario="hostile bytes, a new connection and a request in one select round", hostile=list(hostile_bytes[:16]),
                     violated="; ".join(problems))
            for c in (witness, hostile_c, blocker, newcomer, late):
                c.close()


# ---------------------------------------------------------------------------------------------------------------------
# C13

def g_cleanup(mode):
    class Res(object):
        def __init__(self, name):
            self.name, self.closed = name, 0

        def close(self):
            self.closed += 1
            if self.name.endswith("-selfuntrack"):
                # one close() shared between "the client freed it" and "the connection dropped": stop tracking once closed
                try:
                    current_context.untrack_resource(self)
                except Exception:      # noqa  (no connection in this thread's context)
                    pass

    allres = []
    CONNIDS = []

    @api.expose
    @api.behavior(instance_mode="session")
    class Sess(object):
        def __init__(self):
            r = Res("ctor")
            allres.append(r)
            current_context.track_resource(r)
            self.res_ctor = r

        def grab(self, n):
            self.connid = str(uuid.uuid4())
            current_context.client._harness_token = self.connid
            CONNIDS.append(self.connid)
            out = []
            for i in range(n):
                r = Res("m%d" % i if n < 4 else "m%d-selfuntrack" % i)
                allres.append(r)
                current_context.track_resource(r)
                out.append(r)
            self.keep = out
            return n

        def ping(self):
            return "pong"

    class D(server.Daemon):
        disc = {}

        def clientDisconnect(self, conn):
            tok = getattr(conn, "_harness_token", None)
            D.disc[tok] = D.disc.get(tok, 0) + 1

    marshal = serializers.serializers["marshal"]
    for st, ct, endings in (("thread", 0.0, ["release", "reset", "partial-header-reset", "partial-body-reset", "malformed"]),
                            ("multiplex", 0.0, ["release", "reset", "partial-header-reset", "partial-body-reset", "malformed"]),
                            ("thread", 0.4, ["timeout"]), ("multiplex", 0.4, ["timeout"])):
        with Running(st, D, COMMTIMEOUT=ct) as r:
            r.daemon.register(Sess, "sess")
            bystander = Raw(r.addr)
            bystander.connect("sess")
            bystander.invoke("sess", "grab", (1,), seq=1)
            bystander.reply()
            n_by = len(allres)
            by_res = list(allres)
            for ending in endings:
                for nres in (0, 2) + ((4,) if ending == "release" else ()):      # 4: resources whose close() untracks themselves
                    RUNS[0] += 1
                    before = len(allres)
                    c = Raw(r.addr)
                    c.connect("sess")
                    c.invoke("sess", "grab", (nres,), seq=1)
                    m0 = c.reply()
                    if m0 is None or m0.flags & P.FLAGS_EXCEPTION:
                        fail(group="C13", server=st, violated="a session object whose constructor tracks a resource could not be used: %r" % (
                            None if m0 is None else c.value(m0),))
                        c.close()
                        continue
                    mine = allres[before:]
                    desc = {"group": "C13", "server": st, "ending": ending, "resources": nres}
                    full = P.SendingMessage(P.MSG_INVOKE, 0, 2, marshal.serializer_id, marshal.dumpsCall("sess", "ping", (), {})).data
                    if ending == "release":
                        c.close()
                    elif ending == "reset":
                        c.close(reset=True)
                    elif ending == "partial-header-reset":
                        c.sock.sendall(full[:10])
                        c.close(reset=True)
                    elif ending == "partial-body-reset":
                        c.sock.sendall(full[:45])
                        c.close(reset=True)
                    elif ending == "malformed":
                        c.sock.sendall(b"PYRO" + b"\xff" * 50)
                        time.sleep(0.1)
                        c.close()
                    elif ending == "timeout":
                        c.sock.sendall(full[:20])
                        time.sleep(0.7)
                        c.close()
                    # keep the bystander alive across the server-side timeout
                    deadline = time.time() + 2.0
                    cid = CONNIDS[-1]
                    while time.time() < deadline and (D.disc.get(cid, 0) < 1 or any(x.closed == 0 for x in mine)):
                        time.sleep(0.05)
                    time.sleep(0.1)
                    if D.disc.get(cid, 0) != 1:
                        fail(violated="disconnect hook called %d times for this connection" % D.disc.get(cid, 0), **desc)
                    bad = [(x.name, x.closed) for x in mine if x.closed != 1]
                    if bad:
                        fail(violated="tracked resources not closed exactly once: %r" % bad, **desc)
                    if ct == 0.0 and any(x.closed for x in by_res):
                        fail(violated="resource of a connection that is still open was closed", **desc)
            if st == "multiplex" and ct == 0.0:
                bystander.invoke("sess", "ping", seq=9)
                m = bystander.reply()
                if m is None:
                    fail(group="C13", server=st, violated="bystander connection was disturbed")
            bystander.close()
            del allres[:]
    # a resource whose ONLY strong reference is an attribute of the connection's session instance (the natural way to write a per-session resource): the tracked set
    # holds weak references, so the resource must still be closed when the connection ends - the session instance may be dropped only afterwards
    class Owned(object):
        closed = []

        def __init__(self, name):
            self.name = name

        def close(self):
            Owned.closed.append(self.name)

    @api.expose
    @api.behavior(instance_mode="session")
    class OwningSession(object):
        def __init__(self):
            self.res = Owned("owned-by-session")
            current_context.track_resource(self.res)

        def ping(self):
            return "pong"
    for st in ("thread", "multiplex"):
        RUNS[0] += 1
        del Owned.closed[:]
        with Running(st) as r:
            r.daemon.register(OwningSession, "owning")
            c = Raw(r.addr)
            c.connect("owning")
            c.invoke("owning", "ping", (), seq=1)
            m = c.reply()
            c.close()
            time.sleep(0.3)
            if m is None:
                fail(group="C13", server=st, violated="setup: no reply")
            elif Owned.closed != ["owned-by-session"]:
                fail(group="C13", server=st, scenario="resource referenced only by the session instance",
                     violated="the connection ended but the resource tracked on it was closed %d times (close calls: %r)" % (len(Owned.closed), Owned.closed))
    # listed known findings (the tracked-resource set is a WeakSet that is cleared after a snapshot walk): two distinct resources that compare equal share one
    # slot, so only one of them is closed; a resource tracked WHILE the connection is being closed (by another resource's close()) is forgotten unclosed
    class Handle(object):
        def __init__(self, name):
            self.name, self.closed = name, 0

        def __eq__(self, other):
            return isinstance(other, Handle) and other.name == self.name

        def __hash__(self):
            return hash(self.name)

        def close(self):
            self.closed += 1

    class FakeSock(object):
        def close(self): pass
        def shutdown(self, *a): pass
        def setblocking(self, *a): pass
    RUNS[0] += 1
    conn = socketutil.SocketConnection(FakeSock())
    h1, h2 = Handle("same"), Handle("same")
    conn.tracked_resources.add(h1)
    conn.tracked_resources.add(h2)
    conn.close()
    if (h1.closed, h2.closed) != (1, 1) and "C13-equal-resources-share-a-slot" not in KNOWN:
        KNOWN.append("C13-equal-resources-share-a-slot")
    RUNS[0] += 1
    conn = socketutil.SocketConnection(FakeSock())
    late = Res("late")

    class Parent(object):
        closed = 0

        def close(self):
            Parent.closed += 1
            conn.tracked_resources.add(late)
    parent = Parent()
    conn.tracked_resources.add(parent)
    conn.close()
    if Parent.closed == 1 and late.closed == 0 and late not in conn.tracked_resources and "C13-resource-tracked-during-close" not in KNOWN:
        KNOWN.append("C13-resource-tracked-during-close")


# ---------------------------------------------------------------------------------------------------------------------
# C12

def g_context(mode):
    marshal = serializers.serializers["marshal"]
    hold = threading.Event()
    started = threading.Event()

    @api.expose
    class Ctx(Target):
        @api.oneway
        def late(self, tag):
            started.set()
            hold.wait(2.0)
            current_context.response_annotations["LATE"] = tag.encode()

        def release_and_wait(self):
            hold.set()
            time.sleep(0.15)
            return "released"

        def snapshot(self, token):
            c = current_context
            return [token, c.seq, c.msg_flags & ~P.FLAGS_CORR_ID, c.serializer_id, sorted(c.annotations.keys())]

    def anns(m):
        return {k: bytes(v) for k, v in m.annotations.items()} if m is not None else None

    # listed known finding: client and daemon roles share ONE thread-local response-annotation slot, so a served method that itself calls another Pyro object
    # gets the inner reply's annotations sent with its own reply to the outer client (and loses what it had set before the nested call)
    @api.expose
    class Inner(object):
        def secret(self):
            current_context.response_annotations["INNR"] = b"for-my-caller-only"
            return 1

    @api.expose
    class Outer(object):
        def __init__(self, uri):
            self.uri = uri

        def relay(self):
            with client.Proxy(self.uri) as p:
                p._pyroSerializer = "marshal"
                return p.secret()
    with Running("thread", THREADPOOL_SIZE=4, THREADPOOL_SIZE_MIN=2) as r2:
        inner_uri = r2.daemon.register(Inner(), "inner")
        r2.daemon.register(Outer(inner_uri), "outer")
        RUNS[0] += 1
        c = Raw(r2.addr)
        c.connect("outer")
        c.invoke("outer", "relay", (), seq=3)
        m = c.reply()
        if m is not None and "INNR" in anns(m) and "C12-nested-call-forwards-inner-reply-annotations" not in KNOWN:
            KNOWN.append("C12-nested-call-forwards-inner-reply-annotations")
        c.close()

    # a served method that forwards a SerializedBlob to another object (the use the blob exists for: gateways / dispatchers): the request annotations it can read
    # before and after that nested call are those of the request being served - and a later, ordinary call from that thread does not carry the blob's bookkeeping
    @api.expose
    class Backend(object):
        def take(self, blob):
            return "took %s" % (blob.info,)

        def seen(self):
            return sorted(current_context.annotations.keys())

    @api.expose
    class Gateway(object):
        def __init__(self, uri):
            self.uri = uri

        def forward(self, what):
            before = sorted(current_context.annotations.keys())
            with client.Proxy(self.uri) as p:
                p._pyroSerializer = "marshal"
                p.take(client.SerializedBlob("info-" + what, [what]))
                later = p.seen()
            after = sorted(current_context.annotations.keys())
            return [before, after, later]
    with Running("thread", THREADPOOL_SIZE=4, THREADPOOL_SIZE_MIN=2) as r3:
        backend_uri = r3.daemon.register(Backend(), "backend")
        r3.daemon.register(Gateway(backend_uri), "gateway")
        for sent in ({}, {"USER": b"mine"}):
            RUNS[0] += 1
            c = Raw(r3.addr)
            c.connect("gateway")
            c.invoke("gateway", "forward", ("x",), seq=4, annotations=sent)
            m = c.reply()
            got = c.value(m) if m is not None and m.type == P.MSG_RESULT and not (m.flags & P.FLAGS_EXCEPTION) else None
            c.close()
            if got is None:
                fail(group="C12", scenario="served method forwards a SerializedBlob", violated="the gateway call failed: %r" % (m,))
            before, after, later = [list(x) for x in got]
            if before != sorted(sent) or after != sorted(sent):
                fail(group="C12", scenario="served method forwards a SerializedBlob to another object", request_annotations=sorted(sent),
                     violated="the request annotations the method reads changed while it ran: %r before the nested blob call, %r after it (the request carried %r)"
                              % (before, after, sorted(sent)))
            if "BLBI" in later:
                fail(group="C12", scenario="an ordinary call following a blob call from the same thread", request_annotations=sorted(sent),
                     violated="the ordinary call carried the blob bookkeeping annotation of the EARLIER call: the served method read request annotations %r" % (later,))

    # a oneway call whose thread only gets to run while the server thread is already serving the NEXT request (the start of the oneway thread is held back and released
    # from inside the next method): the oneway method must still read ITS request's context (sequence number, annotations), not the live context of the server thread
    seen, ran = [], threading.Event()

    @api.expose
    class Deferred(object):
        @api.oneway
        def late_ctx(self):
            seen.append((current_context.seq, sorted(current_context.annotations.keys())))
            ran.set()

        def release(self):
            for t in list(held):
                orig_start(t)
            del held[:]
            ran.wait(3.0)
            return "released"
    held = []
    orig_start = server._OnewayCallThread.start
    for st in ("thread", "multiplex"):
        RUNS[0] += 1
        del seen[:], held[:]
        ran.clear()
        with Running(st, THREADPOOL_SIZE=2, THREADPOOL_SIZE_MIN=1) as r4:
            r4.daemon.register(Deferred(), "deferred")
            server._OnewayCallThread.start = lambda self: held.append(self)
            try:
                c = Raw(r4.addr)
                c.connect("deferred")
                c.invoke("deferred", "late_ctx", (), seq=5, flags=P.FLAGS_ONEWAY, annotations={"AAAA": b"first"})
                c.invoke("deferred", "release", (), seq=6, annotations={"BBBB": b"second"})
                m = c.reply()
                c.close()
            finally:
                server._OnewayCallThread.start = orig_start
            if m is None or not seen:
                fail(group="C12", server=st, scenario="oneway thread started while the next request is served", violated="scenario did not run: reply %r, oneway ran %r" % (m, seen))
            elif seen[0] != (5, ["AAAA"]):
                fail(group="C12", server=st, scenario="oneway thread started while the next request is being served",
                     violated="the oneway method (request seq 5, annotation AAAA) read the call context %r - that of the request the server thread was serving by then" % (seen[0],))

    for st in ("thread", "multiplex"):
        with Running(st, THREADPOOL_SIZE=1, THREADPOOL_SIZE_MIN=1) as r:
            r.daemon.register(Ctx(), "ctx")
            a = Raw(r.addr)
            a.connect("ctx")
            # 1. annotation set by a call that raises must not ride on later replies
            RUNS[0] += 1
            a.invoke("ctx", "annotate", ("secret", True), seq=1)
            m1 = a.reply()
            a.invoke("ctx", "echo", (1,), seq=2)
            m2 = a.reply()
            a.send_msg(P.MSG_PING, b"ping", seq=3)
            m3 = a.reply()
            for label, m in (("next reply", m2), ("ping", m3)):
                if m is None or "TAGX" in anns(m):
                    fail(group="C12", server=st, scenario="annotation of a raising call", violated="annotation leaked into the %s: %r" % (label, anns(m)))
            # 2. annotation of a normal call travels with exactly that reply
            RUNS[0] += 1
            a.invoke("ctx", "annotate", ("mine", False), seq=4)
            m4 = a.reply()
            a.invoke("ctx", "echo", (1,), seq=5)
            m5 = a.reply()
            if anns(m4).get("TAGX") != b"mine" or "TAGX" in anns(m5):
                fail(group="C12", server=st, scenario="annotation of a normal call", violated="got %r then %r" % (anns(m4), anns(m5)))
            # 3. context seen by the method is that of its own request
            for seq, ann in ((17, {"QQQQ": b"1"}), (18, {})):
                RUNS[0] += 1
                a.invoke("ctx", "snapshot", ("t%d" % seq,), seq=seq, annotations=ann)
                m = a.reply()
                v = a.value(m)
                if v[0] != "t%d" % seq or v[1] != seq or v[3] != marshal.serializer_id or v[4] != sorted(ann):
                    fail(group="C12", server=st, scenario="context snapshot", violated="method saw %r for request seq=%d ann=%r" % (v, seq, sorted(ann)))
            # 4. a oneway method that writes its annotation late must not reach another reply / handshake answer
            RUNS[0] += 1
            hold.clear()
            started.clear()
            a.invoke("ctx", "late", ("bg",), flags=P.FLAGS_ONEWAY, seq=20)
            started.wait(2.0)
            a.invoke("ctx", "release_and_wait", (), seq=21)       # the oneway method writes while this request is being served
            m21 = a.reply()
            hold.set()
            time.sleep(0.15)
            a.invoke("ctx", "echo", (3,), seq=22)
            m22 = a.reply()
            a.close()
            time.sleep(0.1)
            b = Raw(r.addr)
            hs = b.connect("ctx")
            b.invoke("ctx", "echo", (4,), seq=1)
            mb = b.reply()
            for label, m in (("reply during oneway", m21), ("reply after oneway", m22), ("handshake answer of the next client", hs), ("first reply of the next client", mb)):
                if m is not None and "LATE" in anns(m):
                    fail(group="C12", server=st, scenario="late oneway annotation", violated="annotation of the oneway call rode on the %s" % label)
            b.close()
    # client side: after each call only that call's reply annotations are visible
    with Running("thread") as r:
        uri = r.daemon.register(Ctx(), "ctx2")
        with client.Proxy(uri) as p:
            RUNS[0] += 1
            p.annotate("first")
            seen1 = dict(current_context.response_annotations)
            p.fire(1)
            seen2 = dict(current_context.response_annotations)
            p.echo(1)
            seen3 = dict(current_context.response_annotations)
            if "TAGX" not in seen1 or "TAGX" in seen2 or "TAGX" in seen3:
                fail(group="C12", scenario="client side", violated="client observed %r, %r, %r" % (sorted(seen1), sorted(seen2), sorted(seen3)))
    # client side: after each call the client sees only THAT call's reply annotations - also when the call had to (re)connect first and the
    # handshake reply carried annotations of its own
    class HsDaemon(server.Daemon):
        def validateHandshake(self, conn, data):
            current_context.response_annotations["HSHK"] = b"from-the-handshake"
            return "ok"

    for st in ("thread", "multiplex"):
        with Running(st, HsDaemon) as r:
            uri = r.daemon.register(Ctx(), "ctx")
            with client.Proxy(uri) as p:
                p._pyroBind()
                for what in ("plain call", "oneway call", "raising call"):
                    RUNS[0] += 1
                    p._pyroRelease()          # the next call has to connect first
                    current_context.response_annotations = {"OLD!": b"stale"}
                    try:
                        if what == "plain call":
                            p.echo(1)
                        elif what == "oneway call":
                            p.fire(1)
                        else:
                            p.boom()
                    except Exception:      # noqa
                        pass
                    seen = {k: bytes(v) for k, v in current_context.response_annotations.items()}
                    if seen:
                        fail(group="C12", server=st, scenario="%s on a proxy that had to connect first" % what,
                             violated="after the call the client sees annotations %r, the call's reply carried none" % (seen,))
            current_context.response_annotations = {}


# ---------------------------------------------------------------------------------------------------------------------
# C03 (server part) / C07

def drain(it):
    """consume a remote iterator and close it in THIS thread (left to the garbage collector, its __del__ may run inside the in-process
    daemon's own thread and try to connect to that very daemon)"""
    try:
        return list(it)
    finally:
        it.close()


def batch_of(p):
    b = client.BatchProxy(p)
    b.once("in batch")
    b.raise_builtin("ValueError", ["a", 1])
    return b


def g_replies(mode):
    marshal = serializers.serializers["marshal"]

    @api.expose
    class Exc(object):
        def __init__(self):
            self.count = 0

        def once(self, token):
            self.count += 1
            return [token, self.count]

        def raise_builtin(self, name, args):
            import builtins
            raise getattr(builtins, name)(*args)

        def raise_pyro(self, name):
            raise getattr(errors, name)("pyro says no")

        def raise_with_attr(self):
            e = ValueError("x")
            e.custom = [1, 2]
            raise e

        def raise_unser(self):
            e = ValueError("x")
            e.lock = threading.Lock()
            raise e

        @property
        def bad_prop(self):
            raise ValueError("bad value", 42)

        @bad_prop.setter
        def bad_prop(self, v):
            e = KeyError("cannot set", v)
            e.custom = [v]
            raise e

        def raise_nested(self):
            raise ValueError("bad uri", core.URI("PYRO:obj@host:1"))

        def raise_unser_content(self):
            e = ValueError("boom")
            e.culprit = object()
            raise e

        def raise_systemexit(self):
            raise SystemExit(3)

        def raise_surrogate(self):
            raise ValueError("cannot process file: " + os.fsdecode(b"report-\xff.txt"))

        def raise_with_pyromsg_attr(self):
            e = ValueError("boom")
            e.pyroMsg = "just some text the application put there"
            raise e

        def items_then_fail(self):
            def g():
                yield 1
                raise ValueError("mid-stream", 7)
            return g()

        def raise_halfinit(self):
            class Slotted(object):
                __slots__ = ("a", "b")
            e = ValueError("x")
            s = Slotted()
            s.a = 1
            e.thing = s
            raise e

    for st in ("thread", "multiplex"):
        with Running(st) as r:
            obj = Exc()
            uri = r.daemon.register(obj, "exc")
            raw = Raw(r.addr)
            raw.connect("exc")
            # reply carries the request's seq and serializer; oneway gets no reply; exactly one execution
            for seq in (0, 1, 65535):
                RUNS[0] += 1
                before = obj.count
                raw.invoke("exc", "once", ("tok%d" % seq,), seq=seq)
                m = raw.reply()
                if m is None or m.seq != seq or m.serializer_id != marshal.serializer_id or raw.value(m)[0] != "tok%d" % seq or obj.count != before + 1:
                    fail(group="C03", server=st, violated="reply does not belong to the request", seq=seq)
            RUNS[0] += 1
            before = obj.count
            raw.invoke("exc", "once", ("oneway",), flags=P.FLAGS_ONEWAY, seq=7)
            raw.invoke("exc", "once", ("after",), seq=8)
            m = raw.reply()
            if m is None or m.seq != 8 or raw.value(m)[0] != "after":
                fail(group="C03", server=st, violated="oneway call produced a reply or disturbed the next reply")
            time.sleep(0.1)
            if obj.count != before + 2:
                fail(group="C03", server=st, violated="oneway + normal call executed %d times" % (obj.count - before))
            raw.close()
            for sername in ("serpent", "json", "marshal", "msgpack"):
                with client.Proxy(uri) as p:
                    p._pyroSerializer = sername
                    for name, args in (("ValueError", ["a", 1]), ("KeyError", ["k"]), ("ZeroDivisionError", []), ("TimeoutError", ["builtin timeout"]),
                                       ("OSError", [2, "nope"]), ("StopIteration", [])):
                        RUNS[0] += 1
                        import builtins
                        try:
                            p.raise_builtin(name, args)
                            fail(group="C07", serializer=sername, violated="no exception for remote %s" % name)
                        except Exception as x:    # noqa
                            if type(x) is not type(getattr(builtins, name)(*args)) or list(x.args) != args or not getattr(x, "_pyroTraceback", None):
                                fail(group="C07", serializer=sername, violated="remote %s%r arrived as %s%r (traceback: %s)" % (
                                    name, args, type(x).__module__ + "." + type(x).__name__, x.args, bool(getattr(x, "_pyroTraceback", None))))
                    for name in ("NamingError", "DaemonError", "SecurityError", "SerializeError"):
                        RUNS[0] += 1
                        with client.Proxy(uri) as q:       # (the daemon drops the connection after a Security/Serialize error)
                            q._pyroSerializer = sername
                            try:
                                q.raise_pyro(name)
                                fail(group="C07", serializer=sername, violated="no exception for remote %s" % name)
                            except Exception as x:    # noqa
                                if type(x) is not getattr(errors, name):
                                    fail(group="C07", serializer=sername, violated="remote %s arrived as %s" % (name, type(x).__name__))
                    for name in ("ConnectionClosedError", "TimeoutError", "ProtocolError", "CommunicationError"):
                        RUNS[0] += 1
                        with client.Proxy(uri) as q:
                            q._pyroSerializer = sername
                            try:
                                q.raise_pyro(name)
                            except Exception as x:    # noqa
                                if type(x) is not getattr(errors, name) or "pyro says no" not in str(x):
                                    if "C07-user-raised-communication-error" not in KNOWN:
                                        KNOWN.append("C07-user-raised-communication-error")
                    # the other positions an exception can travel in: attribute get / set, batch member, streamed item
                    for pos, act, want_t, want_args in (
                            ("attribute get", lambda: p.bad_prop, ValueError, ("bad value", 42)),
                            ("attribute set", lambda: setattr(p, "bad_prop", 5), KeyError, ("cannot set", 5)),
                            ("batch member", lambda: list(batch_of(p)()), ValueError, ("a", 1)),
                            ("streamed item", lambda: drain(p.items_then_fail()), ValueError, ("mid-stream", 7))):
                        RUNS[0] += 1
                        try:
                            act()
                            fail(group="C07", serializer=sername, position=pos, violated="no exception")
                        except Exception as x:    # noqa
                            if sername == "marshal" and pos == "batch member" and isinstance(x, ValueError) and "unmarshallable" in str(x):
                                if "C07-marshal-batch-member-exception" not in KNOWN:
                                    KNOWN.append("C07-marshal-batch-member-exception")
                            elif type(x) is not want_t or tuple(x.args) != want_args:
                                fail(group="C07", serializer=sername, position=pos,
                                     violated="caller got %s%r instead of %s%r" % (type(x).__name__, x.args, want_t.__name__, want_args))
                    # listed known findings
                    RUNS[0] += 1
                    try:
                        p.raise_nested()
                    except ValueError as x:
                        if len(x.args) == 2 and isinstance(x.args[1], dict) and sername in ("serpent", "json") and "C07-class-values-nested-in-exception" not in KNOWN:
                            KNOWN.append("C07-class-values-nested-in-exception")
                        elif len(x.args) != 2 or not isinstance(x.args[1], (core.URI, dict)):
                            fail(group="C07", serializer=sername, scenario="raise_nested", violated="args arrived as %r" % (x.args,))
                    except Exception as x:    # noqa
                        if sername != "marshal":
                            fail(group="C07", serializer=sername, scenario="raise_nested", violated="caller got %r" % (x,))
                    if sername != "marshal":
                        RUNS[0] += 1
                        b_ = client.BatchProxy(p)
                        b_.once("x")
                        b_.raise_unser_content()
                        try:
                            list(b_())
                            fail(group="C07", serializer=sername, scenario="batch member with unserialisable exception content", violated="no exception")
                        except Exception as x:    # noqa
                            if "ValueError" not in str(x) and not isinstance(x, ValueError):
                                if "C07-batch-member-unserialisable-exception" not in KNOWN:
                                    KNOWN.append("C07-batch-member-unserialisable-exception")
                    # content that is awkward for the error reply itself: text the serializer cannot encode (lone surrogate), an attribute named
                    # like Pyro's own bookkeeping: the caller still gets the exception or a Pyro error describing it - never a dropped connection
                    for meth in ("raise_surrogate", "raise_with_pyromsg_attr"):
                        RUNS[0] += 1
                        with client.Proxy(uri) as q:
                            q._pyroSerializer = sername
                            try:
                                getattr(q, meth)()
                                fail(group="C07", serializer=sername, scenario=meth, violated="no exception")
                            except errors.CommunicationError as x:
                                fail(group="C07", serializer=sername, scenario=meth, violated="caller got %s(%s) instead of the exception or a Pyro error describing it" % (type(x).__name__, x))
                            except Exception as x:    # noqa
                                if "ValueError" not in str(x) and not isinstance(x, ValueError):
                                    fail(group="C07", serializer=sername, scenario=meth, violated="error does not describe the original: %r" % (x,))
                    RUNS[0] += 1
                    try:
                        p.raise_with_attr()
                    except ValueError as x:
                        if getattr(x, "custom", None) != [1, 2]:
                            fail(group="C07", serializer=sername, violated="custom attribute lost: %r" % (getattr(x, "custom", None),))
                    if sername != "marshal":
                        for meth in ("raise_unser", "raise_halfinit"):
                            RUNS[0] += 1
                            try:
                                getattr(p, meth)()
                                fail(group="C07", serializer=sername, violated="silent None for unserialisable exception")
                            except errors.CommunicationError as x:
                                fail(group="C07", serializer=sername, scenario=meth, violated="caller got %s instead of a Pyro error describing the original" % type(x).__name__)
                            except Exception as x:    # noqa
                                if "ValueError" not in str(x) and not isinstance(x, ValueError):
                                    fail(group="C07", serializer=sername, scenario=meth, violated="error does not describe the original: %r" % (x,))
                            RUNS[0] += 1
                            if p.once("next")[0] != "next":
                                fail(group="C07", serializer=sername, violated="proxy unusable after unserialisable exception")


    # listed known finding: a remote method ending with a BaseException that is not an Exception (sys.exit()): no error reply; on the multiplex server
    # the exception leaves the request loop
    for st in ("thread", "multiplex"):
        RUNS[0] += 1
        with Running(st) as r:
            uri = r.daemon.register(Exc(), "exc")
            with client.Proxy(uri) as p:
                p._pyroTimeout = 1.0
                try:
                    p.raise_systemexit()
                    fail(group="C07", server=st, scenario="raise_systemexit", violated="no exception")
                except SystemExit:
                    pass
                except Exception:    # noqa
                    if "C07-baseexception-from-remote-method" not in KNOWN:
                        KNOWN.append("C07-baseexception-from-remote-method")
            time.sleep(0.2)


# ---------------------------------------------------------------------------------------------------------------------
# C11

def g_batch(mode):
    @api.expose
    class Acc(object):
        def __init__(self):
            self.total, self.log = 0, []

        def add(self, n):
            self.total += n
            self.log.append(n)
            return self.total

        def fail(self):
            self.log.append("fail")
            raise ZeroDivisionError("boom")

        def _priv(self):
            self.log.append("priv")

        def state(self):
            return [self.total, list(self.log)]

    class Hidden(Acc):
        def unexposed(self):
            self.log.append("unexposed")

    seqs = [[], [("add", 1)], [("add", 1), ("add", 2), ("add", 3)], [("add", 5), ("fail",), ("add", 1), ("add", 2)],
            [("fail",)], [("add", 5), ("_priv",), ("add", 1)], [("add", 5), ("nosuch",), ("add", 1)], [("add", 2), ("add", 3), ("fail",)]]
    for st in ("thread",):
        with Running(st) as r:
            for sername in ("serpent", "json", "msgpack"):
                for oneway, bound in ((False, False), (True, False), (False, True), (True, True)):
                    for calls_ in seqs:
                        RUNS[0] += 1
                        objs = [Acc(), Acc()]
                        uris = [r.daemon.register(o) for o in objs]
                        desc = {"group": "C11", "serializer": sername, "oneway": oneway, "calls": calls_, "proxy_already_connected": bound}
                        try:
                            # sequential reference
                            ref_results, ref_exc = [], None
                            with client.Proxy(uris[0]) as p:
                                p._pyroSerializer = sername
                                for cl in calls_:
                                    try:
                                        ref_results.append(getattr(p, cl[0])(*cl[1:]))
                                    except Exception as x:    # noqa
                                        ref_exc = type(x)
                                        break
                            got_results, got_exc = [], None
                            with client.Proxy(uris[1]) as p:
                                p._pyroSerializer = sername
                                if bound:
                                    p._pyroBind()       # the proxy has been used before: it knows the object's metadata
                                b = client.BatchProxy(p)
                                for cl in calls_:
                                    getattr(b, cl[0])(*cl[1:])
                                try:
                                    res = b(oneway=oneway)
                                    if res is not None:
                                        for x in res:
                                            got_results.append(x)
                                except Exception as x:    # noqa
                                    got_exc = type(x)
                            if oneway:
                                time.sleep(0.15)
                            if objs[0].state() != objs[1].state():
                                fail(violated="object state after batch %r != after one-by-one calls %r" % (objs[1].state(), objs[0].state()), **desc)
                            # the failure reaches the caller at its position in the result sequence, or when the batch is submitted
                            if not oneway and (got_exc != ref_exc or got_results != ref_results[:len(got_results)] or
                                               (got_exc is None and got_results != ref_results)):
                                fail(violated="batch results %r/%s != sequential %r/%s" % (got_results, got_exc, ref_results, ref_exc), **desc)
                        finally:
                            for o in objs:
                                r.daemon.unregister(o)
            # the remote object is a registered CLASS (session instances: one fresh object per connection).  An earlier connection has used a batch on the id;
            # then the same program is run one by one on a new connection and as a batch on another new connection - both start from a fresh identical object
            # (instance_mode percall is left out on purpose: one by one every call gets its own fresh object, so there is no "identical object" the property could
            #  compare a batch with; single: one shared object, covered by the instance scenarios above)
            for mode_ in ("session",):
                for sername in ("serpent", "json"):
                    RUNS[0] += 1

                    @api.expose
                    @server.behavior(instance_mode=mode_)
                    class AccClass(Acc):
                        pass
                    uri = r.daemon.register(AccClass)
                    desc = {"group": "C11", "registered": "class, instance_mode=%s" % mode_, "serializer": sername}
                    try:
                        def run(calls_, batch):
                            out, exc = [], None
                            with client.Proxy(uri) as p:
                                p._pyroSerializer = sername
                                if batch:
                                    b = client.BatchProxy(p)
                                    for cl in calls_:
                                        getattr(b, cl[0])(*cl[1:])
                                    try:
                                        for x in b():
                                            out.append(x)
                                    except Exception as x:    # noqa
                                        exc = type(x)
                                else:
                                    for cl in calls_:
                                        try:
                                            out.append(getattr(p, cl[0])(*cl[1:]))
                                        except Exception as x:    # noqa
                                            exc = type(x)
                                            break
                                return out, exc, p.state()
                        run([("add", 1000), ("state",)], True)        # the earlier connection
                        for calls_ in ([("add", 5), ("add", 7), ("state",)], [("add", 5), ("fail",), ("add", 1)]):
                            ref = run(calls_, False)
                            got = run(calls_, True)
                            if got != ref:
                                fail(violated="batch on a fresh connection %r != the same calls one by one on a fresh connection %r" % (got, ref), calls=calls_, **desc)
                    finally:
                        r.daemon.unregister(uri.object)
            # listed known findings: a @oneway method inside a NORMAL batch runs inline and contributes its result / exception (one by one it
            # returns None and its exception is swallowed in its own thread); a member whose RESULT cannot be serialised fails the batch only after
            # the later members have run
            RUNS[0] += 1

            @api.expose
            class Odd(Acc):
                @api.oneway
                def ow_bad(self, n):
                    self.log.append(n)
                    raise ValueError("oneway failed")

                def opaque(self):
                    self.log.append("opaque")
                    return object()

            o1, o2, o3 = Odd(), Odd(), Odd()
            u1, u2, u3 = [r.daemon.register(o) for o in (o1, o2, o3)]
            try:
                with client.Proxy(u1) as p:
                    p.add(1)
                    p.ow_bad(4)
                    time.sleep(0.1)
                    p.add(5)
                with client.Proxy(u2) as p:
                    b = client.BatchProxy(p)
                    b.add(1)
                    b.ow_bad(4)
                    b.add(5)
                    try:
                        list(b())
                    except Exception:      # noqa
                        pass
                if o1.state() != o2.state() and "C11-oneway-member-in-normal-batch" not in KNOWN:
                    KNOWN.append("C11-oneway-member-in-normal-batch")
                with client.Proxy(u3) as p:
                    b = client.BatchProxy(p)
                    b.add(1)
                    b.opaque()
                    b.add(2)
                    try:
                        list(b())
                    except Exception:      # noqa
                        pass
                if o3.log == [1, "opaque", 2] and "C11-unserialisable-member-result" not in KNOWN:
                    KNOWN.append("C11-unserialisable-member-result")
                # listed known finding: a batch member that raises StopIteration: the results come out of a generator, and a StopIteration raised inside a generator
                # is turned into RuntimeError by the interpreter (PEP 479) - one by one the caller gets the StopIteration itself
                RUNS[0] += 1

                @api.expose
                class Stopper(Acc):
                    def stop(self):
                        raise StopIteration("done")
                s1, s2 = Stopper(), Stopper()
                us1, us2 = r.daemon.register(s1), r.daemon.register(s2)
                try:
                    seq_exc = bat_exc = None
                    with client.Proxy(us1) as p:
                        try:
                            p.stop()
                        except BaseException as x:      # noqa
                            seq_exc = type(x).__name__
                    with client.Proxy(us2) as p:
                        b = client.BatchProxy(p)
                        b.stop()
                        try:
                            list(b())
                        except BaseException as x:      # noqa
                            bat_exc = type(x).__name__
                    if seq_exc == "StopIteration" and bat_exc == "RuntimeError" and "C11-batch-member-stopiteration-becomes-runtimeerror" not in KNOWN:
                        KNOWN.append("C11-batch-member-stopiteration-becomes-runtimeerror")
                    elif seq_exc != bat_exc and not (seq_exc == "StopIteration" and bat_exc == "RuntimeError"):
                        fail(group="C11", violated="a member raising StopIteration: one by one the caller gets %s, from the batch %s" % (seq_exc, bat_exc))
                finally:
                    r.daemon.unregister(s1)
                    r.daemon.unregister(s2)
                # the results of a batch are serialised together after the last call: a result that is a live mutable object of the server shows the state
                # AFTER the later calls of the batch, whereas one by one it is serialised at once
                RUNS[0] += 1

                @api.expose
                class Live(Acc):
                    def live(self):
                        return self.log
                l1, l2 = Live(), Live()
                ul1, ul2 = r.daemon.register(l1), r.daemon.register(l2)
                try:
                    with client.Proxy(ul1) as p:
                        seq_first = p.live()
                        p.add(9)
                    with client.Proxy(ul2) as p:
                        b = client.BatchProxy(p)
                        b.live()
                        b.add(9)
                        batch_first = list(b())[0]
                    if seq_first == [] and batch_first == [9] and "C11-batch-results-serialised-after-the-last-call" not in KNOWN:
                        KNOWN.append("C11-batch-results-serialised-after-the-last-call")
                finally:
                    r.daemon.unregister(l1)
                    r.daemon.unregister(l2)
            finally:
                for o in (o1, o2, o3):
                    r.daemon.unregister(o)
            # a batch proxy whose submit FAILED (private / unknown member: the whole request is refused after its prefix ran) must not repeat that
            # prefix on its next submit
            for badname in ("_priv", "nosuch"):
                RUNS[0] += 1
                objs = [Acc(), Acc()]
                uris = [r.daemon.register(o) for o in objs]
                try:
                    with client.Proxy(uris[0]) as p:
                        p.add(1)
                        try:
                            getattr(p, badname)()
                        except Exception:      # noqa
                            pass
                        p.add(3)
                        p.add(4)
                    with client.Proxy(uris[1]) as p:
                        b = client.BatchProxy(p)
                        b.add(1)
                        getattr(b, badname)()
                        b.add(2)
                        try:
                            list(b())
                        except Exception:      # noqa
                            pass
                        b.add(3)
                        b.add(4)
                        try:
                            second = list(b())
                        except Exception as x:      # noqa
                            second = repr(x)
                    if objs[1].state() != objs[0].state():
                        fail(group="C11", history="batch [add(1), %s(), add(2)] fails at submit; same batch proxy then submits [add(3), add(4)]" % badname,
                             violated="second submit gave %r and left state %r; one-by-one gives state %r" % (second, objs[1].state(), objs[0].state()))
                finally:
                    for o in objs:
                        r.daemon.unregister(o)
            # the same batch proxy used for several submits (normal and oneway, in every order): each submit runs exactly the calls queued
            # since the previous one
            for first_oneway, second_oneway in ((False, False), (True, False), (False, True), (True, True)):
                RUNS[0] += 1
                objs = [Acc(), Acc()]
                uris = [r.daemon.register(o) for o in objs]
                try:
                    with client.Proxy(uris[0]) as p:
                        for n in (1, 2, 10):
                            p.add(n)
                    with client.Proxy(uris[1]) as p:
                        b = client.BatchProxy(p)
                        b.add(1)
                        b.add(2)
                        res1 = b(oneway=first_oneway)
                        got1 = list(res1) if res1 is not None else None
                        if first_oneway:
                            time.sleep(0.15)
                        b.add(10)
                        res2 = b(oneway=second_oneway)
                        got2 = list(res2) if res2 is not None else None
                        if second_oneway:
                            time.sleep(0.15)
                    if objs[0].state() != objs[1].state() or (got2 is not None and got2 != [13]) or (got1 is not None and got1 != [1, 3]):
                        fail(group="C11", history="re-used batch proxy: submit(oneway=%s) then submit(oneway=%s)" % (first_oneway, second_oneway),
                             violated="second submit returned %r and left state %r; one-by-one gives [13] and %r" % (got2, objs[1].state(), objs[0].state()))
                finally:
                    for o in objs:
                        r.daemon.unregister(o)


# ---------------------------------------------------------------------------------------------------------------------
# C16

def g_registry(mode):
    @api.expose
    class Box(object):
        def __init__(self, name, items=()):
            self.name, self.items = name, list(items)

        def who(self):
            return self.name

        def give(self, other_name):
            return REG[other_name]

        def put(self, x):
            self.items.append(x)
            return len(self.items)

    @api.expose
    class Bag(Box):
        def __len__(self):
            return len(self.items)

    REG = {}
    with Running("thread") as r:
        d = r.daemon
        a, b, empty = Box("a"), Box("b"), Bag("empty")
        REG.update(a=a, b=b, empty=empty)
        ua = d.register(a, "ida")
        RUNS[0] += 1
        with client.Proxy(ua) as p:
            if p.who() != "a":
                fail(group="C16", violated="id reaches the wrong object")
        # falsy (empty container) object stays reachable while registered, strongly and weakly
        for weak in (False, True):
            RUNS[0] += 1
            ue = d.register(empty, "idempty", weak=weak)
            try:
                with client.Proxy(ue) as p:
                    if p.who() != "empty":
                        fail(group="C16", violated="falsy registered object not reached")
                    b_ = client.BatchProxy(p)
                    b_.who()
                    if list(b_()) != ["empty"]:
                        fail(group="C16", violated="falsy registered object not reached by batch")
            except errors.DaemonError as x:
                fail(group="C16", weak=weak, violated="registered (falsy) object reported as unknown: %s" % x)
            d.unregister(empty)
        # second registration refused; daemon object protected
        RUNS[0] += 1
        for what, fn in (("same id", lambda: d.register(b, "ida")), ("same object", lambda: d.register(a, "other"))):
            try:
                fn()
                fail(group="C16", violated="second registration (%s) accepted without force" % what)
            except errors.DaemonError:
                pass
        d.unregister(core.DAEMON_NAME)
        if core.DAEMON_NAME not in d.objectsById:
            fail(group="C16", violated="daemon object could be unregistered")
        # ... nor replaced, forced or not
        own = d.objectsById[core.DAEMON_NAME]
        for force in (False, True):
            RUNS[0] += 1
            intruder = Box("intruder")
            try:
                d.register(intruder, core.DAEMON_NAME, force=force)
            except errors.DaemonError:
                pass
            if d.objectsById.get(core.DAEMON_NAME) is not own:
                d.objectsById[core.DAEMON_NAME] = own
                fail(group="C16", history="register(obj, %r, force=%s)" % (core.DAEMON_NAME, force), violated="the daemon's own object was replaced by a registration")
        # an id the uri syntax would read differently (the object part of a uri ends at the first '@'): accepted only if the uri handed back designates it
        for weird in ("ida@elsewhere", "x@y@z", "plain:colon"):
            RUNS[0] += 1
            wobj = Box(weird)
            try:
                wuri = d.register(wobj, weird)
            except errors.DaemonError:
                continue
            try:
                if wuri.object != weird:
                    fail(group="C16", history="register(obj, %r)" % weird, violated="registration accepted, but the uri handed back designates the id %r (a call through it, or through "
                         "the proxy the object is replaced by, reaches whatever is registered under THAT id)" % wuri.object)
                with client.Proxy(wuri) as p:
                    if p.who() != weird:
                        fail(group="C16", history="register(obj, %r)" % weird, violated="a call through the uri handed back reached %r" % p.who())
            finally:
                d.unregister(weird)
        with client.Proxy(d.uriFor(core.DAEMON_NAME)) as p:
            reg = sorted(p.registered())
            if reg != sorted(d.objectsById):
                fail(group="C16", violated="registered() %r != registry %r" % (reg, sorted(d.objectsById)))
        # listed known finding: a registered object whose class derives from list / dict is encoded natively by json and msgpack (their `default` hook, where the
        # auto-proxy replacement lives, is only asked about objects the encoder cannot handle itself), so it travels by value there; serpent proxies it
        RUNS[0] += 1
        ListLike = api.expose(type("ListLike", (list,), {"who": lambda self: "listlike"}))
        ll = ListLike()
        REG["listlike"] = ll
        d.register(ll, "idlistlike")
        try:
            kinds = {}
            for sername in ("serpent", "json", "msgpack"):
                with client.Proxy(ua) as p:
                    p._pyroSerializer = sername
                    try:
                        kinds[sername] = type(p.give("listlike")).__name__
                    except Exception as x:      # noqa
                        kinds[sername] = type(x).__name__
            if kinds.get("serpent") != "Proxy":
                fail(group="C16", violated="a registered list subclass did not arrive as a proxy under serpent: %r" % kinds)
            if (kinds.get("json") != "Proxy" or kinds.get("msgpack") != "Proxy") and "C16-container-subclass-by-value-under-json-msgpack" not in KNOWN:
                KNOWN.append("C16-container-subclass-by-value-under-json-msgpack")
        finally:
            d.unregister("idlistlike")
        # an object of a class the serializers have never seen is returned BEFORE it is registered (travels by value), then registered: now it must arrive as a proxy
        # (subclass of an already registered class, and a class of its own)
        for sername in ("serpent", "json", "msgpack"):
            for base in (Box, object):
                RUNS[0] += 1
                Fresh = api.expose(type("Fresh", (base,), {"who": lambda self: "fresh", "__init__": lambda self: None}))
                f = Fresh()
                REG["fresh"] = f
                with client.Proxy(ua) as p:
                    p._pyroSerializer = sername
                    try:
                        first = p.give("fresh")
                    except Exception:    # noqa  (an ordinary object of an unknown class: the client may refuse to rebuild it)
                        first = None
                    if isinstance(first, client.Proxy):
                        fail(group="C16", serializer=sername, violated="an object that was never registered arrived as a proxy")
                    d.register(f, "idfresh")
                    try:
                        got = p.give("fresh")
                        if not isinstance(got, client.Proxy) or got.who() != "fresh":
                            fail(group="C16", serializer=sername, history="returned by value, then registered, then returned again (class derived from %s)" % base.__name__,
                                 violated="registered object did not arrive as a proxy to itself (arrived as %s)" % type(got).__name__)
                        got._pyroRelease()
                    except errors.PyroError as e:
                        fail(group="C16", serializer=sername, history="returned by value, then registered, then returned again (class derived from %s)" % base.__name__,
                             violated="registered object did not arrive as a proxy: %r" % (e,))
                    finally:
                        d.unregister("idfresh")
        # returned registered object arrives as proxy reaching that very object; after unregistration it travels by value
        for sername in ("serpent", "json", "msgpack"):
            for how in ("by-object", "by-id", "by-id-then-id-reused"):
                RUNS[0] += 1
                x, y = Box("x"), Box("y")
                REG.update(x=x, y=y)
                d.register(x, "idx")
                with client.Proxy(ua) as p:
                    p._pyroSerializer = sername
                    got = p.give("x")
                    if not isinstance(got, client.Proxy) or got.who() != "x":
                        fail(group="C16", serializer=sername, violated="registered object did not arrive as a proxy to itself")
                    if isinstance(got, client.Proxy):
                        got._pyroRelease()
                    if how == "by-object":
                        d.unregister(x)
                    else:
                        d.unregister("idx")
                    if how == "by-id-then-id-reused":
                        d.register(y, "idx")
                    try:
                        got2 = p.give("x")
                    except errors.DaemonError as e:
                        fail(group="C16", serializer=sername, how=how, violated="returning an unregistered object failed in the daemon: %r" % (e,))
                        got2 = None
                    except Exception:    # noqa  (an ordinary object of an unknown class: the client may refuse to rebuild it)
                        got2 = None
                    if isinstance(got2, client.Proxy):
                        who = None
                        try:
                            who = got2.who()
                        except Exception:    # noqa
                            pass
                        fail(group="C16", serializer=sername, how=how, violated="unregistered object arrived as a proxy (calls reach %r)" % who)
                    try:
                        with client.Proxy("PYRO:idx@%s:%d" % r.addr) as q:
                            w = q.who()
                            if how != "by-id-then-id-reused" or w != "y":
                                fail(group="C16", how=how, violated="call to an unregistered id reached %r" % w)
                    except errors.DaemonError:
                        if how == "by-id-then-id-reused":
                            fail(group="C16", how=how, violated="re-registered id unknown")
                    except Exception:    # noqa
                        pass
                    if how == "by-id-then-id-reused":
                        d.unregister(y)
        # an id that cannot be written into a uri is refused before anything is registered: ids the daemon reports are exactly the registered ones
        RUNS[0] += 1
        odd = Box("odd")
        try:
            d.register(odd, "my obj")
            fail(group="C16", violated="an id containing whitespace was accepted")
        except Exception:      # noqa
            pass
        if "my obj" in d.objectsById or hasattr(odd, "_pyroId"):
            fail(group="C16", history="register(obj, 'my obj') raises", violated="the refused registration left its traces: id listed=%s, object marked=%s" % (
                "my obj" in d.objectsById, hasattr(odd, "_pyroId")))
            d.objectsById.pop("my obj", None)
        # a stale or inherited id attribute must never act on what the id designates NOW (unregister / uriFor / proxyFor by object)
        for how in ("id-taken-over-by-force", "unregistered-by-id-then-id-reused", "instance-of-registered-class"):
            RUNS[0] += 1
            a_, b_ = Box("A"), Box("B")
            if how == "id-taken-over-by-force":
                d.register(a_, "idz")
                d.register(b_, "idz", force=True)
            elif how == "unregistered-by-id-then-id-reused":
                d.register(a_, "idz")
                d.unregister("idz")
                d.register(b_, "idz")
            else:
                d.register(Box, "idz")
                a_ = Box("plain instance, never registered")
                b_ = None
            try:
                d.unregister(a_)
            except errors.DaemonError:
                pass
            except Exception as x:    # noqa
                fail(group="C16", how=how, violated="unregister(object whose id attribute is stale / inherited) raised %r" % (x,))
            if "idz" not in d.objectsById:
                fail(group="C16", how=how, violated="unregister(obj) removed the registration of ANOTHER object (the one its stale / inherited id attribute names now)")
            elif b_ is not None:
                try:
                    u = d.uriFor(a_)
                    fail(group="C16", how=how, violated="uriFor(obj) handed out %s for an object that is not registered (the id designates another object)" % u)
                except errors.DaemonError:
                    pass
            if "idz" in d.objectsById:
                d.unregister("idz")
        # garbage collection of a weakly registered object: its id becomes unknown - but an object registered under that id LATER stays reachable
        import gc
        for how in ("collected-while-registered", "unregistered-by-object-then-id-reused", "unregistered-by-id-then-id-reused", "id-taken-over-by-force"):
            RUNS[0] += 1
            w, later = Box("weak"), Box("later")
            d.register(w, "idw", weak=True)
            # (a client has talked to the object before: whatever the daemon remembers about the id from that connection must not outlive the registration)
            try:
                with client.Proxy("PYRO:idw@%s:%d" % r.addr) as q0:
                    q0.who()
            except Exception:      # noqa
                pass
            if how == "unregistered-by-object-then-id-reused":
                d.unregister(w)
                d.register(later, "idw")
            elif how == "unregistered-by-id-then-id-reused":
                d.unregister("idw")
                d.register(later, "idw")
            elif how == "id-taken-over-by-force":
                d.register(later, "idw", force=True)
            del w
            gc.collect()
            if how == "collected-while-registered":
                # the handshake itself must refuse the id of the collected object (whatever the daemon remembered about it from the earlier connection)
                rawc = Raw(r.addr)
                mc = rawc.connect("idw")
                if mc is not None and mc.type == P.MSG_CONNECTOK:
                    fail(group="C16", how=how, violated="a CONNECT naming the id of a garbage-collected weakly registered object was answered CONNECTOK (nothing is registered under it)")
                rawc.close()
            try:
                with client.Proxy("PYRO:idw@%s:%d" % r.addr) as q:
                    who = q.who()
                if how == "collected-while-registered":
                    fail(group="C16", how=how, violated="id of a collected weakly registered object still reaches %r" % who)
                elif who != "later":
                    fail(group="C16", how=how, violated="id reaches %r instead of the object registered under it" % who)
            except (errors.DaemonError, errors.CommunicationError):      # unknown object: refused at the handshake
                if how != "collected-while-registered":
                    fail(group="C16", how=how, violated="collecting the object that USED to own the id unregistered the object registered under it now")
            if "idw" in d.objectsById:
                d.unregister("idw")
        # listed known findings: (1) sending a registered object BY VALUE (marshal has no auto-proxying; any serializer for an instance of a class that is
        # momentarily unregistered) goes through class_to_dict, which sets obj._pyroDaemon = None on the object itself: still registered, it is no longer
        # auto-proxied afterwards; (2) an object registered under two ids (force) and unregistered by object loses only its newest id: it stays reachable
        # under the older one but travels by value and is reported as not registered
        def kind_of(uri_, key, ser):
            with client.Proxy(uri_) as q:
                q._pyroSerializer = ser
                v = q.give(key)
                return "proxy" if isinstance(v, client.Proxy) else "value"
        serializers.SerializerBase.register_dict_to_class(Box.__module__ + "." + Box.__qualname__.split(".")[-1], lambda c, dd: dd)
        try:
            RUNS[0] += 1
            shelf = Box("shelf")
            us = d.register(shelf, "shelf9")
            t1 = Box("t1")
            REG["t1"] = t1
            d.register(t1, "t1id")
            before = kind_of(us, "t1", "serpent")
            try:
                kind_of(us, "t1", "marshal")
            except Exception:      # noqa
                pass
            after = kind_of(us, "t1", "serpent")
            if before == "proxy" and after == "value" and d.objectsById.get("t1id") is t1 and "C16-by-value-trip-switches-auto-proxy-off" not in KNOWN:
                KNOWN.append("C16-by-value-trip-switches-auto-proxy-off")
            RUNS[0] += 1
            t3 = Box("t3")
            REG["t3"] = t3
            d.register(t3, "t3old")
            d.register(t3, "t3new", force=True)
            d.unregister("t3old")                   # by id: the object is still registered under its newer id and must keep arriving as a proxy
            if d.objectsById.get("t3new") is t3 and kind_of(us, "t3", "serpent") != "proxy":
                fail(group="C16", how="registered-under-two-ids-then-older-id-unregistered-by-id", violated="an object that is still registered (under its newer id) arrived by value")
            d.unregister("t3new")
            RUNS[0] += 1
            t2 = Box("t2")
            REG["t2"] = t2
            d.register(t2, "t2a")
            d.register(t2, "t2b", force=True)
            d.unregister(t2)
            if d.objectsById.get("t2a") is t2 and kind_of(us, "t2", "serpent") == "value" and "C16-object-under-two-ids" not in KNOWN:
                KNOWN.append("C16-object-under-two-ids")
        except Exception:      # noqa
            pass
        finally:
            serializers.SerializerBase.unregister_dict_to_class(Box.__module__ + "." + Box.__qualname__.split(".")[-1])
            for i in ("shelf9", "t1id", "t2a", "t2b"):
                if i in d.objectsById:
                    d.unregister(i)


# ---------------------------------------------------------------------------------------------------------------------
# C02

def g_gate(mode):
    marshal = serializers.serializers["marshal"]

    class Base(object):
        @api.expose
        def base_exposed(self):
            LOG.append("base_exposed")
            return 1

        def base_hidden(self):
            LOG.append("base_hidden")
            return 1

    class Helper(object):
        @api.expose
        def helper_method(self):
            LOG.append("helper_method")

    class Shape(Base):
        def __init__(self):
            self.helper = Helper()
            self.attr = 5

        @api.expose
        def m(self):
            LOG.append("m")
            return 1

        def hidden(self):
            LOG.append("hidden")

        @api.expose
        @api.oneway
        def ow(self):
            LOG.append("ow")

        @staticmethod
        @api.expose
        def sm():
            LOG.append("sm")
            return 1

        @classmethod
        @api.expose
        def cm(cls):
            LOG.append("cm")
            return 1

        @api.expose
        @property
        def p(self):
            LOG.append("p-get")
            return 1

        @p.setter
        def p(self, v):
            LOG.append("p-set")

        @property
        def q(self):
            LOG.append("q-get")
            return 1

        @q.setter
        def q(self, v):
            LOG.append("q-set")

        @api.expose
        @property
        def ro(self):
            LOG.append("ro-get")
            return 1

        _alias = p
        _m_alias = m

        def _private(self):
            LOG.append("_private")

        @api.expose
        def __len__(self):
            LOG.append("__len__")
            return 3

    names = ["m", "hidden", "ow", "sm", "cm", "p", "q", "ro", "_alias", "_m_alias", "_private", "__len__", "__init__", "__class__", "__dict__", "__getattribute__",
             "base_exposed", "base_hidden", "helper", "helper.helper_method", "attr", "nosuch", "", "m ", "M", "ｍ", "＿_class__", "__reduce__", "__setattr__", "__call__", 5, None, ["m"]]
    kinds = ["call", "oneway", "batch", "getattr", "setattr"]
    # raw attribute requests with surplus arguments (a peer is free to send any argument list): they must not switch the gate off
    kinds += [("getattr", x) for x in (False, 0, None, "", True, [])] + [("setattr", x) for x in (False, 0, None, "", True)]
    with Running("thread") as r:
        obj = Shape()
        r.daemon.register(obj, "shape")
        raw = Raw(r.addr)
        hs = raw.connect("shape")
        meta = raw.value(hs)["meta"]
        advertised_methods, advertised_attrs = set(meta["methods"]), set(meta["attrs"])
        expected_log = {"m": "m", "ow": "ow", "sm": "sm", "cm": "cm", "base_exposed": "base_exposed", "__len__": "__len__"}
        for name in names:
            for kind in kinds:
                RUNS[0] += 1
                del LOG[:]
                seq = RUNS[0] % 60000
                try:
                    if kind == "call":
                        raw.invoke("shape", name, (), seq=seq)
                    elif kind == "oneway":
                        raw.invoke("shape", name, (), flags=P.FLAGS_ONEWAY, seq=seq)
                    elif kind == "batch":
                        raw.invoke("shape", "<batch>", [(name, (), {})], flags=P.FLAGS_BATCH, seq=seq)
                    elif kind == "getattr":
                        raw.invoke("shape", "__getattr__", (name,), seq=seq)
                    elif isinstance(kind, tuple) and kind[0] == "getattr":
                        raw.invoke("shape", "__getattr__", (name, kind[1]), seq=seq)
                    elif isinstance(kind, tuple):
                        raw.invoke("shape", "__setattr__", (name, 1, kind[1]), seq=seq)
                    else:
                        raw.invoke("shape", "__setattr__", (name, 1), seq=seq)
                except (ValueError, TypeError):
                    continue
                if kind == "oneway":
                    raw.invoke("shape", "m", (), seq=seq + 1)
                    m = raw.reply()
                    time.sleep(0.05)
                    ran = [e for e in LOG if e != "m"] if name != "m" else LOG[:-1]
                    served = bool(ran)
                    if m is None or m.seq != seq + 1:
                        fail(group="C02", name=repr(name), kind=kind, violated="oneway request produced a reply")
                        raw = Raw(r.addr)
                        raw.connect("shape")
                else:
                    m = raw.reply()
                    if m is None:
                        fail(group="C02", name=repr(name), kind=kind, violated="no reply / connection dropped for a refused request")
                        raw = Raw(r.addr)
                        raw.connect("shape")
                        continue
                    ran = list(LOG)
                    is_exc = bool(m.flags & P.FLAGS_EXCEPTION)
                    if kind == "batch" and not is_exc:
                        v = raw.value(m)
                        is_exc = bool(v) and isinstance(v[0], core._ExceptionWrapper)
                    served = not is_exc
                desc = {"group": "C02", "name": repr(name), "kind": kind if isinstance(kind, str) else "%s with surplus argument %r" % kind}
                surplus = isinstance(kind, tuple)
                if surplus:
                    kind = kind[0]
                if kind in ("call", "oneway", "batch"):
                    allowed = isinstance(name, str) and name in advertised_methods
                    if ran and not allowed:
                        fail(violated="code of the object ran for a name that is not an exposed non-private method: %r" % (ran,), **desc)
                    if allowed and not ran:
                        fail(violated="advertised method was not served", **desc)
                    if allowed and expected_log.get(name) and ran and ran[0] != expected_log[name]:
                        fail(violated="another member ran: %r" % (ran,), **desc)
                else:
                    allowed = isinstance(name, str) and name in advertised_attrs
                    if kind == "setattr" and name == "ro":
                        allowed = False
                    if ran and not allowed:
                        fail(violated="property code ran for a name that is not an exposed non-private property: %r" % (ran,), **desc)
                    if allowed and not ran and not surplus:
                        fail(violated="advertised attribute was not served", **desc)
        # after the member list of the class was computed (the handshake above did that): an instance attribute that SHADOWS an exposed method with something
        # unexposed, and an exposed method replaced on the class by an unexposed function - the name must be refused from now on (the gate looks at what the name
        # denotes NOW, not at a remembered list)
        RUNS[0] += 1
        del LOG[:]

        def shadow(*a, **k):
            LOG.append("shadow-ran")
            return "shadow"
        obj.m = shadow
        raw.invoke("shape", "m", (), seq=777)
        msh = raw.reply()
        if "shadow-ran" in LOG or (msh is not None and not (msh.flags & P.FLAGS_EXCEPTION)):
            fail(group="C02", name="'m'", kind="call", violated="an instance attribute shadowing an exposed method was served although it is not exposed (the gate used a remembered member list): %r" % (list(LOG),))
        del obj.m
        raw.close()
        if advertised_methods != {"m", "ow", "sm", "cm", "base_exposed", "__len__"} or advertised_attrs != {"p", "ro"}:
            fail(group="C02", violated="advertised members %r / %r" % (sorted(advertised_methods), sorted(advertised_attrs)))
        # class-level @expose: exactly the members the class itself defines become reachable - not those it merely inherits from an
        # unexposed base (neither on the subclass nor, through the shared function objects, on a plain instance of the base)
        class PlainBase(object):
            def inherited_hidden(self):
                LOG.append("inherited_hidden")
                return 1

            @property
            def inherited_prop(self):
                LOG.append("inherited_prop")
                return 1

        @api.expose
        class Whole(PlainBase):
            def own(self):
                LOG.append("own")
                return 1

            @property
            def own_prop(self):
                LOG.append("own_prop")
                return 1

            def _own_private(self):
                LOG.append("_own_private")

        r.daemon.register(Whole(), "whole")
        r.daemon.register(PlainBase(), "plainbase")
        for oid, allowed_m, allowed_a in (("whole", {"own"}, {"own_prop"}), ("plainbase", set(), set())):
            raw = Raw(r.addr)
            hs = raw.connect(oid)
            if bool(hs.flags & P.FLAGS_EXCEPTION) if hasattr(hs, "flags") and hs.type != P.MSG_CONNECTOK else False:
                continue
            meta = raw.value(hs)["meta"]
            if set(meta["methods"]) != allowed_m or set(meta["attrs"]) != allowed_a:
                fail(group="C02", object=oid, violated="class-level @expose advertises %r / %r, the class itself defines %r / %r" % (
                    sorted(meta["methods"]), sorted(meta["attrs"]), sorted(allowed_m), sorted(allowed_a)))
            for name in ("own", "inherited_hidden", "own_prop", "inherited_prop", "_own_private"):
                for kind in ("call", "batch", "getattr", "setattr"):
                    RUNS[0] += 1
                    del LOG[:]
                    seq = RUNS[0] % 60000
                    if kind == "call":
                        raw.invoke(oid, name, (), seq=seq)
                    elif kind == "batch":
                        raw.invoke(oid, "<batch>", [(name, (), {})], flags=P.FLAGS_BATCH, seq=seq)
                    elif kind == "getattr":
                        raw.invoke(oid, "__getattr__", (name,), seq=seq)
                    else:
                        raw.invoke(oid, "__setattr__", (name, 1), seq=seq)
                    m = raw.reply()
                    if m is None:
                        fail(group="C02", object=oid, name=name, kind=kind, violated="no reply / connection dropped for a refused request")
                        raw = Raw(r.addr)
                        raw.connect(oid)
                        continue
                    ok = name in (allowed_m if kind in ("call", "batch") else allowed_a)
                    if LOG and not ok:
                        fail(group="C02", object=oid, name=name, kind=kind, violated="code of an inherited / unexposed member ran: %r" % (list(LOG),))
            raw.close()
        # listed known finding: an unexposed NON-data descriptor (functools.cached_property, hand-written __get__-only descriptors) named by a
        # method call: refused, but its getter has run (and cached_property has written the instance) before the refusal
        import functools

        class Lazy(object):
            @api.expose
            def ping(self):
                return "pong"

            @functools.cached_property
            def secret_token(self):
                LOG.append("secret_token-getter")
                return 12345

        lazy = Lazy()
        r.daemon.register(lazy, "lazy")
        raw = Raw(r.addr)
        raw.connect("lazy")
        RUNS[0] += 1
        del LOG[:]
        raw.invoke("lazy", "secret_token", (), seq=7)
        m = raw.reply()
        if LOG or "secret_token" in vars(lazy):
            if m is not None and m.flags & P.FLAGS_EXCEPTION:
                if "C02-nondata-descriptor-getter-runs" not in KNOWN:
                    KNOWN.append("C02-nondata-descriptor-getter-runs")
            else:
                fail(group="C02", name="secret_token", kind="call", violated="an unexposed cached_property was SERVED by a method call")
        raw.close()
        # listed known finding: the exposure mark lives on the function OBJECT, so an @expose'd class that merely re-uses a base class function under another name
        # (alias = Base.secret) marks the shared function - and every other subclass of Base, which never exposed it, now serves and advertises `secret`
        class SharedBase(object):
            def secret(self):
                LOG.append("SharedBase.secret")
                return "secret"

        @api.expose
        class AliasUser(SharedBase):
            alias = SharedBase.secret

            def ping(self):
                return "pong"

        class Bystander(SharedBase):
            @api.expose
            def ping(self):
                return "pong"

        bys = Bystander()
        r.daemon.register(bys, "bystander")
        raw = Raw(r.addr)
        raw.connect("bystander")
        RUNS[0] += 1
        del LOG[:]
        raw.invoke("bystander", "secret", (), seq=8)
        m = raw.reply()
        if LOG == ["SharedBase.secret"] and m is not None and not (m.flags & P.FLAGS_EXCEPTION):
            if "C02-alias-in-exposed-class-marks-shared-function" not in KNOWN:
                KNOWN.append("C02-alias-in-exposed-class-marks-shared-function")
        raw.close()
        # listed known finding: a class-level __getattr__ hook of the target object runs for every unknown public name a method call names, before the refusal
        class Fallback(object):
            @api.expose
            def ping(self):
                return "pong"

            def __getattr__(self, name):
                LOG.append("__getattr__ " + name)
                raise AttributeError(name)

        fb = Fallback()
        r.daemon.register(fb, "fallback")
        raw = Raw(r.addr)
        raw.connect("fallback")
        RUNS[0] += 1
        del LOG[:]
        raw.invoke("fallback", "nosuch", (), seq=9)
        m = raw.reply()
        if any(e.startswith("__getattr__ nosuch") for e in LOG):
            if m is not None and m.flags & P.FLAGS_EXCEPTION:
                if "C02-getattr-hook-runs-for-unknown-names" not in KNOWN:
                    KNOWN.append("C02-getattr-hook-runs-for-unknown-names")
            else:
                fail(group="C02", name="nosuch", kind="call", violated="a name resolved only by the object's __getattr__ hook was SERVED")
        raw.close()
        # exposure follows the class as it is now: a property that is withdrawn (replaced by an unexposed one, or deleted) and
        # whose metadata cache was reset must be refused afterwards, for reads and writes
        class Vault(object):
            def __init__(self):
                self._pin = "4321"

            @api.expose
            @property
            def pin(self):
                LOG.append("pin-get")
                return self._pin

            @pin.setter
            def pin(self, v):
                LOG.append("pin-set")
                self._pin = v

            @api.expose
            def other(self):
                return 1
        vault = Vault()
        r.daemon.register(vault, "vault")
        raw = Raw(r.addr)
        raw.connect("vault")
        raw.invoke("vault", "__getattr__", ("pin",), seq=1)
        m = raw.reply()
        RUNS[0] += 1
        if m is None or m.flags & P.FLAGS_EXCEPTION:
            fail(group="C02", violated="exposed property not served")

        def hidden_get(self):
            LOG.append("pin-get-hidden")
            return self._pin

        def hidden_set(self, v):
            LOG.append("pin-set-hidden")
            self._pin = v
        old_prop = Vault.pin
        for how in ("replaced-by-unexposed-property", "deleted"):
            if how == "deleted":
                del Vault.pin
            else:
                Vault.pin = property(hidden_get, hidden_set)
            r.daemon.resetMetadataCache(vault)
            for kind, args in (("__getattr__", ("pin",)), ("__setattr__", ("pin", "0000"))):
                RUNS[0] += 1
                del LOG[:]
                raw.invoke("vault", kind, args, seq=7)
                m = raw.reply()
                if LOG or m is None or not (m.flags & P.FLAGS_EXCEPTION):
                    fail(group="C02", scenario="property %s, metadata cache reset" % how, kind=kind,
                         violated="withdrawn property still served: ran %r, reply %s" % (LOG, "error" if m is not None and m.flags & P.FLAGS_EXCEPTION else "value"))
            Vault.pin = old_prop
        raw.close()
        # known finding: attribute holding a callable instance of an exposed class
        @api.expose
        class Callable(object):
            def __call__(self):
                LOG.append("callable-instance")
                return 1

        class Holder(object):
            def __init__(self):
                self.a = Callable()

            @api.expose
            def x(self):
                return 1
        r.daemon.register(Holder(), "holder")
        raw = Raw(r.addr)
        hs = raw.connect("holder")
        del LOG[:]
        raw.invoke("holder", "a", (), seq=3)
        m = raw.reply()
        if LOG and "a" not in raw.value(hs)["meta"]["methods"]:
            KNOWN.append("C02-attribute-holding-exposed-callable")
        raw.close()


GROUPS = {"C08": [g_handshake], "C05": [g_containment], "C13": [g_cleanup], "C12": [g_context], "C03": [g_replies], "C07": [g_replies],
          "C11": [g_batch], "C16": [g_registry], "C02": [g_gate]}


def main(mode):
    prop = os.environ.get("VERIF_PROP", "")
    groups = GROUPS.get(prop) or sorted({g for gs in GROUPS.values() for g in gs}, key=lambda f: f.__name__)
    t0 = time.time()
    config.COMMTIMEOUT = 0.0
    for g in groups:
        if FAIL:
            break
        try:
            g(mode)
        except Exception as x:      # noqa
            import traceback
            fail(group=g.__name__, violated="harness scenario crashed: %r" % (x,), traceback=traceback.format_exc()[-1500:])
    rep = {"runs": RUNS[0], "failing_input": FAIL[0] if FAIL else None, "known_findings_reproduced": KNOWN, "wall_s": round(time.time() - t0, 2),
           "bounded": [{"what": "real in-process Daemon (thread pool + multiplex) driven over raw sockets with the real wire protocol and through real proxies; "
                                "scenario groups: %s" % ", ".join(g.__name__ for g in groups),
                        "bound": "fixed scenario tables (see replay/dispatch.py): message kinds x validator behaviours, hostile byte strings x phases, "
                                 "connection endings x tracked resources, class shapes x requested names x request kinds, call sequences x serializers",
                        "runs": RUNS[0], "failures": 1 if FAIL else 0}]}
    print(json.dumps(rep, default=str))
    return 0


if __name__ == "__main__":
    sys.exit(main(sys.argv[1] if len(sys.argv) > 1 else "quick"))
