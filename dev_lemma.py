"""dev helper: python3-vt dev_lemma.py <modules,comma> <lemma-name> [-m]  -- generate and discharge one lemma, print what is not discharged"""
import sys, time, importlib
sys.path.insert(0, "/verif")
from pyvc.registry import R
from pyvc import stdlib
from pyvc.engine import Engine
from pyvc.solve import discharge
for m in sys.argv[1].split(","):
    importlib.import_module(m)
E = Engine(R)
E.prop = "dev"
name = sys.argv[2]
E.cur = type("L", (), {"name": "lemma:" + name})()
t0 = time.time()
R.lemmas[name](E)
print("generated", len(E.obligations), "in %.1fs" % (time.time() - t0))
t0 = time.time()
discharge(E.obligations)
print("solve time %.1fs" % (time.time() - t0))
bad = 0
for ob in E.obligations:
    exp = "sat" if ob.kind in ("canary", "vacuity") else "unsat"
    flag = "  " if ob.result == exp else "!!"
    if ob.result != exp:
        bad += 1
    print(flag, ob.result, ob.backend, "%.2fs" % ob.time, ob.name)
    if ob.result != exp and ob.model and "-m" in sys.argv:
        for k, v in sorted(ob.model.items()):
            if "!" not in k or "-mm" in sys.argv:
                print("      ", k, "=", v[:200])
print("obligations", len(E.obligations), "unexpected", bad)
