"""Sidecar contracts for the exposure gate (C02): is_private_attribute, _get_attribute, _get/_set_exposed_property_value,
against an uninterpreted object model of CPython attribute lookup."""
import z3
from pyvc.values import *
from pyvc.engine import Contract, Res, Unsupported
from pyvc.registry import R
from specs.opaque import may_raise, box, user_call, u_attr
import contracts.server_dispatch as D

# object model -----------------------------------------------------------------------------------------------------
cls_attr = z3.Function("class_attribute", Cls, StrS, U)      # getattr(type(obj), name, None): the raw class attribute (no getter is run)
inst_attr = z3.Function("instance_getattr", U, StrS, U)      # getattr(obj, name) when it does not raise
has_attr = z3.Function("instance_hasattr", U, StrS, BoolS)
is_datadesc = z3.Function("is_data_descriptor", U, BoolS)    # inspect.isdatadescriptor
exposed = z3.Function("pyroExposed_flag", U, BoolS)          # truthiness of getattr(x, "_pyroExposed", False)

RESERVED_PINNED = ["__init__", "__init_subclass__", "__class__", "__module__", "__weakref__", "__call__", "__new__", "__del__", "__repr__",
                   "__str__", "__format__", "__nonzero__", "__bool__", "__coerce__", "__cmp__", "__eq__", "__ne__", "__hash__", "__ge__", "__gt__", "__le__", "__lt__",
                   "__dir__", "__enter__", "__exit__", "__copy__", "__deepcopy__", "__sizeof__", "__getattr__", "__setattr__", "__hasattr__", "__getattribute__",
                   "__delattr__", "__instancecheck__", "__subclasscheck__", "__getinitargs__", "__getnewargs__", "__getstate__", "__setstate__", "__reduce__",
                   "__reduce_ex__", "__subclasshook__"]


def private_spec(n):
    """the property's notion of a private name: leading underscore (unless of dunder form), or one of the reserved dunder names"""
    us = z3.PrefixOf(z3.StringVal("_"), n)
    dunder = z3.And(z3.Length(n) > 4, z3.PrefixOf(z3.StringVal("__"), n), z3.SuffixOf(z3.StringVal("__"), n))
    return z3.Or(z3.And(us, z3.Not(dunder)), z3.Or([n == z3.StringVal(r) for r in RESERVED_PINNED]))


@R.spec("builtins.frozenset")
def b_frozenset(E, st, args, kw):
    v = args[0] if args else VList([])
    if isinstance(v, (VList, VTuple)):
        return [Res(st, VTuple(v.items))]
    prev = R.specs.get("builtins.set")
    if prev:
        return prev(E, st, args, kw)
    raise Unsupported("frozenset(%r)" % (v,))


@R.contract
class IsPrivate(Contract):
    name = "Pyro5.server.is_private_attribute"
    props = ("C02",)
    raises = {}
    no_join = True

    def setup(self, E, st):
        return {"attr_name": VStr(z3.Const("attr_name", StrS))}

    def result(self, E, st, a):
        return VBool(fresh("is_private", BoolS))

    def ensures(self, E, old, st, a, result):
        n = a["attr_name"].e if isinstance(a["attr_name"], VStr) else unbox_str(a["attr_name"].e)     # (a name taken from an opaque object: its text)
        if E.cur_contract is not self:
            # (call-site view: besides the two verified implications, the answer is a pure function of the name - the body reads nothing but its argument and a constant set)
            return [("private-spec", z3.Implies(private_spec(n), result.e)), ("only-underscore-names-are-private", z3.Implies(result.e, z3.PrefixOf(z3.StringVal("_"), n))),
                    ("a-function-of-the-name", result.e == z3.Function("is_private_attribute_of", StrS, BoolS)(n))]
        return [("every leading-underscore name that is not of dunder form, and every reserved dunder name, is private", z3.Implies(private_spec(n), result.e)),
                ("nothing without a leading underscore is private", z3.Implies(result.e, z3.PrefixOf(z3.StringVal("_"), n)))]


class _GateBase(Contract):
    props = ("C02",)
    raises = {"builtins.Exception": "x_refused"}
    raises_any_subclass = ("builtins.Exception",)
    log_calls = False
    trusted = ("object model: getattr(type(obj), n, None) never runs user code; getattr(obj, n) runs the getter iff the class attribute is a data descriptor "
               "(properties), otherwise yields the attribute or AttributeError; no __getattr__/__getattribute__/metaclass overrides on registered classes; "
               "inspect.isdatadescriptor and the _pyroExposed flag are uninterpreted predicates of the attribute object",)

    def base(self, E, st):
        self.obj = VOpaque(z3.Const("obj", U))
        st.assume(self.obj.e != U_NONE)
        st.ghost["user_calls"] = VInt(0)
        return self.obj

    def opaque_getattr(self, E, st, x, n, default):
        """attribute lookup on the target instance / on attribute objects, per the object model"""
        name = n.e if isinstance(n, VStr) else unbox_str(n.e)
        sn = z3.simplify(name)
        if z3.eq(x.e, self.obj.e):
            if z3.is_string_value(sn) and sn.as_string() == "__class__":
                return [Res(st, VClass(None, typeof(x.e)))]
            # instance lookup: a data descriptor on the class runs its getter (user code!)
            out = []
            desc = z3.And(cls_attr(typeof(x.e), name) != U_NONE, is_datadesc(cls_attr(typeof(x.e), name)))
            for s2, isdesc in E.branch(st, desc):
                if isdesc:
                    out.extend(user_call(E, s2, VOpaque(u_attr(cls_attr(typeof(x.e), name), z3.StringVal("fget"))), [x], {}, kind="getter_run_by_getattr"))
                else:
                    for s3, has in E.branch(s2, has_attr(x.e, name)):
                        if has:
                            out.append(Res(s3, VOpaque(inst_attr(x.e, name))))
                        elif default is not None:
                            out.append(Res(s3, default))
                        else:
                            out.append(E.raise_(s3, "builtins.AttributeError"))
            return out
        if z3.is_string_value(sn) and sn.as_string() == "_pyroExposed":
            # getattr(x, "_pyroExposed", dflt): the flag, or the default when the attribute object has none
            has_flag = z3.Function("has_pyroExposed", U, BoolS)(x.e)
            out = []
            for s2, has in E.branch(st, has_flag):
                if has:
                    out.append(Res(s2, VBool(exposed(x.e))))
                elif default is not None:
                    s2.assume(z3.Not(exposed(x.e)))
                    out.append(Res(s2, default))
                else:
                    out.append(E.raise_(s2, "builtins.AttributeError"))
            return out
        if z3.is_string_value(sn) and sn.as_string() in ("fget", "fset", "fdel"):
            return [Res(st, VOpaque(u_attr(x.e, name)))]
        return None

    def no_user_code(self, st):
        return [e for e in st.events if e[0] in ("user_call", "getter_run_by_getattr")]


_prev_getattr = R.specs.get("builtins.getattr")


@R.spec("builtins.getattr")
def ex_getattr(E, st, args, kw):
    v = args[0]
    if isinstance(v, VClass) and v.qname is None and v.term is not None and isinstance(args[1], VStr):
        # getattr(type(obj), name[, default]): the raw class attribute; absent -> default / AttributeError
        name = args[1].e
        val = cls_attr(v.term, name)
        out = []
        for s2, present in E.branch(st, val != U_NONE):
            if present:
                out.append(Res(s2, VOpaque(val)))
            elif len(args) > 2:
                out.append(Res(s2, args[2]))
            else:
                out.append(E.raise_(s2, "builtins.AttributeError"))
        return out
    return _prev_getattr(E, st, args, kw)


@R.spec("inspect.isdatadescriptor", doc="uninterpreted predicate of the attribute object; False for None")
def insp_isdatadesc(E, st, args, kw):
    v = args[0]
    if isinstance(v, VNone):
        return [Res(st, VBool(False))]
    if isinstance(v, VOpaque):
        return [Res(st, VBool(z3.And(v.e != U_NONE, is_datadesc(v.e))))]
    return [Res(st, VBool(False))]


def gate_definitions(o, n):
    """what the dispatch contracts' uninterpreted gate predicates mean in the object model"""
    name = unbox_str(n)
    c = typeof(o)
    return [D.gate_ok(o, n) == z3.And(is_str(n), z3.Not(private_spec(name)), z3.Not(z3.And(cls_attr(c, name) != U_NONE, is_datadesc(cls_attr(c, name)))), has_attr(o, name), exposed(inst_attr(o, name))),
            D.member(o, n) == inst_attr(o, name)]


@R.contract
class GetAttribute(_GateBase):
    name = "Pyro5.server._get_attribute#body"
    real_name = "Pyro5.server._get_attribute"
    no_join = True

    def setup(self, E, st):
        self.attr = VStr(z3.Const("attr", StrS))
        return {"obj": self.base(E, st), "attr": self.attr}

    def ensures(self, E, old, st, a, result):
        n = self.attr.e
        o = self.obj.e
        r = result.e if isinstance(result, VOpaque) else U_NONE
        return [("served only if: not private, not a property, attribute present and flagged exposed",
                 z3.And(z3.Not(private_spec(n)), z3.Not(z3.And(cls_attr(typeof(o), n) != U_NONE, is_datadesc(cls_attr(typeof(o), n)))), has_attr(o, n), exposed(inst_attr(o, n)))),
                ("what is returned is exactly the named attribute of the object (no dotted traversal)", r == inst_attr(o, n)),
                ("resolving a name runs no code of the object", z3.BoolVal(not self.no_user_code(st)))]

    def x_refused(self, E, old, st, a, exc):
        vc = st.get(exc, "__cls__")
        return [("a refusal runs no code of the object (in particular no property getter)", z3.BoolVal(not self.no_user_code(st))),
                ("refusals are AttributeErrors", z3.BoolVal(vc.qname == "builtins.AttributeError"))]


class _PropGate(_GateBase):
    no_join = True

    def on_user_call(self, E, st, target, args, kwargs, kind):
        n = self.prop.e
        o = self.obj.e
        v = cls_attr(typeof(o), n)
        E.oblige(st, "an accessor runs only for a non-private name", z3.Not(private_spec(n)), kind="pre")
        E.oblige(st, "an accessor runs only for a property of the object's class", z3.And(v != U_NONE, is_datadesc(v)), kind="pre")
        E.oblige(st, "it is not the implicit getter of an instance lookup", z3.BoolVal(kind != "getter_run_by_getattr"), kind="pre")
        acc = u_attr(v, z3.StringVal(self.accessor))
        E.oblige(st, "the accessor that runs is the property's own %s" % self.accessor, z3.BoolVal(isinstance(target, VOpaque)) if not isinstance(target, VOpaque) else target.e == acc, kind="pre")
        E.oblige(st, "it is called on the target object", z3.BoolVal(bool(args) and isinstance(args[0], VOpaque) and z3.eq(args[0].e, o)), kind="pre")
        flag_holder = self.flag_holder(v)
        E.oblige(st, "the property is flagged exposed", exposed(flag_holder), kind="pre")

    def ensures(self, E, old, st, a, result):
        ran = self.no_user_code(st)
        return [("exactly one accessor call on success", z3.BoolVal(len(ran) == 1))]

    def x_refused(self, E, old, st, a, exc):
        return [("at most the one gated accessor ran", z3.BoolVal(len(self.no_user_code(st)) <= 1))]


@R.contract
class GetProp(_PropGate):
    name = "Pyro5.server._get_exposed_property_value#body"
    real_name = "Pyro5.server._get_exposed_property_value"
    accessor = "fget"

    def setup(self, E, st):
        self.prop = VStr(z3.Const("propname", StrS))
        return {"obj": self.base(E, st), "propname": self.prop, "only_exposed": VBool(True)}

    def flag_holder(self, v):
        return u_attr(v, z3.StringVal("fget"))


@R.contract
class SetProp(_PropGate):
    name = "Pyro5.server._set_exposed_property_value#body"
    real_name = "Pyro5.server._set_exposed_property_value"
    accessor = "fset"

    def setup(self, E, st):
        self.prop = VStr(z3.Const("propname", StrS))
        return {"obj": self.base(E, st), "propname": self.prop, "value": VOpaque(z3.Const("value", U)), "only_exposed": VBool(True)}

    def flag_holder(self, v):
        # the exposure mark of a property lives on its first accessor (fget or fset or fdel)
        fget, fset, fdel = [u_attr(v, z3.StringVal(x)) for x in ("fget", "fset", "fdel")]
        t = lambda x: z3.And(x != U_NONE, truthy(x))      # noqa: E731
        return z3.If(t(fget), fget, z3.If(t(fset), fset, fdel))
