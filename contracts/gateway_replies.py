"""Sidecar contracts for the gateway's fixed replies (C20: "every other call request is refused with 403, 404 or 405 without any Pyro traffic"): invalid_request,
option_request, not_found, redirect and cors_response_header - the callees that contracts/gateway_app.py and contracts/gateway.py use by declared interface.  Each one
calls start_response exactly once, with its fixed status line, and calls nothing else (no name server, no proxy: the module's only other callables are not reachable)."""
import z3
from pyvc.values import *
from pyvc.engine import Contract, Res, Unsupported
from pyvc.registry import R

GW = "Pyro5.utils.httpgateway."


@R.model("header_list")
class HeaderList:
    """a list of (name, value) header pairs: append records the pair"""

    def getattr(self, E, st, obj, name):
        return None

    def m_append(self, E, st, obj, args, kw):
        st.set(obj, "items", tuple(st.get(obj, "items")) + (args[0],))
        return [Res(st, NONE)]

    methods = {"append": m_append}


@R.model("pyro_app.function")
class PyroAppAttrs:
    def getattr(self, E, st, obj, name):
        return None
    methods = {}


R.glob(GW + "pyro_app", VObj(-41, "pyro_app.function"), "the pyro_app function object (its attribute cors is configuration)")


def _pairs(items):
    out = []
    for it in items:
        if not (isinstance(it, VTuple) and len(it.items) == 2 and isinstance(it.items[0], VStr)):
            return None
        k = z3.simplify(it.items[0].e)
        out.append((k.as_string() if z3.is_string_value(k) else None, it.items[1]))
    return out


@R.contract
class CorsHeader(Contract):
    name = GW + "cors_response_header"
    props = ("C20",)
    raises = {}
    no_join = True
    log_calls = False

    def setup(self, E, st):
        self.h = st.new_obj("header_list", items=())
        self.cors = VStr(z3.Const("cors", StrS))
        return {"header": self.h, "cors": self.cors}

    # call-site view: the same list object comes back, three headers longer
    def modifies(self, E, st, a):
        return [(a["header"], "items")] if isinstance(a.get("header"), VObj) else []

    def result(self, E, st, a):
        return a["header"]

    def ensures(self, E, old, st, a, result):
        if E.cur_contract is not self:
            return []
        items = _pairs(st.get(self.h, "items"))
        ok = items is not None and [k for k, _ in items] == ["Access-Control-Allow-Origin", "Access-Control-Allow-Methods", "Access-Control-Allow-Headers"]
        return [("the list it was given comes back with exactly the three CORS headers appended", z3.BoolVal(bool(ok) and isinstance(result, VObj) and result.ref == self.h.ref)),
                ("the allowed origin is the configured value", items[0][1].e == self.cors.e if ok and isinstance(items[0][1], VStr) else z3.BoolVal(False))]


class _Reply(Contract):
    props = ("C20",)
    raises = {}
    no_join = True
    log_calls = False
    status = None
    trusted = ("start_response is the WSGI server's callable (user_call event; assumed not to raise); cors_response_header by its contract above",)

    def setup(self, E, st):
        self.start = VOpaque(z3.Const("start_response", U))
        st.genv = {}
        app = R.globals[GW + "pyro_app"]
        st.heap.setdefault(app.ref, {})["cors"] = VStr(z3.Const("cors", StrS))
        st.ghost["user_calls"] = VInt(0)
        return {"start_response": self.start}

    def user_call_may_raise(self, E, st, target, kind):
        return False

    def on_user_call(self, E, st, target, args, kwargs, kind):
        E.oblige(st, "the only thing called is start_response", z3.BoolVal(isinstance(target, VOpaque) and z3.eq(target.e, self.start.e)), kind="pre")

    def ensures(self, E, old, st, a, result):
        calls = [e for e in st.events if e[0] == "user_call"]
        ok = len(calls) == 1 and len(calls[0][2]) == 2 and isinstance(calls[0][2][0], VStr)
        return [("start_response is called exactly once", z3.BoolVal(len(calls) == 1)),
                ("... with the status line %r" % self.status, calls[0][2][0].e == z3.StringVal(self.status) if ok else z3.BoolVal(False))]


@R.contract
class InvalidRequest(_Reply):
    name = GW + "invalid_request#body"
    real_name = GW + "invalid_request"
    status = "405 Method Not Allowed"


@R.contract
class OptionRequest(_Reply):
    name = GW + "option_request#body"
    real_name = GW + "option_request"
    status = "200 OK"


@R.contract
class NotFound(_Reply):
    name = GW + "not_found#body"
    real_name = GW + "not_found"
    status = "404 Not Found"


@R.contract
class Redirect(_Reply):
    name = GW + "redirect#body"
    real_name = GW + "redirect"
    status = "302 Found"

    def setup(self, E, st):
        a = super().setup(E, st)
        self.target = VStr(z3.Const("target", StrS))
        a["target"] = self.target
        return a

    def ensures(self, E, old, st, a, result):
        post = super().ensures(E, old, st, a, result)
        calls = [e for e in st.events if e[0] == "user_call"]
        hdr = calls[0][2][1] if len(calls) == 1 and len(calls[0][2]) == 2 else None
        ok = isinstance(hdr, VList) and len(hdr.items) == 1 and isinstance(hdr.items[0], VTuple) and len(hdr.items[0].items) == 2
        post.append(("the only header is Location = the given target", z3.And(hdr.items[0].items[0].e == z3.StringVal("Location"), hdr.items[0].items[1].e == self.target.e) if ok else z3.BoolVal(False)))
        post.append(("an empty body", z3.BoolVal(isinstance(result, VList) and not result.items)))
        return post
