"""Sidecar contract for Pyro5.server._get_exposed_members (C02: "the member list the daemon advertises for an object is exactly the set of names it will serve"), the
computation on a cache miss: a loop over dir(cls) with an inductive invariant over the three name sets.
   methods  = { s in dir(cls) | not private(s), getattr(cls, s) is a function / method / method descriptor flagged exposed }
   oneway   = those of them flagged oneway
   attrs    = { s in dir(cls) | not private(s), getattr(cls, s) is not one of those but a data descriptor whose first accessor (fget or fset or fdel) is flagged exposed }
(the same predicates - private name, data descriptor, exposure flag of the attribute / of the first accessor - that the serving gates of contracts/exposure.py test; what
relates getattr(cls, s) to getattr(instance, s) is the object model stated there)."""
import z3
from pyvc.values import *
from pyvc.engine import Contract, Res, Unsupported
from pyvc.registry import R
from specs.opaque import is_class, u_attr
from contracts.exposure import is_datadesc, exposed

cls_member = z3.Function("getattr_of_class", U, StrS, U)            # getattr(cls, name) for a name dir(cls) lists
fn_like = z3.Function("is_function_or_method_or_method_descriptor", U, BoolS)
oneway_flag = z3.Function("pyroOneway_flag", U, BoolS)
priv = z3.Function("is_private_attribute_of", StrS, BoolS)          # the value is_private_attribute returns for a name (a pure function of the name; contract IsPrivate)


def first_accessor(v):
    g, s, d = [u_attr(v, z3.StringVal(n)) for n in ("fget", "fset", "fdel")]
    t = lambda x: z3.And(x != U_NONE, truthy(x))      # noqa: E731
    return z3.If(t(g), g, z3.If(t(s), s, d))


def P_method(c, s):
    v = cls_member(c, s)
    return z3.And(z3.Not(priv(s)), fn_like(v), exposed(v))


def P_oneway(c, s):
    return z3.And(P_method(c, s), oneway_flag(cls_member(c, s)))


def P_attr(c, s):
    v = cls_member(c, s)
    f = first_accessor(v)
    return z3.And(z3.Not(priv(s)), z3.Not(fn_like(v)), is_datadesc(v), f != U_NONE, exposed(f))


_prev_set = R.specs.get("builtins.set")


@R.spec("builtins.set", doc="set(): a new empty set of names (model strset)")
def b_set(E, st, args, kw):
    if not args:
        return [Res(st, st.new_obj("strset", mem=z3.K(StrS, z3.BoolVal(False))))]
    if _prev_set is None:
        raise Unsupported("set(%r)" % (args,))
    return _prev_set(E, st, args, kw)


@R.model("strset")
class StrSet:
    """a set of strings: membership array; add(s)"""

    def getattr(self, E, st, obj, name):
        return None

    def m_add(self, E, st, obj, args, kw):
        s = args[0]
        if not isinstance(s, VStr):
            raise Unsupported("set.add(%r)" % (s,))
        st.set(obj, "mem", z3.Store(st.get(obj, "mem"), s.e, z3.BoolVal(True)))
        return [Res(st, NONE)]

    methods = {"add": m_add}


@R.spec("builtins.dir", doc="dir(cls): a list of pairwise distinct attribute names (str), including inherited ones; every listed name can be looked up with getattr")
def b_dir(E, st, args, kw):
    n = fresh("n_names", IntS)
    names = fresh("dir_names", z3.ArraySort(IntS, StrS))
    i, j = z3.Ints("i!dir j!dir")
    st.assume(n >= 0, z3.ForAll([i, j], z3.Implies(z3.And(0 <= i, i < j, j < n), names[i] != names[j])))
    d = st.new_obj("name_list", n=VInt(n), names=names, of=args[0])
    st.ghost["dir_list"] = d
    return [Res(st, d)]


@R.model("name_list")
class NameList:
    def getattr(self, E, st, obj, name):
        return None

    def iter_spec(self, E, st, obj):
        names = st.get(obj, "names")
        return st.get(obj, "n").e, (lambda j: VStr(z3.Select(names, j)))

    methods = {}


for _n in ("ismethod", "isfunction", "ismethoddescriptor"):
    def _mk(n):
        def spec(E, st, args, kw):
            v = args[0]
            if not isinstance(v, VOpaque):
                raise Unsupported("inspect.%s(%r)" % (n, v))
            return [Res(st, VBool(z3.Function("inspect_" + n, U, BoolS)(v.e)))]
        return spec
    R.spec("inspect." + _n, doc="uninterpreted predicate of the attribute object")(_mk(_n))


def fn_like_def(v):
    return fn_like(v) == z3.Or([z3.Function("inspect_" + n, U, BoolS)(v) for n in ("ismethod", "isfunction", "ismethoddescriptor")])


@R.model("member_cache")
class MemberCache:
    """the module-level cache (class, only_exposed) -> metadata: membership is an unknown of the run; a stored value is remembered (event)"""

    def getattr(self, E, st, obj, name):
        return None

    def contains(self, E, st, obj, item):
        return z3.Bool("metadata_cached")

    def m_getitem(self, E, st, obj, args, kw):
        return [Res(st, VOpaque(z3.Const("cached_metadata", U)))]

    def m_setitem(self, E, st, obj, args, kw):
        st.event("cache_store", args[0], args[1])
        return [Res(st, NONE)]

    methods = {"__getitem__": m_getitem, "__setitem__": m_setitem}


R.glob("Pyro5.server.__exposed_member_cache", VObj(-31, "member_cache"), "the per-class metadata cache (dict)")


@R.contract
class GetExposedMembers(Contract):
    name = "Pyro5.server._get_exposed_members#compute"
    real_name = "Pyro5.server._get_exposed_members"
    props = ("C02",)
    raises = {}
    no_join = True
    log_calls = False
    trusted = ("object model: dir(cls) lists pairwise distinct names, getattr(cls, name) of a listed name yields the class-level attribute object without running user code and "
               "without raising (no metaclass / descriptor tricks); inspect.ismethod / isfunction / ismethoddescriptor / isdatadescriptor and the _pyroExposed / _pyroOneway "
               "flags are uninterpreted predicates of that attribute object; is_private_attribute is a pure function of the name (its own contract: IsPrivate)",
               "only the cache-miss path computes; a cache hit returns what an earlier computation for the same (class, only_exposed) stored (Daemon.resetMetadataCache drops it)")

    def setup(self, E, st):
        self.cls = VOpaque(z3.Const("cls", U))
        st.assume(is_class(self.cls.e), self.cls.e != U_NONE, z3.Not(z3.Bool("metadata_cached")))
        return {"obj": self.cls, "only_exposed": VBool(True)}

    # ---- object model hooks ---------------------------------------------------------------------------------------------------------------
    def opaque_getattr(self, E, st, x, n, default):
        name = n.e if isinstance(n, VStr) else unbox_str(n.e)
        sn = z3.simplify(name)
        if z3.eq(x.e, self.cls.e):
            v = cls_member(x.e, name)
            st.assume(fn_like_def(v), v != U_NONE)
            return [Res(st, VOpaque(v))]
        if z3.is_string_value(sn):
            s = sn.as_string()
            if s in ("_pyroExposed", "_pyroOneway"):
                # the flag attribute: present (then its truthiness is the flag) or absent (AttributeError, which getattr's 3-argument form turns into ITS default -
                # the flag predicates mean "present and truthy", so a default of True for an absent mark is visible here)
                flag = exposed if s == "_pyroExposed" else oneway_flag
                has = z3.Function("has" + s, U, BoolS)(x.e)
                out = []
                for s2, present in E.branch(st, has):
                    if present:
                        out.append(Res(s2, VBool(flag(x.e))))
                    else:
                        s2.assume(z3.Not(flag(x.e)))
                        out.append(E.raise_(s2, "builtins.AttributeError"))
                return out
            if s in ("fget", "fset", "fdel"):
                return [Res(st, VOpaque(u_attr(x.e, name)))]
        return None

    # ---- the sets ----------------------------------------------------------------------------------------------------------------------------
    def sets(self, st):
        return [st.get(st.env[n], "mem") for n in ("methods", "oneway", "attrs")]

    def facts(self, st, upto):
        d = st.ghost["dir_list"]
        names = st.get(d, "names")
        c = self.cls.e
        M, O, A = self.sets(st)
        s = z3.String("s!name")
        i = z3.Int("i!name")
        nm = z3.Select(names, i)
        return [("only: every name in `methods` is a non-private name whose class attribute is a function / method flagged exposed", z3.ForAll([s], z3.Implies(z3.Select(M, s), P_method(c, s)))),
                ("only: every name in `oneway` is such a method flagged oneway", z3.ForAll([s], z3.Implies(z3.Select(O, s), P_oneway(c, s)))),
                ("only: every name in `attrs` is a non-private name whose class attribute is a data descriptor with an exposed first accessor", z3.ForAll([s], z3.Implies(z3.Select(A, s), P_attr(c, s)))),
                ("all: every name visited so far that qualifies is in its set", z3.ForAll([i], z3.Implies(z3.And(0 <= i, i < upto), z3.And(
                    z3.Implies(P_method(c, nm), z3.Select(M, nm)), z3.Implies(P_oneway(c, nm), z3.Select(O, nm)), z3.Implies(P_attr(c, nm), z3.Select(A, nm))))))]

    def loop_inv(self, k, E, old, st, a):
        j = st.ghost["idx0"].e
        n = st.get(st.ghost["dir_list"], "n").e
        return [("0<=j<=n", z3.And(0 <= j, j <= n))] + self.facts(st, j)

    def loop_modifies(self, k, E, st, a):
        return [(st.env[n], "mem") for n in ("methods", "oneway", "attrs")]

    def ensures(self, E, old, st, a, result):
        disp = [e for e in st.events if e[0] == "dict_display" and isinstance(result, VOpaque) and z3.eq(e[1].e, result.e)]
        stored = [e for e in st.events if e[0] == "cache_store"]
        ok = len(disp) == 1 and [z3.simplify(k.e).as_string() if isinstance(k, VStr) and z3.is_string_value(z3.simplify(k.e)) else None for k in disp[0][2].items] == ["methods", "oneway", "attrs"] \
            and all(isinstance(v, VObj) and v.cls == "strset" for v in disp[0][3].items)
        if not ok:
            return [("the result is {'methods': .., 'oneway': .., 'attrs': ..} over the three computed sets", z3.BoolVal(False))]
        env_sets = [st.env[n].ref for n in ("methods", "oneway", "attrs")]
        n = st.get(st.ghost["dir_list"], "n").e
        post = [("the result is {'methods': .., 'oneway': .., 'attrs': ..} over the three computed sets", z3.BoolVal([v.ref for v in disp[0][3].items] == env_sets)),
                ("what was computed is what gets cached", z3.BoolVal(len(stored) == 1 and isinstance(stored[0][2], VOpaque) and z3.eq(stored[0][2].e, result.e))),
                ("... under the key (class, only_exposed)", z3.And(stored[0][1].items[0].e == self.cls.e, stored[0][1].items[1].e)
                 if len(stored) == 1 and isinstance(stored[0][1], VTuple) and len(stored[0][1].items) == 2 and isinstance(stored[0][1].items[0], VOpaque) and isinstance(stored[0][1].items[1], VBool)
                 else z3.BoolVal(False))]
        return post + [(lbl.replace("visited so far", "dir(cls) lists"), f) for lbl, f in self.facts(st, n)]


# --- dropping a cached member list (Daemon.resetMetadataCache -> _reset_exposed_members) ------------------------------------------------------------------------------

class_of = z3.Function("class_of_instance", U, U)      # obj.__class__ of an instance


def _cache_pop(self, E, st, obj, args, kw):
    st.event("cache_pop", args[0], args[1] if len(args) > 1 else None)
    return [Res(st, VOpaque(fresh("popped_metadata", U)))]


MemberCache.m_pop = _cache_pop
MemberCache.methods = dict(MemberCache.methods, pop=_cache_pop)


@R.contract
class ResetExposedMembers(Contract):
    name = "Pyro5.server._reset_exposed_members"
    props = ("C02",)
    raises = {}
    no_join = True
    log_calls = False
    variants = ("class", "instance")
    trusted = ("the cache is a dict keyed by (class, only_exposed); dict.pop(key, None) removes that key if present and never raises",)

    def setup(self, E, st):
        self.obj = VOpaque(z3.Const("obj", U))
        st.assume(self.obj.e != U_NONE, is_class(self.obj.e) if self.variant == "class" else z3.Not(is_class(self.obj.e)))
        return {"obj": self.obj, "only_exposed": VBool(True)}

    def opaque_getattr(self, E, st, x, n, default):
        sn = z3.simplify(n.e if isinstance(n, VStr) else unbox_str(n.e))
        if z3.eq(x.e, self.obj.e) and z3.is_string_value(sn) and sn.as_string() == "__class__":
            c = class_of(x.e)
            st.assume(is_class(c), c != U_NONE)
            return [Res(st, VOpaque(c))]
        return None

    def ensures(self, E, old, st, a, result):
        pops = [e for e in st.events if e[0] == "cache_pop"]
        stores = [e for e in st.events if e[0] == "cache_store"]
        ok = len(pops) == 1 and not stores and isinstance(pops[0][1], VTuple) and len(pops[0][1].items) == 2 and isinstance(pops[0][1].items[0], VOpaque) \
            and isinstance(pops[0][1].items[1], VBool) and isinstance(pops[0][2], VNone)
        if not ok:
            return [("exactly the cache entry of (the object's class, only_exposed) is dropped - the very key _get_exposed_members stores its result under - tolerating its absence", z3.BoolVal(False))]
        key_cls, key_flag = pops[0][1].items
        want = self.obj.e if self.variant == "class" else class_of(self.obj.e)
        return [("exactly the cache entry of (the object's class, only_exposed) is dropped - the very key _get_exposed_members stores its result under - tolerating its absence",
                 z3.And(key_cls.e == want, key_flag.e))]
