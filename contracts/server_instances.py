"""Sidecar contract for Daemon._getInstance (C09): instance modes single / session / percall."""
import z3
from pyvc.values import *
from pyvc.engine import Contract, Res
from pyvc.registry import R
from specs.opaque import new_odict, instance_of, box, is_class
from contracts.socketutil import new_connection


def new_daemon(E, st, name="daemon"):
    d = st.new_obj("Pyro5.server.Daemon")
    st.set(d, "_pyroInstances", new_odict(st, name + "_single_instances"))
    st.set(d, "create_single_instance_lock", st.new_obj("lock", name="create_single_instance_lock"))
    return d


@R.contract
class GetInstance(Contract):
    name = "Pyro5.server.Daemon._getInstance"
    props = ("C09",)
    raises = {"builtins.Exception": "x_failed"}
    raises_any_subclass = ("builtins.Exception",)
    log_calls = False
    trusted = ("the instance is an opaque object: its truthiness, equality and hash are uninterpreted (so falsy / custom-__eq__ instances are covered)",
               "one thread serves a connection at a time (the session table of a connection is not shared)",
               "`clazz()` and the instance creator are user code: arbitrary result, may raise any Exception")

    def setup(self, E, st):
        d = new_daemon(E, st)
        conn = new_connection(E, st)
        st.set(conn, "pyroInstances", new_odict(st, "session_instances"))
        self.clazz = VOpaque(z3.Const("clazz", U))
        self.mode = VStr(z3.Const("instance_mode", StrS))
        self.creator = VOpaque(z3.Const("instance_creator", U))
        st.assume(is_class(self.clazz.e), self.clazz.e != U_NONE)
        st.ghost["creations"] = VInt(0)
        st.ghost["creator_calls"] = VInt(0)
        st.ghost["last_created"] = VOpaque(U_NONE)
        from specs.daemon_model import new_call_context
        ctx = new_call_context(st)
        st.set(ctx, "client", conn)
        st.genv = {"current_context": ctx}
        return {"self": d, "clazz": self.clazz, "conn": conn}

    def requires(self, E, st, a):
        # constructors / creators are user code and may use the call context (e.g. track resources on the connection)
        ctx = st.genv.get("current_context")
        cl = st.get(ctx, "client") if ctx is not None else None
        return [("the call context already names this connection when user constructors run",
                 z3.BoolVal(isinstance(cl, VObj) and cl.ref == a["conn"].ref))]

    # --- hooks describing the user code involved ---------------------------------------------------------------------
    def opaque_getattr(self, E, st, x, n, default):
        if z3.eq(x.e, self.clazz.e) and z3.is_string_value(z3.simplify(n.e)) and z3.simplify(n.e).as_string() == "_pyroInstancing":
            return [Res(st, VTuple([self.mode, self.creator]))]
        return None

    def on_user_call(self, E, st, target, args, kwargs, kind):
        a = E.cur_args
        S = st.get(a["self"], "_pyroInstances")
        # C09 lock discipline: an instance of a 'single' class is created only while holding the creation lock
        if z3.is_true(z3.simplify(self.mode.e == z3.StringVal("single"))) or True:
            lock = st.get(a["self"], "create_single_instance_lock")
            E.oblige(st, "lock:create-under-single-lock", z3.Implies(self.mode.e == z3.StringVal("single"),
                                                                      z3.BoolVal(st.locks.get(lock.ref, 0) > 0)), kind="lock")

    def after_user_call(self, E, st, target, args, kwargs, kind, res):
        if z3.eq(target.e, self.creator.e):
            st.ghost["creator_calls"] = VInt(st.ghost["creator_calls"].e + 1)
            st.ghost["creator_result"] = res
        if z3.eq(target.e, self.clazz.e):
            st.assume(instance_of(res.e, self.clazz.e))     # calling a class yields an instance of it
        if z3.eq(target.e, self.clazz.e) or z3.eq(target.e, self.creator.e):
            st.ghost["creations"] = VInt(st.ghost["creations"].e + 1)
            st.ghost["last_created"] = res
            st.assume(res.e != U_NONE)

    def on_access(self, E, st, d, op):
        a = E.cur_args
        if d.ref == st.get(a["self"], "_pyroInstances").ref:
            lock = st.get(a["self"], "create_single_instance_lock")
            E.oblige(st, "lock:single-table-%s-under-lock" % op, z3.BoolVal(st.locks.get(lock.ref, 0) > 0), kind="lock")
            st.ghost["sections"] = VInt(1)

    # --- the contract --------------------------------------------------------------------------------------------------
    def _tables(self, st, a):
        S = st.get(a["self"], "_pyroInstances")
        Pt = st.get(a["conn"], "pyroInstances")
        return (st.get(S, "dom"), st.get(S, "map"), st.get(Pt, "dom"), st.get(Pt, "map"))

    def result(self, E, st, a):
        return VOpaque(fresh("instance", U))

    def ensures(self, E, old, st, a, result):
        if E.cur_contract is not self:
            return [("an instance, never None", result.e != U_NONE)]
        c = self.clazz.e
        Sd0, Sm0, Pd0, Pm0 = self._tables(old, a)
        Sd, Sm, Pd, Pm = self._tables(st, a)
        mode = self.mode.e
        made = st.ghost["creations"].e
        created = st.ghost["last_created"].e
        ccalls = st.ghost["creator_calls"].e
        r = result.e if isinstance(result, VOpaque) else U_NONE
        single, session, percall = [mode == z3.StringVal(m) for m in ("single", "session", "percall")]
        had_single = z3.And(z3.Select(Sd0, c), z3.Select(Sm0, c) != U_NONE)
        had_session = z3.And(z3.Select(Pd0, c), z3.Select(Pm0, c) != U_NONE)
        k = z3.Const("k!other", U)
        return [
            ("mode-is-one-of-three", z3.Or(single, session, percall)),
            ("single: existing instance reused, nothing created", z3.Implies(z3.And(single, had_single), z3.And(r == z3.Select(Sm0, c), made == 0))),
            ("single: otherwise exactly one created, stored and returned", z3.Implies(z3.And(single, z3.Not(had_single)), z3.And(
                made == 1, r == created, z3.Select(Sd, c), z3.Select(Sm, c) == created))),
            ("single: other classes' instances untouched", z3.Implies(single, z3.ForAll([k], z3.Implies(k != c, z3.And(
                z3.Select(Sd, k) == z3.Select(Sd0, k), z3.Select(Sm, k) == z3.Select(Sm0, k)))))),
            ("single: session table untouched", z3.Implies(single, z3.And(Pd == Pd0, Pm == Pm0))),
            ("session: existing instance of this connection reused", z3.Implies(z3.And(session, had_session), z3.And(r == z3.Select(Pm0, c), made == 0))),
            ("session: otherwise exactly one created, stored on this connection and returned", z3.Implies(z3.And(session, z3.Not(had_session)), z3.And(
                made == 1, r == created, z3.Select(Pd, c), z3.Select(Pm, c) == created))),
            ("session: only this connection's table written; daemon table untouched", z3.Implies(session, z3.And(Sd == Sd0, Sm == Sm0, z3.ForAll([k], z3.Implies(
                k != c, z3.And(z3.Select(Pd, k) == z3.Select(Pd0, k), z3.Select(Pm, k) == z3.Select(Pm0, k))))))),
            ("percall: fresh instance, nothing stored", z3.Implies(percall, z3.And(made == 1, r == created, Sd == Sd0, Sm == Sm0, Pd == Pd0, Pm == Pm0))),
            ("result-is-an-instance", z3.Implies(made == 1, instance_of(r, c))),
            # (from the property: "a custom instance creator is called exactly once per instance that is created" - WHATEVER the creator object looks like: a callable
            #  factory object that happens to be falsy is still the creator.  An earlier version of this clause had copied the code's truthiness test.)
            ("a custom instance creator (anything but None) is called exactly once per created instance", z3.Implies(self.creator.e != U_NONE, ccalls == made)),
            ("without a creator (None) nothing but the class itself is called", z3.Implies(self.creator.e == U_NONE, ccalls == 0)),
        ]

    def x_failed(self, E, old, st, a, exc):
        if E.cur_contract is not self:
            return []
        # a failing creation (creator/constructor raised, wrong type, invalid mode) stores nothing
        Sd0, Sm0, Pd0, Pm0 = self._tables(old, a)
        Sd, Sm, Pd, Pm = self._tables(st, a)
        return [("nothing-stored", z3.And(Sd == Sd0, Sm == Sm0, Pd == Pd0, Pm == Pm0)),
                ("lock-released", z3.BoolVal(all(v == 0 for v in st.locks.values())))]


@R.lemma("C09:instance-tables-frame", props=("C09",))
def instance_tables_frame(E):
    """syntactic frame condition, checked on the AST of the current tree: the daemon's single-instance table (`_pyroInstances`) is created empty in Daemon.__init__ and
    otherwise WRITTEN only by Daemon._getInstance (which is under contract, with the monitor obligation); the session table of a connection (`pyroInstances`) is created
    empty in SocketConnection.__init__, written by _getInstance, and dropped in SocketConnection.close - no other function of the package rebinds, deletes or mutates either
    table, or lets it escape (pure reads are allowed anywhere; a helper called only from these functions counts as part of them).
    (Without this, the per-function contract of _getInstance says nothing about what another function does to the tables between two calls.)"""
    from contracts.frames import frame_obligations
    frame_obligations(E, "instance tables", {
        "_pyroInstances": {"Pyro5/server.py:Daemon.__init__", "Pyro5/server.py:Daemon._getInstance"},
        "pyroInstances": {"Pyro5/socketutil.py:SocketConnection.__init__", "Pyro5/socketutil.py:SocketConnection.close", "Pyro5/server.py:Daemon._getInstance"}})
