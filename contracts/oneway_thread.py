"""Sidecar contracts for Pyro5.server._OnewayCallThread (C12, C07): the thread a oneway call runs in is created with a snapshot of the creating thread's call context
(to_global, called in __init__, i.e. on the server thread while it still serves that request), installs exactly that snapshot (from_global) BEFORE the method runs, runs the
method exactly once with the arguments it was given, and hands an Exception of the method to the daemon's error handler (nothing but a BaseException that is not an Exception
leaves the thread)."""
import z3
from pyvc.values import *
from pyvc.engine import Contract, Res, Unsupported
from pyvc.registry import R
from specs.opaque import may_raise

OT = "Pyro5.server._OnewayCallThread"


@R.spec("builtins.super", doc="super(_OnewayCallThread, self): threading.Thread's __init__ (records target / name) and run (calls the target once: Thread.run is "
                              "`if self._target: self._target(*self._args, **self._kwargs)` - no arguments are passed here)")
def b_super(E, st, args, kw):
    if len(args) == 2 and isinstance(args[1], VObj) and args[1].cls == OT:
        return [Res(st, st.new_obj("thread_super", of=args[1]))]
    raise Unsupported("super(%r)" % (args,))


@R.model("thread_super")
class ThreadSuper:
    def getattr(self, E, st, obj, name):
        return None

    def m_init(self, E, st, obj, args, kw):
        o = st.get(obj, "of")
        st.event("Thread.__init__", dict(kw), tuple(args))
        st.set(o, "_target", kw.get("target", NONE))
        return [Res(st, NONE)]

    def m_run(self, E, st, obj, args, kw):
        o = st.get(obj, "of")
        st.event("Thread.run", o)
        return E.call(st, st.get(o, "_target"), [], {}, None)

    methods = {"__init__": m_init, "run": m_run}


@R.model("call_context")
class CallContextModel:
    """the thread-local current_context as seen from the oneway thread: to_global() yields a snapshot (event), from_global(snapshot) installs one (event); both have their
    own contracts (contracts/callcontext.py)"""

    def getattr(self, E, st, obj, name):
        return None

    def m_to_global(self, E, st, obj, args, kw):
        snap = VOpaque(fresh("context_snapshot", U))
        st.assume(snap.e != U_NONE)
        st.event("to_global", snap)
        return [Res(st, snap)]

    def m_from_global(self, E, st, obj, args, kw):
        st.event("from_global", args[0])
        return [Res(st, NONE)]

    methods = {"to_global": m_to_global, "from_global": m_from_global}


R.glob("Pyro5.server.current_context", VObj(-21, "call_context"), "the thread-local call context object")


def _evs(st, *names):
    return [e for e in st.events if e[0] in names]


class _Base(Contract):
    props = ("C12", "C07")
    no_join = True
    log_calls = False

    def mk(self, E, st):
        self.method = VOpaque(z3.Const("pyro_method", U))
        self.vargs = VOpaque(z3.Const("vargs", U))
        self.kwargs = VOpaque(z3.Const("kwargs", U))
        self.daemon = VOpaque(z3.Const("pyro_daemon", U))
        self.csock = VOpaque(z3.Const("client_sock", U))
        return st.new_obj(OT)


@R.contract
class OnewayInit(_Base):
    name = OT + ".__init__"
    raises = {}
    trusted = ("threading.Thread.__init__(target=..., name=...) only records its arguments; current_context.to_global() by its contract (contracts/callcontext.py)",)

    def setup(self, E, st):
        t = self.mk(E, st)
        return {"self": t, "pyro_method": self.method, "vargs": self.vargs, "kwargs": self.kwargs, "pyro_daemon": self.daemon, "pyro_client_sock": self.csock}

    def ensures(self, E, old, st, a, result):
        t = a["self"]
        snaps = _evs(st, "to_global")
        ok = len(snaps) == 1
        tgt = st.get(t, "_target") if st.has(t, "_target") else None
        same = lambda attr, v: z3.BoolVal(st.has(t, attr) and isinstance(st.get(t, attr), VOpaque) and z3.eq(st.get(t, attr).e, v.e))   # noqa: E731
        return [("the context snapshot is taken exactly once, here (on the thread that is serving the request)", z3.BoolVal(ok)),
                ("... and kept for the new thread", same("parent_context", snaps[0][1]) if ok else z3.BoolVal(False)),
                ("the thread's target is its own _methodcall", z3.BoolVal(isinstance(tgt, VBound) and tgt.name == "_methodcall" and tgt.recv.ref == t.ref)),
                ("method, arguments, daemon and client address are kept as given", z3.And(same("pyro_method", self.method), same("pyro_vargs", self.vargs),
                                                                                         same("pyro_kwars", self.kwargs), same("pyro_daemon", self.daemon),
                                                                                         same("pyro_client_sock", self.csock))),
                ("a daemon thread (does not keep the process alive)", z3.BoolVal(st.has(t, "daemon") and isinstance(st.get(t, "daemon"), VBool) and z3.is_true(st.get(t, "daemon").e)))]


class _Running(_Base):
    def setup(self, E, st):
        t = self.mk(E, st)
        self.snap = VOpaque(z3.Const("parent_context", U))
        for k, v in (("parent_context", self.snap), ("pyro_method", self.method), ("pyro_vargs", self.vargs), ("pyro_kwars", self.kwargs),
                     ("pyro_daemon", self.daemon), ("pyro_client_sock", self.csock)):
            st.set(t, k, v)
        st.set(t, "_target", VBound(t, "_methodcall"))
        st.ghost["user_calls"] = VInt(0)
        return {"self": t}

    def opaque_getattr(self, E, st, x, n, default):
        s = z3.simplify(n.e)
        if z3.eq(x.e, self.daemon.e) and z3.is_string_value(s) and s.as_string() == "methodcall_error_handler":
            return [Res(st, VOpaque(z3.Const("error_handler", U)))]
        return None

    def method_calls(self, st):
        return [e for e in st.events if e[0] == "user_call" and isinstance(e[1], VOpaque) and z3.eq(e[1].e, self.method.e)]

    def handler_calls(self, st):
        return [e for e in st.events if e[0] == "user_call" and isinstance(e[1], VOpaque) and "error_handler" in str(e[1].e)]

    def call_shape(self, st):
        mc = self.method_calls(st)
        if len(mc) != 1:
            return z3.BoolVal(False)
        args = mc[0][2]
        ok = len(args) == 2 and args[0][0] == "*" and args[1][0] == "**" and z3.eq(args[0][1].e, self.vargs.e) and z3.eq(args[1][1].e, self.kwargs.e) and not mc[0][3]
        return z3.BoolVal(bool(ok))


@R.contract
class OnewayMethodcall(_Running):
    name = OT + "._methodcall"
    raises = {"builtins.BaseException": "x_base"}
    raises_any_subclass = ("builtins.BaseException",)
    trusted = ("the method and the daemon's error handler are user code (any result, any exception)",)

    # call-site view (Thread.run calling the target): the method of THAT thread object is called once with its arguments (event), result dropped
    def modifies(self, E, st, a):
        return []

    def prepare_call(self, E, st, a, outcome):
        t = a["self"]
        st.event("user_call", st.get(t, "pyro_method"), (("*", st.get(t, "pyro_vargs")), ("**", st.get(t, "pyro_kwars"))), {})

    def ensures(self, E, old, st, a, result):
        if E.cur_contract is not self:
            return []
        h = self.handler_calls(st)
        return [("the method is called exactly once, with the positional and keyword arguments of the request", self.call_shape(st)),
                ("the error handler is called at most once", z3.BoolVal(len(h) <= 1)),
                ("... with the daemon, the client address, the method, its arguments and the exception", z3.BoolVal(all(len(e[2]) == 6 for e in h)))]

    def x_base(self, E, old, st, a, exc):
        if E.cur_contract is not self:
            return []
        return [("the method was called exactly once", self.call_shape(st))]


@R.contract
class OnewayRun(_Running):
    name = OT + ".run"
    raises = {"builtins.BaseException": "x_base"}
    raises_any_subclass = ("builtins.BaseException",)
    trusted = ("threading.Thread.run calls the target once without arguments; _methodcall is executed in place (its own contract: OnewayMethodcall)",)

    def order(self, st):
        seq = [e for e in st.events if e[0] == "from_global" or (e[0] == "user_call" and isinstance(e[1], VOpaque) and z3.eq(e[1].e, self.method.e))]
        ok = len(seq) >= 1 and seq[0][0] == "from_global" and isinstance(seq[0][1], VOpaque) and z3.eq(seq[0][1].e, self.snap.e) and \
            len([e for e in seq if e[0] == "from_global"]) == 1
        return z3.BoolVal(bool(ok))

    def ensures(self, E, old, st, a, result):
        return [("the snapshot taken when the thread was created is installed exactly once, before the method runs (the method reads the context of ITS request)", self.order(st)),
                ("the method is called exactly once, with the positional and keyword arguments of the request", self.call_shape(st))]

    def x_base(self, E, old, st, a, exc):
        return [("the snapshot was installed before anything else", self.order(st))]
