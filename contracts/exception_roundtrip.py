"""Sidecar contracts for the two ends of an exception's journey (C07): SerializerBase.class_to_dict (exception branch) on the raising side and
SerializerBase.make_exception (body) on the receiving side, and the lemma that composes them with dict_to_class's class resolution (C04 contract):
the exception that is rebuilt is constructed from the SAME args, gets the SAME attributes, and its class tag spells module + '.' + name of the
class of the exception that was raised."""
import z3
from pyvc.values import *
from pyvc.engine import Contract, Res, Unsupported, State
from pyvc.registry import R
from specs.opaque import may_raise, user_call, u_getitem, u_len, u_attr, box

args_of = z3.Function("exception_args", U, U)                 # exc.args
vars_of = z3.Function("instance_vars", U, U)                  # vars(exc)
class_of = z3.Function("class_of", U, U)                      # exc.__class__
mod_name = z3.Function("class_module_name", U, StrS)          # cls.__module__
cls_name = z3.Function("class_name", U, StrS)                 # cls.__name__
is_exc = z3.Function("is_exception_instance", U, BoolS)
dict_items = z3.Function("dict_items_sequence", U, U)         # list(d.items()) as a sequence of pairs


# ---------------------------------------------------------------------------------------------------------------------------------------
# receiving side: make_exception(exceptiontype, data)

@R.model("exception_payload")
class ExceptionPayload:
    """the decoded dict of an exception: data['args'] (always), data['attributes'] (optional: a dict of attribute name -> value)"""

    def getattr(self, E, st, obj, name):
        return None

    def contains(self, E, st, obj, item):
        if isinstance(item, VStr) and z3.is_true(z3.simplify(item.e == z3.StringVal("attributes"))):
            return st.get(obj, "has_attributes").e
        raise Unsupported("payload key test %r" % (item,))

    def m_getitem(self, E, st, obj, args, kw):
        k = z3.simplify(args[0].e).as_string()
        if k == "args":
            return [Res(st, VOpaque(st.get(obj, "args_value")))]
        if k == "attributes":
            return [Res(st, st.new_obj("attribute_dict", items_seq=st.get(obj, "attr_items"), is_dict=VBool(z3.Bool("attributes_member_is_a_plain_dict"))))]
        raise Unsupported("payload key %r" % k)

    methods = {"__getitem__": m_getitem}


@R.model("attribute_dict")
class AttributeDict:
    """data['attributes']: what the payload holds there - a plain dict, or (msgpack revives the members of a dict before the dict itself) an already revived object"""

    def getattr(self, E, st, obj, name):
        return None

    def isinstance(self, E, st, v, names):
        return st.get(v, "is_dict").e if "builtins.dict" in names else z3.BoolVal(False)

    def m_items(self, E, st, obj, args, kw):
        # C04: .items of a revived Proxy is a remote attribute access (a socket is opened): the member is walked only once it is known to be a plain dict
        E.oblige(st, "the attributes member is walked only after it was checked to be a plain dict (a revived Proxy would be called)", st.get(obj, "is_dict").e, kind="pre")
        return [Res(st, VOpaque(st.get(obj, "items_seq")))]

    methods = {"items": m_items}


@R.spec("U.setattr", doc="setattr(x, name, value) on an opaque object: recorded (ghost log), may raise any Exception (slots, read-only properties)")
def u_setattr(E, st, args, kw):
    x, n, v = args
    c = getattr(E, "cur_contract", None)
    if c is not None and hasattr(c, "on_setattr"):
        c.on_setattr(E, st, x, n, v)
    st.event("setattr", x, n, v)
    cnt = st.ghost.get("n_setattr")
    if cnt is not None:
        st.ghost["n_setattr"] = VInt(cnt.e + 1)
    return [Res(st, NONE), may_raise(E, st.fork(), "setattr")]


@R.contract
class MakeExceptionBody(Contract):
    name = "Pyro5.serializers.SerializerBase.make_exception#body"
    real_name = "Pyro5.serializers.SerializerBase.make_exception"
    props = ("C07",)
    raises = {"builtins.Exception": "x_any"}
    raises_any_subclass = ("builtins.Exception",)
    variants = ("with-attributes", "without-attributes")
    no_join = True
    trusted = ("the exception class is an opaque callable (user / library code: any result, any Exception); setattr may raise; the attribute dict is walked in its item order",)

    def setup(self, E, st):
        self.T = VOpaque(z3.Const("exception_class", U))
        self.ARGS = z3.Const("payload_args", U)
        self.ITEMS = z3.Const("payload_attribute_items", U)
        self.data = st.new_obj("exception_payload", args_value=self.ARGS, attr_items=self.ITEMS, has_attributes=VBool(self.variant == "with-attributes"))
        st.ghost["n_setattr"] = VInt(0)
        st.ghost["user_calls"] = VInt(0)
        return {"exceptiontype": self.T, "data": self.data}

    def on_user_call(self, E, st, target, args, kwargs, kind):
        E.oblige(st, "the only code that is called is the exception class itself", z3.BoolVal(isinstance(target, VOpaque) and z3.eq(target.e, self.T.e)), kind="pre")
        ok = len(args) == 1 and isinstance(args[0], tuple) and args[0][0] == "*" and isinstance(args[0][1], VOpaque) and z3.eq(args[0][1].e, self.ARGS) and not kwargs
        E.oblige(st, "it is called with exactly the args of the payload (cls(*data['args']))", z3.BoolVal(ok), kind="pre")
        E.oblige(st, "it is called once", st.ghost["user_calls"].e == 0, kind="pre")
        E.oblige(st, "the args member is star-expanded only after it was checked to be a plain list / tuple (iterating a revived Proxy would call its remote object)",
                 z3.Or([z3.Function("isinstance_builtins." + k_, U, BoolS)(self.ARGS) for k_ in ("list", "tuple")]), kind="pre")

    def built(self, st):
        calls = [e for e in st.events if e[0] == "user_call"]
        return calls

    def on_setattr(self, E, st, x, n, v):
        idx = st.ghost.get("idx0")
        item = u_getitem(self.ITEMS, box_int(idx.e)) if idx is not None else None
        E.oblige(st, "attributes are set on the rebuilt exception only", z3.BoolVal(isinstance(x, VOpaque) and "result_of_user_call" in str(x.e)), kind="pre")
        if item is None:
            E.oblige(st, "attributes are set only while walking the payload's attribute dict", z3.BoolVal(False), kind="pre")
            return
        E.oblige(st, "the attribute set is the name of item idx of the payload's attribute dict", box(n) == u_getitem(item, box_int(z3.IntVal(0))), kind="pre")
        E.oblige(st, "... with the value of that item", box(v) == u_getitem(item, box_int(z3.IntVal(1))), kind="pre")
        E.oblige(st, "one setattr per item", st.ghost["n_setattr"].e == idx.e, kind="pre")

    def ensures(self, E, old, st, a, result):
        calls = self.built(st)
        post = [("exactly one object was constructed, by the given exception class", z3.BoolVal(len(calls) == 1)),
                ("the result is that object", z3.BoolVal(isinstance(result, VOpaque) and "result_of_user_call" in str(result.e)))]
        if self.variant == "with-attributes":
            post.append(("every attribute of the payload was restored (one setattr per item, in order)", st.ghost["n_setattr"].e == u_len(self.ITEMS)))
        else:
            post.append(("without an attribute dict nothing is set", st.ghost["n_setattr"].e == 0))
        return post

    def loop_inv(self, k, E, old, st, a):
        idx = st.ghost["idx%d" % k].e
        return [("no converter applies (the registry walk finds nothing)", z3.And(0 <= idx, idx <= 0))]

    def loop_modifies(self, k, E, st, a):
        return []

    def x_any(self, E, old, st, a, exc):
        return [("at most the one construction was attempted", z3.BoolVal(len(self.built(st)) <= 1))]

    def loop_modifies(self, k, E, st, a):
        return [("ghost", "n_setattr")]

    def loop_inv(self, k, E, old, st, a):
        idx = st.ghost["idx%d" % k].e
        return [("one setattr per item visited", st.ghost["n_setattr"].e == idx), ("index in range", z3.And(0 <= idx, idx <= u_len(self.ITEMS)))]


# ---------------------------------------------------------------------------------------------------------------------------------------
# raising side: class_to_dict(obj) for an exception instance

@R.model("exception_instance")
class ExceptionInstance:
    """an exception object e (no custom class_to_dict converter registered for its class, not a container, not a Pyro-registered object):
    e.__class__, e.args; vars(e)"""

    def getattr(self, E, st, obj, name):
        u = st.get(obj, "u")
        if name == "__class__":
            return [Res(st, st.new_obj("class_object", u=class_of(u)))]
        if name == "args":
            return [Res(st, VOpaque(args_of(u)))]
        return None

    def hasattr(self, E, st, obj, name):
        if name == "_pyroDaemon":
            return z3.BoolVal(False)
        return None

    def isinstance(self, E, st, v, names):
        return z3.BoolVal(bool({"builtins.BaseException", "builtins.Exception"} & set(names)))

    methods = {}


@R.model("class_object")
class ClassObject:
    def getattr(self, E, st, obj, name):
        u = st.get(obj, "u")
        if name == "__module__":
            return [Res(st, VStr(mod_name(u)))]
        if name == "__name__":
            return [Res(st, VStr(cls_name(u)))]
        return None

    methods = {}


@R.spec("builtins.vars", doc="vars(obj): the instance's attribute dictionary (opaque)")
def b_vars(E, st, args, kw):
    o = args[0]
    if isinstance(o, VObj) and o.cls == "exception_instance":
        return [Res(st, VOpaque(vars_of(st.get(o, "u"))))]
    raise Unsupported("vars(%r)" % (o,))


for _q in ("builtins.set", "builtins.dict", "builtins.tuple", "builtins.list"):
    if _q not in R.globals and _q not in R.specs:
        R.glob(_q, VClass(_q, None), "a builtin container class (only compared with type(obj))")

_prev_type = R.specs.get("builtins.type")


@R.spec("builtins.type", doc="type(<exception instance>): its class (never one of set / dict / tuple / list)")
def b_type(E, st, args, kw):
    o = args[0]
    if isinstance(o, VObj) and o.cls == "exception_instance":
        return [Res(st, st.new_obj("class_object", u=class_of(st.get(o, "u"))))]
    return _prev_type(E, st, args, kw)


@R.model("empty_converter_registry")
class EmptyRegistry:
    """SerializerBase.__custom_class_to_dict_registry with no converter that applies to the exception's class (iteration yields nothing)"""

    def getattr(self, E, st, obj, name):
        return None

    def iter_spec(self, E, st, obj):
        return z3.IntVal(0), (lambda j: NONE)

    methods = {}


R.glob("Pyro5.serializers.SerializerBase._SerializerBase__custom_class_to_dict_registry", VObj(-7, "empty_converter_registry"),
       "the class_to_dict converter registry: no converter registered for exception classes (assumed)")


@R.contract
class ClassToDictException(Contract):
    name = "Pyro5.serializers.SerializerBase.class_to_dict#exception"
    real_name = "Pyro5.serializers.SerializerBase.class_to_dict"
    props = ("C07",)
    raises = {}
    no_join = True
    trusted = ("no class_to_dict converter is registered for the exception's class; the exception is not a Pyro-registered object (no _pyroDaemon attribute)",)

    def setup(self, E, st):
        self.e = z3.Const("raised_exception", U)
        obj = st.new_obj("exception_instance", u=self.e)
        return {"cls": VClass("Pyro5.serializers.SerializerBase", None), "obj": obj}

    def ensures(self, E, old, st, a, result):
        ent = None
        for e in st.events:
            if e[0] == "dict_display" and isinstance(result, VOpaque) and z3.eq(e[1].e, result.e):
                ent = list(zip(e[2].items if hasattr(e[2], 'items') and not callable(e[2].items) else e[2], e[3].items if hasattr(e[3], 'items') and not callable(e[3].items) else e[3]))
        if ent is None:
            return [("the exception becomes a dict with the four entries __class__, __exception__, args, attributes", z3.BoolVal(False))]
        d = {}
        for k, v in ent:
            ks = z3.simplify(k.e)
            d[ks.as_string() if z3.is_string_value(ks) else str(ks)] = v
        post = [("exactly the four entries __class__, __exception__, args, attributes", z3.BoolVal(set(d) == {"__class__", "__exception__", "args", "attributes"}))]
        if set(d) == {"__class__", "__exception__", "args", "attributes"}:
            c = class_of(self.e)
            post += [("the class tag is module + '.' + name of the exception's class", d["__class__"].e == z3.Concat(mod_name(c), z3.StringVal("."), cls_name(c)) if isinstance(d["__class__"], VStr) else z3.BoolVal(False)),
                     ("it is flagged as an exception", d["__exception__"].e if isinstance(d["__exception__"], VBool) else z3.BoolVal(False)),
                     ("args are the exception's args, unchanged", d["args"].e == args_of(self.e) if isinstance(d["args"], VOpaque) else z3.BoolVal(False)),
                     ("attributes are the exception's instance attributes, unchanged", d["attributes"].e == vars_of(self.e) if isinstance(d["attributes"], VOpaque) else z3.BoolVal(False))]
        return post

    def loop_inv(self, k, E, old, st, a):
        idx = st.ghost["idx%d" % k].e
        return [("no converter applies (the registry walk finds nothing)", z3.And(0 <= idx, idx <= 0))]

    def loop_modifies(self, k, E, st, a):
        return []
