"""Sidecar contract for SocketConnection.close (C13, C09): every tracked resource closed exactly once, session instances dropped."""
import z3
from pyvc.values import *
from pyvc.engine import Contract, Res, QInv
from pyvc.registry import R
from specs.opaque import new_odict, user_call
from specs.socket_model import new_socket

close_of = z3.Function("close_method_of", U, U)


@R.model("resource_set")
class ResourceSet:
    """SocketConnection.tracked_resources (a WeakSet) seen as n pairwise distinct live resources elems[0..n); iteration order
    is that index order; clear() empties it.  (Resources that were garbage collected are simply not in it.)"""

    def getattr(self, E, st, obj, name):
        return None

    def iter_spec(self, E, st, obj):
        st.ghost["walked_set"] = VInt(z3.IntVal(obj.ref))        # which set object the loop walks over (the live one or a snapshot)
        elems = st.get(obj, "elems")
        return st.get(obj, "n").e, (lambda j: VOpaque(z3.Select(elems, j)))

    def m_clear(self, E, st, obj, args, kw):
        st.set(obj, "n", VInt(0))
        return [Res(st, NONE)]

    methods = {"clear": m_clear}


_prev_list = R.specs.get("builtins.list")


@R.spec("builtins.list", doc="list(<tracked resource set>): a snapshot (same members, its own object)")
def list_of_resources(E, st, args, kw):
    if args and isinstance(args[0], VObj) and args[0].cls == "resource_set":
        src = args[0]
        c = getattr(E, "cur_contract", None)
        if c is not None and hasattr(c, "on_snapshot"):
            c.on_snapshot(E, st)
        return [Res(st, st.new_obj("resource_set", n=st.get(src, "n"), elems=st.get(src, "elems")))]
    return _prev_list(E, st, args, kw)


@R.contract
class ConnClose(Contract):
    name = "Pyro5.socketutil.SocketConnection.close#body"
    real_name = "Pyro5.socketutil.SocketConnection.close"
    props = ("C13", "C09")
    raises = {}      # close() never raises
    trusted = ("a tracked resource's close() is user code (any Exception); resources are pairwise distinct objects other than None; the tracked set holds weak references: what "
               "keeps a resource alive until close() reaches it may be a session instance of this very connection",
               "socket.close() does not raise; socket.shutdown() may raise OSError")

    def setup(self, E, st):
        conn = st.new_obj("Pyro5.socketutil.SocketConnection", sock=new_socket(E, st, "csock"),
                          keep_open=VBool(z3.Const("keep_open", BoolS)))
        st.set(conn, "pyroInstances", new_odict(st, "session_instances"))
        self.instances_ref = st.get(conn, "pyroInstances").ref
        n = z3.Int("n_resources")
        elems = z3.Const("resources", z3.ArraySort(IntS, U))
        i, j = z3.Ints("i!r j!r")
        st.assume(n >= 0, z3.ForAll([i, j], z3.Implies(z3.And(0 <= i, i < j, j < n), elems[i] != elems[j])))
        st.set(conn, "tracked_resources", st.new_obj("resource_set", n=VInt(n), elems=elems))
        self.conn = conn
        self.n, self.elems = n, elems
        self.closed0 = z3.Const("closed_count0", z3.ArraySort(U, IntS))
        st.ghost["closed"] = VOpaque(z3.Const("dummy", U))      # replaced below
        st.ghost["closed"] = _Arr(self.closed0)
        return {"self": conn}

    def opaque_getattr(self, E, st, x, n, default):
        if z3.is_string_value(z3.simplify(n.e)) and z3.simplify(n.e).as_string() == "close":
            return [Res(st, VOpaque(close_of(x.e)))]      # "it is assumed a 'resource' has a close method" (source comment)
        return None

    def after_user_call(self, E, st, target, args, kwargs, kind, res):
        # a resource's close() is user code: it may track / untrack resources on this very connection (e.g. untrack itself), i.e. change the
        # live tracked set while close() is walking over it - the walk must therefore go over a snapshot
        live = st.get(self.conn, "tracked_resources")
        walked = st.ghost.get("walked_set")
        if isinstance(live, VObj) and walked is not None:
            E.oblige(st, "close() walks over a snapshot of the tracked resources: a resource's close() may track / untrack resources of this connection "
                         "(walking the live set would end in RuntimeError 'Set changed size during iteration' and skip the rest)",
                     z3.BoolVal(z3.simplify(walked.e).as_long() != live.ref), kind="pre")
        if isinstance(live, VObj) and live.cls == "resource_set":
            st.set(live, "n", VInt(fresh("tracked_n_after_user_close", IntS)))
            st.set(live, "elems", fresh("tracked_elems_after_user_close", z3.ArraySort(IntS, U)))
            st.assume(st.get(live, "n").e >= 0)

    def instances_in_place(self, st):
        pi = st.get(self.conn, "pyroInstances")
        return z3.BoolVal(isinstance(pi, VObj) and pi.ref == self.instances_ref)

    def on_snapshot(self, E, st):
        # the tracked set holds WEAK references: a resource whose only strong reference is an attribute of a session instance (the natural way to write a
        # per-session resource) leaves the set the moment the session instances are dropped - so they must still be in place when the resources are collected
        E.oblige(st, "the session instances are still in place when the tracked resources are collected for closing (a resource kept alive only by its session "
                     "instance would otherwise vanish from the weak set unclosed)", self.instances_in_place(st), kind="pre")

    def on_user_call(self, E, st, target, args, kwargs, kind):
        E.oblige(st, "... and while the resources are being closed", self.instances_in_place(st), kind="pre")
        t = target.e
        if z3.is_app(t) and t.decl().name() == "close_method_of":
            r = t.arg(0)
            arr = st.ghost["closed"].e
            st.ghost["closed"] = _Arr(z3.Store(arr, r, z3.Select(arr, r) + 1))
        else:
            E.oblige(st, "only resources' close() is called", z3.BoolVal(False), kind="pre")

    def ensures(self, E, old, st, a, result):
        if E.cur_contract is not self:
            return []
        conn = a["self"]
        keep = old.get(conn, "keep_open").e
        closed = st.ghost["closed"].e
        k = z3.Int("k!res")
        u = z3.Const("u!res", U)
        sockclosed = [e for e in st.events if e[0] == "sock.close"]
        tr = st.get(conn, "tracked_resources")
        pi = st.get(conn, "pyroInstances")
        empty_instances = isinstance(pi, VObj) and pi.cls == "seqdict" and z3.is_true(z3.simplify(st.get(pi, "n").e == 0))
        in_set = lambda x: z3.Exists([k], z3.And(0 <= k, k < self.n, self.elems[k] == x))   # noqa: E731
        return [("keep_open: nothing happens", z3.Implies(keep, z3.And(closed == self.closed0, z3.BoolVal(not sockclosed)))),
                ("every tracked resource is closed exactly once", z3.Implies(z3.Not(keep), z3.ForAll([k], z3.Implies(
                    z3.And(0 <= k, k < self.n), closed[self.elems[k]] == self.closed0[self.elems[k]] + 1)))),
                ("nothing else is closed", z3.ForAll([u], z3.Implies(z3.Not(in_set(u)), closed[u] == self.closed0[u]))),
                ("the resource set is emptied (a second close() closes nothing again)", z3.Implies(z3.Not(keep), st.get(tr, "n").e == 0)),
                ("session instances are dropped", z3.Implies(z3.Not(keep), z3.BoolVal(empty_instances))),
                ("the socket is closed exactly once, even if shutdown() failed", z3.Implies(z3.Not(keep), z3.BoolVal(len(sockclosed) == 1)))]

    def loop_inv(self, k_, E, old, st, a):
        j = st.ghost["idx0"].e
        closed = st.ghost["closed"].e
        k = z3.Int("k!inv")
        return [("0<=j<=n", z3.And(0 <= j, j <= self.n)),
                ("visited resources closed exactly once", z3.ForAll([k], z3.Implies(z3.And(0 <= k, k < j), closed[self.elems[k]] == self.closed0[self.elems[k]] + 1))),
                ("unvisited resources untouched", z3.ForAll([k], z3.Implies(z3.And(j <= k, k < self.n), closed[self.elems[k]] == self.closed0[self.elems[k]]))),
                ("nothing outside the set touched", z3.ForAll([z3.Const("u!inv", U)], z3.Implies(
                    z3.Not(z3.Exists([k], z3.And(0 <= k, k < self.n, self.elems[k] == z3.Const("u!inv", U)))),
                    closed[z3.Const("u!inv", U)] == self.closed0[z3.Const("u!inv", U)])))]

    def loop_modifies(self, k, E, st, a):
        live = st.get(self.conn, "tracked_resources")
        return [("ghost", "closed"), (live, "n"), (live, "elems")]


class _Arr(V):
    """ghost array value"""
    __slots__ = ("e",)

    def __init__(self, e):
        self.e = e


@R.lemma("C13:tracked-resources-frame", props=("C13",))
def tracked_resources_frame(E):
    """the set of resources tracked on a connection is written only by track_resource / untrack_resource (user-facing API of the call context), the connection's
    constructor and its close()"""
    from contracts.frames import frame_obligations
    frame_obligations(E, "connection cleanup", {"tracked_resources": {
        "Pyro5/callcontext.py:_CallContext.track_resource", "Pyro5/callcontext.py:_CallContext.untrack_resource",
        "Pyro5/socketutil.py:SocketConnection.__init__", "Pyro5/socketutil.py:SocketConnection.close"}})
