"""Sidecar contracts for the transport servers: svr_threads.ClientConnectionJob, svr_multiplex.SocketServer_Multiplex
(C05 containment, C08 handshake gate, C13 cleanup exactly once)."""
import z3
from pyvc.values import *
from pyvc.engine import Contract, Res
from pyvc.registry import R
from specs.daemon_model import new_daemon, new_call_context
from specs.socket_model import new_socket
from contracts.socketutil import new_connection
from contracts.server_handshake import calls


@R.contract
class HandleRequestDecl(Contract):
    """Declared interface of Daemon.handleRequest as its callers see it: it may raise ANY exception class and touches only the
    connection it is given and the thread's call context.  (The callers' containment and cleanup obligations are proved
    against this weakest possible contract; the body's own obligations are in contracts/server_dispatch.py.)"""
    name = "Pyro5.server.Daemon.handleRequest"
    props = ()
    raises = {"builtins.Exception": "x_any"}
    raises_any_subclass = ("builtins.Exception",)

    def modifies(self, E, st, a):
        s = st.get(a["conn"], "sock")
        return [(s, "pos"), (s, "out"), (s, "eof"), (s, "fatal")]

    def x_any(self, E, old, st, a, exc):
        return []


@R.contract
class ClientDisconnectDecl(Contract):
    """Daemon._clientDisconnect(conn): stream-table update + the user's disconnect hook; may raise any Exception"""
    name = "Pyro5.server.Daemon._clientDisconnect"
    props = ()
    raises = {"builtins.Exception": "x_any"}
    raises_any_subclass = ("builtins.Exception",)

    def x_any(self, E, old, st, a, exc):
        return []


@R.contract
class HousekeepingDecl(Contract):
    name = "Pyro5.server.Daemon._housekeeping"
    props = ()
    raises = {"builtins.Exception": "x_any"}
    raises_any_subclass = ("builtins.Exception",)

    def x_any(self, E, old, st, a, exc):
        return []


@R.contract
class ConnCloseDecl(Contract):
    """SocketConnection.close(): verified in C13 (contracts/connection_close.py); callers only need: it does not raise"""
    name = "Pyro5.socketutil.SocketConnection.close"
    props = ()
    raises = {}

    def modifies(self, E, st, a):
        return []


def _closes(st, conn):
    return [e for e in calls(st, "SocketConnection.close") if e[2]["self"].ref == conn.ref]


def _on_conn(evs, conn, key="conn"):
    return [e for e in evs if isinstance(e[2].get(key), VObj) and e[2][key].ref == conn.ref]


def new_job(E, st):
    job = st.new_obj("Pyro5.svr_threads.ClientConnectionJob")
    st.set(job, "csock", new_connection(E, st, "csock"))
    st.set(job, "caddr", VOpaque(z3.Const("caddr", U)))
    st.set(job, "daemon", new_daemon(E, st))
    st.genv = {"current_context": new_call_context(st)}
    return job


class _JobBase(Contract):
    def _evs(self, st, a):
        conn = st.get(a["self"], "csock")
        hs = _on_conn(calls(st, "Daemon._handshake"), conn)
        hr = _on_conn(calls(st, "Daemon.handleRequest"), conn)
        disc = _on_conn(calls(st, "Daemon._clientDisconnect"), conn)
        cl = _closes(st, conn)
        return conn, hs, hr, disc, cl


@R.contract
class JobHandleConnection(_JobBase):
    name = "Pyro5.svr_threads.ClientConnectionJob.handleConnection"
    props = ("C08", "C05", "C13")
    raises = {}          # nothing may escape
    inline_at_calls = True      # verified on its own below; its one caller (__call__) executes it in place

    def setup(self, E, st):
        return {"self": new_job(E, st)}

    def modifies(self, E, st, a):
        s = st.get(st.get(a["self"], "csock"), "sock")
        return [(s, "pos"), (s, "out"), (s, "eof"), (s, "fatal")]

    def result(self, E, st, a):
        return VBool(fresh("handshaken", BoolS))

    def ensures(self, E, old, st, a, result):
        conn, hs, hr, disc, cl = self._evs(st, a)
        if not isinstance(result, VBool):
            return [("returns a bool", z3.BoolVal(False))]
        ok_ret = [e for e in hs if e[3] == "return"]
        accepted = ok_ret[0][4].e if ok_ret and isinstance(ok_ret[0][4], VBool) else z3.BoolVal(False)
        return [("handshake attempted exactly once", z3.BoolVal(len(hs) == 1)),
                ("True only if the handshake returned True", z3.Implies(result.e, accepted)),
                ("True iff the handshake returned True", result.e == accepted),
                ("refused connection is closed exactly once", z3.Implies(z3.Not(result.e), z3.BoolVal(len(cl) == 1))),
                ("accepted connection is left open", z3.Implies(result.e, z3.BoolVal(len(cl) == 0))),
                ("no request is handled here", z3.BoolVal(not hr))]


@R.contract
class JobCall(_JobBase):
    name = "Pyro5.svr_threads.ClientConnectionJob.__call__"
    props = ("C05", "C08", "C13")
    raises = {}          # C05: no Exception escapes the job (so the worker always returns to the pool)
    trusted = ("handleRequest / _clientDisconnect may raise ANY Exception subclass (weakest callee contracts)",
               "BaseExceptions that are not Exceptions (KeyboardInterrupt, SystemExit) are outside the model")

    def setup(self, E, st):
        return {"self": new_job(E, st)}

    def ensures(self, E, old, st, a, result):
        conn, hs, hr, disc, cl = self._evs(st, a)
        ok_ret = [e for e in hs if e[3] == "return"]
        ok = ok_ret[0][4].e if ok_ret and isinstance(ok_ret[0][4], VBool) else z3.BoolVal(False)
        served = ("loop", 0) in st.events or bool(hr)
        return [("C08: requests are handled only after the handshake returned True", z3.Implies(z3.BoolVal(served), ok)),
                ("C13: accepted connection: disconnect handling runs exactly once", z3.Implies(ok, z3.BoolVal(len(disc) == 1))),
                ("C13: accepted connection: closed exactly once", z3.Implies(ok, z3.BoolVal(len(cl) == 1))),
                ("C13: closed after the disconnect handling", z3.Implies(ok, z3.BoolVal(
                    bool(disc) and bool(cl) and st.events.index(disc[0]) < st.events.index(cl[0])))),
                ("C13: refused connection: no disconnect hook (it was never accepted)", z3.Implies(z3.Not(ok), z3.BoolVal(len(disc) == 0))),
                ("lock released", z3.BoolVal(all(v == 0 for v in st.locks.values())))]

    def loop_inv(self, k, E, old, st, a):
        conn, hs, hr, disc, cl = self._evs(st, a)
        return [("connection still open and not yet disconnected inside the request loop", z3.BoolVal(len(disc) == 0 and len(cl) == 0))]

    def loop_modifies(self, k, E, st, a):
        s = st.get(st.get(a["self"], "csock"), "sock")
        return [(s, "pos"), (s, "out"), (s, "eof"), (s, "fatal")]


@R.contract
class JobDeny(_JobBase):
    name = "Pyro5.svr_threads.ClientConnectionJob.denyConnection"
    props = ("C05", "C18", "C13")
    raises = {}          # C05: a failing refusal must not escape into the accept loop

    def setup(self, E, st):
        return {"self": new_job(E, st), "reason": VStr(z3.Const("reason", StrS))}

    def requires(self, E, st, a):
        return [("non-empty reason", z3.Length(a["reason"].e) > 0)]

    def modifies(self, E, st, a):
        s = st.get(st.get(a["self"], "csock"), "sock")
        return [(s, "pos"), (s, "out"), (s, "eof"), (s, "fatal")]

    def ensures(self, E, old, st, a, result):
        conn, hs, hr, disc, cl = self._evs(st, a)
        return [("the refusal goes through the handshake with the reason", z3.BoolVal(
            len(hs) == 1 and isinstance(hs[0][2].get("denied_reason"), VStr) and z3.eq(hs[0][2]["denied_reason"].e, a["reason"].e))),
                ("closed exactly once", z3.BoolVal(len(cl) == 1)),
                ("no request is handled", z3.BoolVal(not hr))]


# ----------------------------------------------------------------------------------------------------------------------
# multiplex server

def new_multiplex(E, st):
    srv = st.new_obj("Pyro5.svr_multiplex.SocketServer_Multiplex")
    st.set(srv, "daemon", new_daemon(E, st))
    st.set(srv, "sock", new_socket(E, st, "listen"))
    st.genv = {"current_context": new_call_context(st)}
    return srv


@R.contract
class MuxHandleRequest(Contract):
    name = "Pyro5.svr_multiplex.SocketServer_Multiplex.handleRequest"
    props = ("C05", "C13")
    raises = {}

    def setup(self, E, st):
        return {"self": new_multiplex(E, st), "conn": new_connection(E, st)}

    def modifies(self, E, st, a):
        s = st.get(a["conn"], "sock")
        return [(s, "pos"), (s, "out"), (s, "eof"), (s, "fatal")]

    def result(self, E, st, a):
        return VBool(fresh("active", BoolS))

    def ensures(self, E, old, st, a, result):
        hr = calls(st, "Daemon.handleRequest")
        if not isinstance(result, VBool):
            return [("returns a bool", z3.BoolVal(False))]
        returned = z3.BoolVal(bool(hr) and hr[0][3] == "return")
        return [("exactly one request handled", z3.BoolVal(len(hr) == 1)),
                ("active iff the request was handled without an exception", result.e == returned),
                ("the connection is not closed here", z3.BoolVal(not _closes(st, a["conn"])))]


@R.contract
class MuxHandleConnection(Contract):
    name = "Pyro5.svr_multiplex.SocketServer_Multiplex._handleConnection"
    props = ("C08", "C05", "C13")
    raises = {"Pyro5.errors.ConnectionClosedError": "x_server_socket_gone"}

    def setup(self, E, st):
        srv = new_multiplex(E, st)
        return {"self": srv, "sock": st.get(srv, "sock")}

    def ensures(self, E, old, st, a, result):
        hs = calls(st, "Daemon._handshake")
        if isinstance(result, VNone):
            conns = [e[2]["conn"] for e in hs]
            closed = all(_closes(st, c) or any(ev[0] == "sock.close" for ev in st.events) for c in conns)
            return [("a connection that is not handed back has been closed", z3.BoolVal(closed)),
                    ("at most one handshake", z3.BoolVal(len(hs) <= 1))]
        ok = [e for e in hs if e[3] == "return" and e[2]["conn"].ref == getattr(result, "ref", None)]
        return [("a connection is handed back (for registration) only after its handshake returned True",
                 ok[0][4].e if ok and isinstance(ok[0][4], VBool) else z3.BoolVal(False)),
                ("the accepted connection is left open", z3.BoolVal(not _closes(st, result) if isinstance(result, VObj) else False))]

    def x_server_socket_gone(self, E, old, st, a, exc):
        return [("only when accept() failed (the listening socket is gone), before any handshake", z3.BoolVal(not calls(st, "Daemon._handshake")))]
