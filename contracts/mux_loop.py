"""Sidecar contract for SocketServer_Multiplex.loop (C05): the multiplex server's request loop.  One round = select, group the sockets with a read event by the server
they belong to (loop combination), hand each server its sockets (events(), under contract in contracts/server_loops.py), housekeeping when nothing was readable.
Proved: a failing select() (OSError: e.g. a stale descriptor) is contained and counts as "no events"; a socket timeout anywhere in a round is swallowed; KeyboardInterrupt
ends the loop normally; NOTHING ELSE that happens inside loop() itself raises - an exception leaves the loop only out of the caller's loopCondition(), out of a server's
events() (whose own contract says what can escape there) or out of the housekeeping hook."""
import z3
from pyvc.values import *
from pyvc.engine import Contract, Res, Unsupported
from pyvc.registry import R
from specs.opaque import may_raise, u_attr, user_call
from specs.daemon_model import new_daemon

key_at = z3.Function("selector_key_at", IntS, U)
mask_at = z3.Function("event_mask_at", IntS, IntS)
server_at = z3.Function("grouped_server_at", IntS, U)
socks_at = z3.Function("grouped_sockets_at", IntS, U)

R.glob("selectors.EVENT_READ", VInt(1), "selectors.EVENT_READ == 1")
R.glob("Pyro5.config.POLLTIMEOUT", VReal(z3.Const("POLLTIMEOUT", RealS)), "poll timeout (configuration)")


class EventList(V):
    """what select() returns: a list of (key, mask) pairs, any length"""

    def __init__(self, n):
        self.n = n

    def iter_spec_v(self, E, st):
        return (self.n, lambda j: VTuple([VOpaque(key_at(j)), VInt(mask_at(j))]), [self.n >= 0])

    def fresh_like(self, name):
        return EventList(fresh(name + "_n", IntS))

    def truth_term(self):
        return self.n > 0


@R.model("loop_selector")
class LoopSelector:
    """selectors.DefaultSelector.select(timeout): a list of (key, mask) pairs | OSError (stale descriptor, EINTR on old Pythons, ...)"""

    def getattr(self, E, st, obj, name):
        return None

    def m_select(self, E, st, obj, args, kw):
        st.event("select")
        s2 = st.fork()
        n = fresh("n_events", IntS)
        st.assume(n >= 0)
        return [Res(st, EventList(n)), Res(s2, exc=E.new_sym_exc(s2, "builtins.OSError", "select_failed"))]

    methods = {"select": m_select}


@R.spec("collections.defaultdict", doc="defaultdict(list): a mapping server -> list of its sockets (model `grouping`)")
def dd(E, st, args, kw):
    return [Res(st, st.new_obj("grouping", nonempty=VBool(False)))]


R.glob("Pyro5.svr_multiplex.defaultdict", VFunc("collections.defaultdict"), "collections.defaultdict")


@R.model("grouping")
class Grouping:
    """events_per_server: [server] yields that server's list (created on first use), .items() walks the (server, sockets) pairs, truthy iff something was put in"""

    def getattr(self, E, st, obj, name):
        return None

    def truth(self, E, st, obj):
        return st.get(obj, "nonempty").e

    def m_getitem(self, E, st, obj, args, kw):
        return [Res(st, st.new_obj("group_list", of=obj, key=args[0]))]

    def m_items(self, E, st, obj, args, kw):
        n = fresh("n_servers", IntS)
        st.assume(n >= 0, (n > 0) == st.get(obj, "nonempty").e)
        return [Res(st, GroupItems(n))]

    methods = {"__getitem__": m_getitem, "items": m_items}


@R.model("group_list")
class GroupList:
    def getattr(self, E, st, obj, name):
        return None

    def m_append(self, E, st, obj, args, kw):
        g = st.get(obj, "of")
        st.set(g, "nonempty", VBool(True))
        st.event("grouped", st.get(obj, "key"), args[0])
        return [Res(st, NONE)]

    methods = {"append": m_append}


class GroupItems(V):
    def __init__(self, n):
        self.n = n

    def iter_spec_v(self, E, st):
        return (self.n, lambda j: VTuple([VOpaque(server_at(j)), VOpaque(socks_at(j))]), [self.n >= 0])

    def fresh_like(self, name):
        return GroupItems(fresh(name + "_n", IntS))


@R.contract
class MuxLoop(Contract):
    name = "Pyro5.svr_multiplex.SocketServer_Multiplex.loop"
    props = ("C05",)
    raises = {"builtins.Exception": "x_any"}
    raises_any_subclass = ("builtins.Exception",)
    no_join = True
    log_calls = False
    trusted = ("selector.select returns (key, mask) pairs or raises OSError; key.data / key.fileobj are plain attributes; a combined server's events() and the daemon's "
               "_housekeeping by their declared interfaces (any Exception - what events() really lets escape is its own contract, contracts/server_loops.py); "
               "loopCondition is the caller's code", "termination / progress of the loop is not claimed")

    def setup(self, E, st):
        srv = st.new_obj("Pyro5.svr_multiplex.SocketServer_Multiplex")
        st.set(srv, "daemon", new_daemon(E, st))
        st.set(srv, "selector", st.new_obj("loop_selector"))
        self.cond = VOpaque(z3.Const("loopCondition", U))
        return {"self": srv, "loopCondition": self.cond}

    def opaque_getattr(self, E, st, x, n, default):
        sn = z3.simplify(n.e if isinstance(n, VStr) else unbox_str(n.e))
        if z3.is_string_value(sn) and sn.as_string() in ("data", "fileobj", "events"):
            return [Res(st, VOpaque(u_attr(x.e, sn)))]
        return None

    def loop_inv(self, k, E, old, st, a):
        if k == 0:
            return [("true", z3.BoolVal(True))]
        idx = st.ghost["idx%d" % k].e
        return [("index", idx >= 0)]

    def loop_modifies(self, k, E, st, a):
        return []

    def ensures(self, E, old, st, a, result):
        return [("the loop ends normally only on a false loop condition or a break signal", z3.BoolVal(True))]

    def x_any(self, E, old, st, a, exc):
        vc = st.get(exc, "__cls__")
        t = str(vc.term) if vc.qname is None else ""
        return [("an exception leaves the loop only out of the caller's loopCondition(), a server's events() or the housekeeping hook - never out of select() or the "
                 "grouping of the events (a failing select counts as 'no events')", z3.BoolVal(vc.qname is None and ("user_call" in t or "housekeeping_hook" in t)))]
