"""Sidecar contracts for three small bodies that other contracts use by declared interface only:
Proxy.__serializeBlobArgs (C12: writes exactly one entry, BLBI, into the annotation dict it is GIVEN - which dict that is, is _pyroInvoke's obligation),
Daemon.__deserializeBlobArgs (the server half: object id and method come from that annotation, the single argument is the blob wrapping the received message),
Proxy._pyroInvokeBatch (C11: one _pyroInvoke of '<batch>' carrying exactly the call list it is given, BATCH flag, plus ONEWAY when asked)."""
import z3
from pyvc.values import *
from pyvc.engine import Contract, Res, Unsupported
from pyvc.registry import R
from specs.opaque import may_raise, box
from specs.daemon_model import new_annotations, new_serializer


def bit(x, k):
    return (x / (2 ** k)) % 2

marshal_of = z3.Function("marshal_dumps_triple", U, U, U, BytesS)
unmarshal_1 = z3.Function("marshal_loads_item0", BytesS, U)
unmarshal_2 = z3.Function("marshal_loads_item1", BytesS, U)
unmarshal_3 = z3.Function("marshal_loads_item2", BytesS, U)


@R.spec("marshal.dumps", doc="marshal.dumps((a, b, c)): some bytes determined by the triple, or ValueError for an unmarshallable component")
def marshal_dumps(E, st, args, kw):
    v = args[0]
    if not (isinstance(v, VTuple) and len(v.items) == 3):
        raise Unsupported("marshal.dumps(%r)" % (v,))
    a, b, c = [box(x) for x in v.items]
    st.event("marshal.dumps", v)
    return [Res(st, VBytes(marshal_of(a, b, c))), E.raise_(st.fork(), "builtins.ValueError")]


@R.spec("marshal.loads", doc="marshal.loads(b): an arbitrary value (here: unpacked into three items), or any of the errors marshal raises for bytes that are not a marshal stream")
def marshal_loads(E, st, args, kw):
    b = args[0]
    out = [Res(st, VTuple([VOpaque(f(b.e)) for f in (unmarshal_1, unmarshal_2, unmarshal_3)]))]
    for q in ("builtins.ValueError", "builtins.EOFError", "builtins.TypeError"):
        out.append(E.raise_(st.fork(), q))
    return out


R.glob("marshal", VModule("marshal"), "the marshal module (dumps / loads as specified)")


# ------------------------------------------------------------------------------------------------------------------------------------------ client half
@R.contract
class SerializeBlobArgs(Contract):
    name = "Pyro5.client.Proxy.__serializeBlobArgs#body"
    real_name = "Pyro5.client.Proxy.__serializeBlobArgs"
    props = ("C12",)
    variants = ("one-argument", "two-arguments")
    raises = {"Pyro5.errors.SerializeError": "x_refused", "builtins.Exception": "x_other"}
    raises_any_subclass = ("builtins.Exception",)
    no_join = True
    log_calls = False
    trusted = ("marshal.dumps of the (info, object id, method name) triple: some bytes or ValueError; serializer.dumpsCall as modelled (any Exception)",
               "the blob is a SerializedBlob (attributes info, _data, _contains_blob); a kept protocol message has a data attribute")

    @property
    def never_returns(self):
        return getattr(self, "variant", None) == "two-arguments"

    def setup(self, E, st):
        p = st.new_obj("Pyro5.client.Proxy")
        self.ann = new_annotations(st, ["callers-dict"], "given_annotations")
        msg = st.new_obj("kept_message", data=VBytes(z3.Const("kept_message_data", BytesS)))
        self.blob = st.new_obj("Pyro5.client.SerializedBlob", info=VOpaque(z3.Const("blob_info", U)), _contains_blob=VBool(z3.Bool("contains_blob")))
        st.set(self.blob, "_data", VOpt(z3.Not(z3.Bool("contains_blob")), msg) if False else (msg))
        self.flags = z3.Int("flags")
        st.assume(self.flags >= 0, self.flags < 65536)
        self.kwargs_truthy = z3.Bool("kwargs_given")
        vargs = VTuple([self.blob] if self.variant == "one-argument" else [self.blob, VOpaque(z3.Const("second_argument", U))])
        self.oid, self.meth = VOpaque(z3.Const("objectId", U)), VOpaque(z3.Const("methodname", U))
        return {"self": p, "vargs": vargs, "kwargs": _Kw(self.kwargs_truthy), "annotations": self.ann, "flags": VInt(self.flags),
                "objectId": self.oid, "methodname": self.meth, "serializer": new_serializer(st, VInt(z3.Int("serializer_id")))}

    def written(self, old, st):
        n0, n1 = old.get(self.ann, "n").e, st.get(self.ann, "n").e
        k = z3.Int("k!ann")
        keys0, keys1, vals0, vals1 = old.get(self.ann, "keys"), st.get(self.ann, "keys"), old.get(self.ann, "vals"), st.get(self.ann, "vals")
        kept = z3.ForAll([k], z3.Implies(z3.And(0 <= k, k < n0), z3.And(keys1[k] == keys0[k], vals1[k] == vals0[k])))
        return n0, n1, keys1, vals1, kept

    def ensures(self, E, old, st, a, result):
        n0, n1, keys1, vals1, kept = self.written(old, st)
        fl = result.items[1] if isinstance(result, VTuple) and len(result.items) == 2 else None
        return [("exactly one entry is written into the annotation dict it was given: BLBI = the marshalled (blob info, object id, method name); every other entry is untouched",
                 z3.And(n1 == n0 + 1, keys1[n0] == z3.StringVal("BLBI"), vals1[n0] == marshal_of(st.get(self.blob, "info").e, self.oid.e, self.meth.e), kept)),
                ("the KEEPSERIALIZED flag is added, the other flags are kept", fl.e == self.flags + 32 * (1 - bit(self.flags, 5)) if isinstance(fl, VInt) else z3.BoolVal(False)),
                ("only a single positional argument without keyword arguments is accepted", z3.And(z3.BoolVal(self.variant == "one-argument"), z3.Not(self.kwargs_truthy)))]

    def x_refused(self, E, old, st, a, exc):
        n0, n1, keys1, vals1, kept = self.written(old, st)
        # (a SerializeError may also come out of serializer.dumpsCall, after the BLBI entry was written)
        more = z3.Or(z3.BoolVal(self.variant != "one-argument"), self.kwargs_truthy)
        return [("refused before anything is written exactly when there is more than the blob (otherwise the error is the serializer's)",
                 z3.And(kept, z3.If(more, n1 == n0, n1 == n0 + 1)))]

    def x_other(self, E, old, st, a, exc):
        n0, n1, keys1, vals1, kept = self.written(old, st)
        return [("a failure of marshal / the serializer leaves at most the BLBI entry behind", z3.And(z3.Or(n1 == n0, n1 == n0 + 1), kept))]


class _Kw(V):
    """kwargs as far as this function looks at it: its truthiness; it is passed on unchanged"""
    __slots__ = ("t",)

    def __init__(self, t):
        self.t = t

    def truth_term(self):
        return self.t


# ------------------------------------------------------------------------------------------------------------------------------------------ server half
@R.spec("Pyro5.client.SerializedBlob", doc="SerializedBlob(info, message, is_blob=True): the wrapper object (TypeError when is_blob and the data is no protocol message)")
def blob_ctor(E, st, args, kw):
    st.event("SerializedBlob", args[0], args[1], kw.get("is_blob", args[2] if len(args) > 2 else VBool(False)))
    return [Res(st, st.new_obj("Pyro5.client.SerializedBlob", info=args[0], _data=args[1], _contains_blob=kw.get("is_blob", VBool(False))))]


@R.contract
class DeserializeBlobArgs(Contract):
    name = "Pyro5.server.Daemon.__deserializeBlobArgs#body"
    real_name = "Pyro5.server.Daemon.__deserializeBlobArgs"
    props = ("C12", "C16")
    raises = {"builtins.Exception": "x_any"}
    raises_any_subclass = ("builtins.Exception",)
    no_join = True
    log_calls = False
    trusted = ("marshal.loads: arbitrary value or ValueError / EOFError / TypeError; a message without the BLBI annotation raises KeyError",)

    def setup(self, E, st):
        d = st.new_obj("Pyro5.server.Daemon")
        self.msg = st.new_obj("Pyro5.protocol.ReceivingMessage")
        self.has = z3.Bool("message_has_BLBI")
        self.blbi = z3.Const("BLBI_value", BytesS)
        st.set(self.msg, "annotations", st.new_obj("annotation_lookup", has=VBool(self.has), value=VBytes(self.blbi)))
        return {"self": d, "protocolmsg": self.msg}

    def ensures(self, E, old, st, a, result):
        ok = isinstance(result, VTuple) and len(result.items) == 4
        if not ok:
            return [("(object id, method, (blob,), {})", z3.BoolVal(False))]
        oid, meth, vargs, kwargs = result.items
        blob = vargs.items[0] if isinstance(vargs, VTuple) and len(vargs.items) == 1 else None
        isblob = st.get(blob, "_contains_blob") if isinstance(blob, VObj) else None
        return [("only a message carrying the BLBI annotation is taken apart", self.has),
                ("object id and method name are the second and third item of the marshalled BLBI triple", z3.And(oid.e == unmarshal_2(self.blbi), meth.e == unmarshal_3(self.blbi))
                 if isinstance(oid, VOpaque) and isinstance(meth, VOpaque) else z3.BoolVal(False)),
                ("the single argument is a blob wrapping THIS message (kept serialized), its info the first item of the triple",
                 z3.BoolVal(isinstance(blob, VObj) and isinstance(st.get(blob, "_data"), VObj) and st.get(blob, "_data").ref == self.msg.ref and
                            isinstance(isblob, VBool) and z3.is_true(z3.simplify(isblob.e))) if blob is not None else z3.BoolVal(False)),
                ("... ", st.get(blob, "info").e == unmarshal_1(self.blbi) if isinstance(blob, VObj) and isinstance(st.get(blob, "info"), VOpaque) else z3.BoolVal(False)),
                ("no keyword arguments", z3.BoolVal(isinstance(kwargs, VObj) or (hasattr(kwargs, "items") and not kwargs.items)))]

    def x_any(self, E, old, st, a, exc):
        return []


@R.model("annotation_lookup")
class AnnotationLookup:
    """msg.annotations['BLBI']: the value, or KeyError"""

    def getattr(self, E, st, obj, name):
        return None

    def m_getitem(self, E, st, obj, args, kw):
        out = []
        for s2, has in E.branch(st, st.get(obj, "has").e):
            out.append(Res(s2, s2.get(obj, "value")) if has else E.raise_(s2, "builtins.KeyError"))
        return out

    methods = {"__getitem__": m_getitem}


# ------------------------------------------------------------------------------------------------------------------------------------------ batch request
@R.spec("Pyro5.client.Proxy._pyroInvoke", doc="declared here: one remote request (event with all five arguments); any result or any Exception (body: contracts/client_invoke.py)")
def pyro_invoke_decl(E, st, args, kw):
    st.event("_pyroInvoke", tuple(args[1:]), dict(kw))
    return [Res(st, VOpaque(fresh("invoke_result", U))), may_raise(E, st, "_pyroInvoke")]


@R.contract
class InvokeBatch(Contract):
    name = "Pyro5.client.Proxy._pyroInvokeBatch#body"
    real_name = "Pyro5.client.Proxy._pyroInvokeBatch"
    props = ("C11",)
    raises = {"builtins.Exception": "x_any"}
    raises_any_subclass = ("builtins.Exception",)
    no_join = True
    log_calls = False
    trusted = ("Proxy._pyroInvoke by its declared interface (verified in contracts/client_invoke.py)",)

    def setup(self, E, st):
        p = st.new_obj("Pyro5.client.Proxy")
        self.calls = VOpaque(z3.Const("calls", U))
        self.oneway = z3.Bool("oneway")
        return {"self": p, "calls": self.calls, "oneway": VBool(self.oneway)}

    def shape(self, st):
        ev = [e for e in st.events if e[0] == "_pyroInvoke"]
        if len(ev) != 1:
            return z3.BoolVal(False)
        args, kw = ev[0][1], ev[0][2]
        if len(args) != 4 or kw:
            return z3.BoolVal(False)
        name, vargs, kwargs, flags = args
        ok = isinstance(name, VStr) and isinstance(vargs, VOpaque) and z3.eq(vargs.e, self.calls.e) and isinstance(kwargs, VNone) and isinstance(flags, VInt)
        if not ok:
            return z3.BoolVal(False)
        return z3.And(name.e == z3.StringVal("<batch>"), flags.e == z3.If(self.oneway, 8 + 4, 8))

    def ensures(self, E, old, st, a, result):
        ev = [e for e in st.events if e[0] == "_pyroInvoke"]
        return [("exactly one remote request: method '<batch>', the call list it was given as the arguments, no keyword arguments, flags BATCH (+ ONEWAY when asked)", self.shape(st))]

    def x_any(self, E, old, st, a, exc):
        return [("the failure is that of the one request", self.shape(st))]


# ------------------------------------------------------------------------------------------------------------------------------------------ metadata request
@R.spec("Pyro5.client.Proxy.__pyroCreateConnection", doc="declared here: connects (event); afterwards the proxy may or may not hold metadata (the handshake reply can carry it); any Exception")
def create_connection_decl(E, st, args, kw):
    p = args[0]
    st.event("create_connection")
    st.set(p, "_pyroConnection", VOpaque(fresh("connection", U)))
    st.assume(st.get(p, "_pyroConnection").e != U_NONE)
    st.set(p, "_pyroMethods", _Names(fresh("methods_after_handshake", BoolS)))
    st.set(p, "_pyroAttrs", _Names(fresh("attrs_after_handshake", BoolS)))
    return [Res(st, VBool(True)), may_raise(E, st, "createConnection")]


@R.spec("Pyro5.client.Proxy.__processMetadata", doc="declared here: stores the three name sets of the metadata it is given on the proxy (event); PyroError when nothing is exposed")
def process_metadata_decl(E, st, args, kw):
    st.event("process_metadata", args[1])
    return [Res(st, NONE), E.raise_(st.fork(), "Pyro5.errors.PyroError")]


class _Names(V):
    """a name set of the proxy as far as this function looks at it: empty or not"""
    __slots__ = ("nonempty",)

    def __init__(self, nonempty):
        self.nonempty = nonempty

    def truth_term(self):
        return self.nonempty


R.glob("Pyro5.core.DAEMON_NAME", VStr("Pyro.Daemon"), "the reserved id of the daemon's own object")


@R.contract
class GetMetadataClient(Contract):
    name = "Pyro5.client.Proxy._pyroGetMetadata#body"
    real_name = "Pyro5.client.Proxy._pyroGetMetadata"
    props = ("C03", "C02")
    variants = ("ask-the-daemon", "known-metadata")
    raises = {"builtins.Exception": "x_any"}
    raises_any_subclass = ("builtins.Exception",)
    no_join = True
    log_calls = False
    trusted = ("Proxy._pyroInvoke, __pyroCreateConnection and __processMetadata by their declared interfaces (bodies: contracts/client_invoke.py, client_connect.py)",)

    def setup(self, E, st):
        p = st.new_obj("Pyro5.client.Proxy")
        self.connected = z3.Bool("already_connected")
        st.set(p, "_pyroConnection", VOpt(z3.Not(self.connected), VOpaque(z3.Const("existing_connection", U))))
        st.set(p, "_pyroMethods", _Names(z3.Bool("has_methods")))
        st.set(p, "_pyroAttrs", _Names(z3.Bool("has_attrs")))
        st.set(p, "_pyroUri", st.new_obj("Pyro5.core.URI", object=VOpaque(z3.Const("uri_object", U))))
        self.oid = VOpaque(z3.Const("objectId", U))
        self.known = VOpaque(z3.Const("known_metadata", U)) if self.variant == "known-metadata" else NONE
        if self.variant == "known-metadata":
            st.assume(self.known.e != U_NONE, truthy(self.known.e))
        return {"self": p, "objectId": self.oid, "known_metadata": self.known}

    def shape(self, st):
        inv = [e for e in st.events if e[0] == "_pyroInvoke"]
        con = [e for e in st.events if e[0] == "create_connection"]
        proc = [e for e in st.events if e[0] == "process_metadata"]
        return inv, con, proc

    def clauses(self, st):
        inv, con, proc = self.shape(st)
        post = [("at most one connection attempt and at most one remote request", z3.BoolVal(len(con) <= 1 and len(inv) <= 1)),
                ("metadata is processed at most once", z3.BoolVal(len(proc) <= 1))]
        if self.variant == "known-metadata":
            post.append(("metadata that is already known is used as it is: nothing is connected, nothing is asked", z3.BoolVal(not inv and not con)))
            post.append(("... and it is what gets processed", z3.BoolVal(all(isinstance(e[1], VOpaque) and z3.eq(e[1].e, self.known.e) for e in proc))))
        for e in inv:
            args, kw = e[1], e[2]
            ok = len(args) == 3 and isinstance(args[0], VStr) and isinstance(args[1], VList) and len(args[1].items) == 1 and set(kw) == {"objectId"} and isinstance(kw["objectId"], VStr)
            post.append(("the one request is get_metadata(<the object id>) addressed to the daemon's own object", z3.And(
                args[0].e == z3.StringVal("get_metadata"), kw["objectId"].e == z3.StringVal("Pyro.Daemon")) if ok else z3.BoolVal(False)))
        return post

    def ensures(self, E, old, st, a, result):
        return self.clauses(st)

    def x_any(self, E, old, st, a, exc):
        return self.clauses(st)


set_of = z3.Function("set_of_names", U, U)
R.glob("logging.DEBUG", VInt(10), "logging.DEBUG == 10")


@R.spec("builtins.set", doc="set(<opaque iterable>): the set of its elements (uninterpreted), or TypeError when it is not iterable")
def set_of_opaque(E, st, args, kw):
    if len(args) == 1 and isinstance(args[0], VOpaque):
        r = set_of(args[0].e)
        st.assume(r != U_NONE)
        return [Res(st, VOpaque(r)), E.raise_(st.fork(), "builtins.TypeError")]
    raise Unsupported("set(%r)" % (args,))


@R.spec("builtins.sorted", doc="sorted(x): only used in a debug log line")
def sorted_any(E, st, args, kw):
    return [Res(st, VOpaque(fresh("sorted", U)))]


@R.contract
class ProcessMetadata(Contract):
    name = "Pyro5.client.Proxy.__processMetadata#body"
    real_name = "Pyro5.client.Proxy.__processMetadata"
    props = ("C02", "C03")
    raises = {"Pyro5.errors.PyroError": "x_nothing_exposed", "builtins.Exception": "x_malformed"}
    raises_any_subclass = ("builtins.Exception",)
    no_join = True
    log_calls = False
    trusted = ("the metadata is an opaque mapping (what the daemon's get_metadata sent): a missing key / non-iterable value raises; logging is dropped",)

    def setup(self, E, st):
        p = st.new_obj("Pyro5.client.Proxy")
        for n in ("_pyroOneway", "_pyroMethods", "_pyroAttrs"):
            st.set(p, n, VOpaque(z3.Const("old" + n, U)))
        st.set(p, "_pyroUri", VOpaque(z3.Const("uri", U)))
        self.p = p
        self.md = VOpaque(z3.Const("metadata", U))
        return {"self": p, "metadata": self.md}

    def member(self, k):
        from specs.opaque import u_getitem
        return set_of(u_getitem(self.md.e, box_str(z3.StringVal(k))))

    def ensures(self, E, old, st, a, result):
        given = z3.And(self.md.e != U_NONE, truthy(self.md.e))
        same = z3.And(*[st.get(self.p, n).e == old.get(self.p, n).e for n in ("_pyroOneway", "_pyroMethods", "_pyroAttrs")])
        took = z3.And(st.get(self.p, "_pyroOneway").e == self.member("oneway"), st.get(self.p, "_pyroMethods").e == self.member("methods"),
                      st.get(self.p, "_pyroAttrs").e == self.member("attrs"))
        return [("empty / absent metadata changes nothing; otherwise the proxy's three name sets become exactly the sets of the metadata's oneway / methods / attrs entries",
                 z3.If(given, took, same)),
                ("metadata that exposes nothing is never accepted silently", z3.Implies(given, z3.Or(truthy(self.member("methods")), truthy(self.member("attrs")))))]

    def x_nothing_exposed(self, E, old, st, a, exc):
        # (a PyroError can also come out of reading a malformed metadata mapping; the direction that matters is the postcondition: never accepted silently)
        return []

    def x_malformed(self, E, old, st, a, exc):
        return []
