"""Sidecar contracts for nameserver.MemoryStorage (C14): the in-memory back-end REFINES the storage interface Sigma that the NameServer contracts
assume (specs/storage_model.py) - proved for the methods MemoryStorage defines itself (__setitem__, remove_items, the three optimized_* queries,
everything(return_metadata=True)); lookup, deletion, membership, length and iteration are inherited unchanged from dict (CPython's dict is assumed).

State of a MemoryStorage object = the same abstract state sigma as Sigma: dom (set of names), uri, meta (tag set per name), card."""
import z3
from pyvc.values import *
from pyvc.engine import Contract, Res, Unsupported
from pyvc.registry import R
from specs.storage_model import _Meta, MetaS, _nonempty, new_sdict

EMPTY = z3.K(StrS, z3.BoolVal(False))
MS = "Pyro5.nameserver.MemoryStorage"


def new_memory_storage(st, name="mem"):
    s = st.new_obj(MS, dom=z3.Const(name + "_dom", z3.ArraySort(StrS, BoolS)), uri=z3.Const(name + "_uri", z3.ArraySort(StrS, StrS)),
                   meta=z3.Const(name + "_meta", z3.ArraySort(StrS, MetaS)), card=z3.Const(name + "_card", IntS),
                   enum=z3.Const(name + "_enum", z3.ArraySort(IntS, StrS)))
    st.assume(st.get(s, "card") >= 0)
    return s


def _k(v):
    return v.val if isinstance(v, VOpt) else v


@R.model(MS)
class MemoryStorageModel:
    """a MemoryStorage IS a dict: `in`, [] , del, len, copy() are dict's own operations on its state (assumed: CPython dict semantics)"""

    def getattr(self, E, st, obj, name):
        return None

    def contains(self, E, st, obj, item):
        item = _k(item)
        return z3.Select(st.get(obj, "dom"), item.e) if isinstance(item, VStr) else z3.BoolVal(False)

    def m_delitem(self, E, st, obj, args, kw):
        k = _k(args[0])
        out = []
        for s2, ok in E.branch(st, z3.Select(st.get(obj, "dom"), k.e)):
            if ok:
                s2.set(obj, "dom", z3.Store(s2.get(obj, "dom"), k.e, z3.BoolVal(False)))
                s2.set(obj, "card", s2.get(obj, "card") - 1)
                out.append(Res(s2, NONE))
            else:
                out.append(E.raise_(s2, "builtins.KeyError"))
        return out

    def m_copy(self, E, st, obj, args, kw):
        d = st.new_obj("sdict", dom=st.get(obj, "dom"), uri=st.get(obj, "uri"), meta=st.get(obj, "meta"), card=st.get(obj, "card"), enum=st.get(obj, "enum"))
        return [Res(st, d)]

    methods = {"__delitem__": m_delitem, "copy": m_copy}


@R.spec("builtins.super", doc="super(MemoryStorage, self): the dict operations on the same object")
def b_super(E, st, args, kw):
    if len(args) == 2 and isinstance(args[1], VObj) and args[1].cls == MS:
        return [Res(st, st.new_obj("dict_super", of=args[1]))]
    raise Unsupported("super(%r)" % (args,))


@R.model("dict_super")
class DictSuper:
    """dict.__setitem__(key, (uri, tags)) on the MemoryStorage's own state"""

    def getattr(self, E, st, obj, name):
        return None

    def m_setitem(self, E, st, obj, args, kw):
        o = st.get(obj, "of")
        k, v = _k(args[0]), args[1]
        if not (isinstance(v, VTuple) and len(v.items) == 2):
            raise Unsupported("dict value %r" % (v,))
        uri, meta = v.items
        if not isinstance(meta, _Meta):
            raise Unsupported("stored tag set %r" % (meta,))
        had = z3.Select(st.get(o, "dom"), k.e)
        st.set(o, "card", z3.If(had, st.get(o, "card"), st.get(o, "card") + 1))
        st.set(o, "dom", z3.Store(st.get(o, "dom"), k.e, z3.BoolVal(True)))
        st.set(o, "uri", z3.Store(st.get(o, "uri"), k.e, uri.e))
        st.set(o, "meta", z3.Store(st.get(o, "meta"), k.e, meta.e))
        return [Res(st, NONE)]

    methods = {"__setitem__": m_setitem}


@R.spec("builtins.frozenset", doc="frozenset(): the empty tag set")
def b_frozenset(E, st, args, kw):
    if not args:
        return [Res(st, _Meta(EMPTY))]
    raise Unsupported("frozenset(%r)" % (args,))


def falsy_set_is_empty(m):
    """Python: a set is falsy exactly when it is empty"""
    return z3.Implies(z3.Not(_nonempty(m)), m == EMPTY)


class _MSBase(Contract):
    props = ("C14",)
    raises = {}
    no_join = True

    def base(self, E, st):
        self.s = new_memory_storage(st)
        return self.s


@R.contract
class MemSetItem(_MSBase):
    """MemoryStorage.__setitem__(key, (uri, metadata)): exactly Sigma's store - the name is present afterwards with this uri and exactly the given tags
    (no tags for None / an empty collection), every other name untouched, the count grows by one exactly for a new name"""
    name = MS + ".__setitem__"
    variants = ("tags", "none")
    trusted = ("a set is falsy exactly when it is empty",)

    def setup(self, E, st):
        s = self.base(E, st)
        self.key = VStr(z3.Const("name", StrS))
        self.uri = VStr(z3.Const("uri", StrS))
        self.m = z3.Const("tags", MetaS)
        st.assume(falsy_set_is_empty(self.m))
        meta = _Meta(self.m) if self.variant == "tags" else NONE
        return {"self": s, "key": self.key, "value": VTuple([self.uri, meta])}

    def ensures(self, E, old, st, a, result):
        s, k = self.s, self.key.e
        want_m = self.m if self.variant == "tags" else EMPTY
        had = z3.Select(old.get(s, "dom"), k)
        return [("dom' = dom + {name}", st.get(s, "dom") == z3.Store(old.get(s, "dom"), k, z3.BoolVal(True))),
                ("uri' = uri[name := uri]", st.get(s, "uri") == z3.Store(old.get(s, "uri"), k, self.uri.e)),
                ("meta' = meta[name := the given tags (none given: the empty set)]", st.get(s, "meta") == z3.Store(old.get(s, "meta"), k, want_m)),
                ("the count grows by one exactly for a new name", st.get(s, "card") == z3.If(had, old.get(s, "card"), old.get(s, "card") + 1))]


@R.contract
class MemOptimized(_MSBase):
    """the three optimized_* queries answer None ('not optimised': the NameServer then filters everything() itself) and touch nothing"""
    name = MS + ".optimized_prefix_list"

    def setup(self, E, st):
        s = self.base(E, st)
        return {"self": s, "prefix": VStr(z3.Const("prefix", StrS)), "return_metadata": VBool(z3.Bool("return_metadata"))}

    def ensures(self, E, old, st, a, result):
        s = self.s
        return [("answers None", z3.BoolVal(isinstance(result, VNone))),
                ("the state is untouched", z3.And(*[st.get(s, f) == old.get(s, f) for f in ("dom", "uri", "meta", "card")]))]


@R.contract
class MemOptimizedRegex(MemOptimized):
    name = MS + ".optimized_regex_list"

    def setup(self, E, st):
        s = self.base(E, st)
        return {"self": s, "regex": VStr(z3.Const("regex", StrS)), "return_metadata": VBool(z3.Bool("return_metadata"))}


@R.contract
class MemOptimizedMeta(MemOptimized):
    name = MS + ".optimized_metadata_search"

    def setup(self, E, st):
        s = self.base(E, st)
        return {"self": s, "metadata_all": VOpaque(z3.Const("metadata_all", U)), "metadata_any": VOpaque(z3.Const("metadata_any", U)),
                "return_metadata": VBool(z3.Bool("return_metadata"))}


@R.contract
class MemEverythingMeta(_MSBase):
    """everything(return_metadata=True): a copy of the whole mapping (a new dict with exactly the entries of the storage); the storage itself untouched"""
    name = MS + ".everything"

    def setup(self, E, st):
        s = self.base(E, st)
        return {"self": s, "return_metadata": VBool(True)}

    def ensures(self, E, old, st, a, result):
        s = self.s
        ok = isinstance(result, VObj) and result.cls == "sdict" and result.ref != s.ref
        post = [("a new dict is returned (not the storage itself)", z3.BoolVal(ok))]
        if ok:
            post.append(("with exactly the names, uris and tag sets of the storage", z3.And(*[st.get(result, f) == old.get(s, f) for f in ("dom", "uri", "meta", "card")])))
        post.append(("the state is untouched", z3.And(*[st.get(s, f) == old.get(s, f) for f in ("dom", "uri", "meta", "card")])))
        return post


@R.contract
class MemRemoveItems(_MSBase):
    """remove_items(names): afterwards exactly the listed names are gone - every name not listed keeps its presence, uri and tags (loop invariant over the
    visited prefix of the list); listed names that are absent are skipped without error"""
    name = MS + ".remove_items"

    def setup(self, E, st):
        s = self.base(E, st)
        self.n = z3.Int("n_items")
        self.items = z3.Const("items", z3.ArraySort(IntS, StrS))
        st.assume(self.n >= 0)
        lst = st.new_obj("name_list", n=VInt(self.n), items=self.items)
        return {"self": s, "items": lst}

    def listed_before(self, x, idx):
        i = z3.Int("i!listed")
        return z3.Exists([i], z3.And(0 <= i, i < idx, self.items[i] == x))

    def ensures(self, E, old, st, a, result):
        s = self.s
        x = z3.Const("x!post", StrS)
        return [("a name is present afterwards exactly if it was present and is not in the list",
                 z3.ForAll([x], z3.Select(st.get(s, "dom"), x) == z3.And(z3.Select(old.get(s, "dom"), x), z3.Not(self.listed_before(x, self.n))))),
                ("uris and tag sets are not touched", z3.And(st.get(s, "uri") == old.get(s, "uri"), st.get(s, "meta") == old.get(s, "meta")))]

    def loop_modifies(self, k, E, st, a):
        return [(self.s, "dom"), (self.s, "card")]

    def loop_inv(self, k, E, old, st, a):
        s = self.s
        idx = st.ghost["idx%d" % k].e
        x = z3.Const("x!inv", StrS)
        return [("index in range", z3.And(0 <= idx, idx <= self.n)),
                ("present = was present and not among the names visited so far",
                 z3.ForAll([x], z3.Select(st.get(s, "dom"), x) == z3.And(z3.Select(old.get(s, "dom"), x), z3.Not(self.listed_before(x, idx))))),
                ("uris and tag sets are not touched", z3.And(st.get(s, "uri") == old.get(s, "uri"), st.get(s, "meta") == old.get(s, "meta")))]


@R.model("name_list")
class NameList:
    """a list of names items[0..n)"""

    def getattr(self, E, st, obj, name):
        return None

    def iter_spec(self, E, st, obj):
        items = st.get(obj, "items")
        return st.get(obj, "n").e, (lambda j: VStr(z3.Select(items, j)))

    methods = {}
