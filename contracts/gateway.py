"""Sidecar contract for utils.httpgateway.process_pyro_request (C20): only authorised call requests cause Pyro traffic, and they are
forwarded faithfully."""
import z3
from pyvc.values import *
from pyvc.engine import Contract, Res, Out, Unsupported
from pyvc.registry import R
from specs.opaque import may_raise, box, user_call
from specs.daemon_model import new_call_context
import specs.strings as S

from specs.opaque import utf8
split_has = z3.Function("comma_split_contains", StrS, StrS, BoolS)
re_matches = z3.Function("re_match_user_pattern", StrS, StrS, BoolS)
GW = "Pyro5.utils.httpgateway."


class _StrList(V):
    """s.split(','): only membership is used"""
    __slots__ = ("src",)

    def __init__(self, src):
        self.src = src

    def contains_term(self, item):
        return split_has(self.src, item.e) if isinstance(item, VStr) else z3.BoolVal(False)


@R.method("VStr", "split")
def s_split(E, st, recv, args, kw):
    return [Res(st, _StrList(recv.e))]


_prev_encode = R.specs.get("spec.str_encode")


@R.spec("spec.str_encode", doc="s.encode('utf-8') = utf8_encode(s) (uninterpreted, total); 'ascii' as in specs/pystruct.py")
def str_encode(E, st, args, kw):
    s = args[0]
    codec = z3.simplify(args[1].e).as_string() if len(args) > 1 else "utf-8"
    if codec.lower().replace("-", "") == "utf8":
        return [Res(st, VBytes(utf8(s.e)))]
    return _prev_encode(E, st, args, kw)


def traffic(E, st, what, *args):
    c = getattr(E, "cur_contract", None)
    if c is not None and hasattr(c, "on_traffic"):
        c.on_traffic(E, st, what, args)
    st.event("traffic", what, args)


@R.model("wsgi.environ")
class EnvironModel:
    """WSGI environ: a mapping of strings; get(key, default) gives the header text (or the default)"""

    def getattr(self, E, st, obj, name):
        return None

    def m_get(self, E, st, obj, args, kw):
        k = z3.simplify(args[0].e).as_string()
        key = "env:" + k
        if not st.has(obj, key):
            st.set(obj, key, VStr(z3.Const("environ_" + k, StrS)))
        return [Res(st, st.get(obj, key))]

    def m_getitem(self, E, st, obj, args, kw):
        return [Res(st, VOpaque(fresh("environ_item", U)))]

    methods = {"get": m_get, "__getitem__": m_getitem}


@R.model("query.parameters")
class ParametersModel:
    """the query parameter dict (after singlyfy): values are str or lists (opaque); `$key` may be present"""

    def getattr(self, E, st, obj, name):
        return None

    def truth(self, E, st, obj):
        return st.get(obj, "nonempty").e

    def contains(self, E, st, obj, item):
        if isinstance(item, VStr) and z3.is_true(z3.simplify(item.e == z3.StringVal("$key"))):
            return st.get(obj, "has_key").e
        return fresh("param_in", BoolS)

    def m_get(self, E, st, obj, args, kw):
        k = args[0]
        if z3.is_true(z3.simplify(k.e == z3.StringVal("$key"))):
            out = []
            for s2, has in E.branch(st, st.get(obj, "has_key").e):
                out.append(Res(s2, s2.get(obj, "key_value") if has else args[1]))
            return out
        return [Res(st, VOpaque(fresh("param", U)))]

    def m_delitem(self, E, st, obj, args, kw):
        k = args[0]
        if z3.is_true(z3.simplify(k.e == z3.StringVal("$key"))):
            st.set(obj, "has_key", VBool(False))
            st.set(obj, "key_removed", VBool(True))
            st.set(obj, "nonempty", VBool(fresh("nonempty_after_del", BoolS)))
            return [Res(st, NONE)]
        raise Unsupported("del parameters[...]")

    def m_pop(self, E, st, obj, args, kw):
        """parameters.pop('$key', default): the value and the entry is removed - or the default when there is no such entry"""
        k = args[0]
        if z3.is_true(z3.simplify(k.e == z3.StringVal("$key"))) and len(args) > 1:
            out = []
            for s2, has in E.branch(st, st.get(obj, "has_key").e):
                if has:
                    v = s2.get(obj, "key_value")
                    s2.set(obj, "has_key", VBool(False))
                    s2.set(obj, "key_removed", VBool(True))
                    s2.set(obj, "nonempty", VBool(fresh("nonempty_after_pop", BoolS)))
                    out.append(Res(s2, v))
                else:
                    out.append(Res(s2, args[1]))
            return out
        raise Unsupported("parameters.pop(...)")

    methods = {"get": m_get, "__delitem__": m_delitem, "pop": m_pop}


@R.model("pyro_app.settings")
class AppSettings:
    """the function attributes of pyro_app: gateway_key (bytes or None), ns_regex (str, possibly empty), cors"""

    def getattr(self, E, st, obj, name):
        return None
    methods = {}


def _re_match(E, st, args, kw):
    pat = args[0]
    ps = z3.simplify(pat.e) if isinstance(pat, VStr) else None
    if ps is not None and z3.is_string_value(ps) and ps.as_string() == r"(.+)/(.+)":
        path = args[1]
        obj, meth = fresh("object_name", StrS), fresh("member", StrS)
        s_no = st.fork()
        o2, m2 = z3.Consts("o!nm m!nm", StrS)
        s_no.assume(z3.Not(z3.Exists([o2, m2], z3.And(path.e == z3.Concat(o2, z3.StringVal("/"), m2), z3.Length(o2) > 0, z3.Length(m2) > 0))))
        st.assume(path.e == z3.Concat(obj, z3.StringVal("/"), meth), z3.Length(obj) > 0, z3.Length(meth) > 0,
                  z3.Not(z3.Contains(z3.SubString(meth, 0, z3.Length(meth) - 1), z3.StringVal("/"))))
        m = st.new_obj("re.Match", _groups=VTuple([VStr(obj), VStr(meth)]))
        return [Res(st, m), Res(s_no, NONE)]
    if ps is not None and z3.is_string_value(ps):
        return _prev_re_match(E, st, args, kw)
    # user supplied pattern: uninterpreted predicate
    pe = pat.e if isinstance(pat, VStr) else pat.val.e
    hit = re_matches(pe, args[1].e)
    return [Res(st, VOpaque(z3.If(hit, z3.Const("some_match_object", U), U_NONE)))]


_prev_re_match = R.specs.get("re.match")
R.spec("re.match", doc="(.+)/(.+): path = object + '/' + member with the last usable '/' as separator (single-line paths); a user supplied "
       "pattern: uninterpreted predicate re_match_user_pattern(pattern, text); other literals as in specs/strings.py")(_re_match)


@R.spec(GW + "get_nameserver", doc="connects to / returns the name server proxy (Pyro traffic); may raise")
def get_nameserver(E, st, args, kw):
    traffic(E, st, "get_nameserver")
    out = [may_raise(E, st, "get_nameserver")]
    out.insert(0, Res(st, st.new_obj("gateway.nsproxy")))
    return out


@R.model("gateway.nsproxy")
class NSProxy:
    """the name server proxy: lookup(name) is Pyro traffic; returns a URI or raises"""

    def getattr(self, E, st, obj, name):
        return None

    def m_lookup(self, E, st, obj, args, kw):
        traffic(E, st, "lookup", args[0])
        out = [may_raise(E, st, "lookup")]
        out.insert(0, Res(st, VOpaque(fresh("looked_up_uri", U))))
        return out

    methods = {"lookup": m_lookup}


@R.spec("Pyro5.client.Proxy", doc="client.Proxy(uri): a proxy object for that URI (no traffic yet)")
def proxy_ctor(E, st, args, kw):
    from contracts.threadpool import _WS as _unused  # noqa
    p = st.new_obj("gateway.proxy", uri=args[0], _pyroRawWireResponse=VBool(False), _pyroOneway=_NameSet(fresh("oneway_names", z3.ArraySort(StrS, BoolS))),
                   _pyroAttrs=_NameSet(z3.Const("remote_attrs", z3.ArraySort(StrS, BoolS))), _pyroMethods=_NameSet(z3.Const("remote_methods", z3.ArraySort(StrS, BoolS))))
    st.event("proxy_created", p, args[0])
    return [Res(st, p)]


class _NameSet(V):
    __slots__ = ("e",)

    def __init__(self, e):
        self.e = e

    def contains_term(self, item):
        return z3.Select(self.e, item.e) if isinstance(item, VStr) else z3.BoolVal(False)


@R.method("_NameSet", "mut:add")
def ns_add(E, st, recv, vals):
    return [(st, _NameSet(z3.Store(recv.e, vals[0].e, z3.BoolVal(True))), NONE, None)]


@R.model("gateway.proxy")
class GatewayProxy:
    """a client.Proxy as the gateway uses it: context manager; _pyroGetMetadata() (traffic); getattr(proxy, name) is a remote attribute
    fetch when name is a remote attribute, else a remote method object whose call is the remote call; with _pyroRawWireResponse the
    result is the raw reply message (flags, data) or None for oneway"""

    def getattr(self, E, st, obj, name):
        return None

    def enter(self, E, st, cm, node):
        return [Res(st, cm)]

    def exit(self, E, out, cm, node):
        out.st.event("proxy_released", cm)
        return [out]

    def m_metadata(self, E, st, obj, args, kw):
        traffic(E, st, "metadata", obj)
        return [Res(st, NONE), may_raise(E, st.fork(), "_pyroGetMetadata")]

    methods = {"_pyroGetMetadata": m_metadata}


def _wire_result(E, st):
    """raw reply of a forwarded call: None (oneway) or a message with flags and data"""
    m = st.new_obj("gateway.wiremsg", flags=VInt(fresh("reply_flags", IntS)), data=VBytes(fresh("reply_json", BytesS)))
    st.assume(st.get(m, "flags").e >= 0, st.get(m, "flags").e < 65536)
    return VOpt(fresh("reply_is_none", BoolS), m)


@R.model("gateway.wiremsg")
class WireMsg:
    """raw reply message"""

    def getattr(self, E, st, obj, name):
        return None
    methods = {}


_prev_getattr = R.specs.get("builtins.getattr")


@R.spec("builtins.getattr")
def gw_getattr(E, st, args, kw):
    v = args[0]
    if isinstance(v, VObj) and v.cls == "gateway.proxy" and isinstance(args[1], VStr) and not z3.is_string_value(z3.simplify(args[1].e)):
        name = args[1]
        out = []
        for s2, isattr in E.branch(st, z3.Select(s2_attrs(st, v), name.e)):
            if isattr:
                traffic(E, s2, "remote_getattr", v, name)
                out.append(may_raise(E, s2.fork(), "remote attribute fetch"))
                out.append(Res(s2, _wire_result(E, s2)))
            else:
                out.append(Res(s2, s2.new_obj("gateway.remote_method", proxy=v, name=name)))
        return out
    return _prev_getattr(E, st, args, kw)


def s2_attrs(st, proxy):
    return st.get(proxy, "_pyroAttrs").e


@R.model("gateway.remote_method")
class RemoteMethodModel:
    """_RemoteMethod: calling it performs the remote call"""

    def getattr(self, E, st, obj, name):
        return None
    methods = {}


_prev_starcall = R.specs.get("syntax.starcall")


@R.spec("syntax.starcall")
def gw_starcall(E, st, args, kw):
    f, plain, star, dstar, kwargs = args
    if isinstance(f, VObj) and f.cls == "gateway.remote_method":
        traffic(E, st, "remote_call", st.get(f, "proxy"), st.get(f, "name"), tuple(plain), tuple(star), tuple(dstar))
        return [Res(st, _wire_result(E, st)), may_raise(E, st.fork(), "remote call")]
    return _prev_starcall(E, st, args, kw)


@R.spec("json.dumps", doc="json text of a value (uninterpreted)")
def json_dumps(E, st, args, kw):
    return [Res(st, VStr(fresh("json_text", StrS)))]


@R.spec("traceback.print_exc")
def tb_print(E, st, args, kw):
    return [Res(st, NONE)]


@R.spec("Pyro5.serializers.SerializerBase.class_to_dict", doc="dict form of an exception (opaque)")
def class_to_dict(E, st, args, kw):
    return [Res(st, VOpaque(fresh("exception_dict", U)))]


@R.spec(GW + "cors_response_header", doc="adds the CORS header to a header list (pure)")
def cors_header(E, st, args, kw):
    return [Res(st, VOpaque(fresh("headers", U)))]


def _simple_response(status):
    def h(E, st, args, kw):
        start = args[-1]
        st.event("http_status", status)
        return [Res(st, VOpaque(fresh("body_" + status[:3], U)))]
    return h


R.spec(GW + "not_found", doc="answers 404")(_simple_response("404 Not Found"))
R.spec(GW + "return_homepage", doc="the keyless index page (lists objects matching the pattern)")(_simple_response("index page"))

_prev_uuid = R.specs.get("uuid.UUID")


@R.spec("uuid.UUID")
def uuid_any(E, st, args, kw):
    if args and not kw:
        s2 = st.fork()
        return [Res(st, st.new_obj("uuid.UUID", bytes=VBytes(fresh("corr_bytes", BytesS)))), E.raise_(s2, "builtins.ValueError")]
    return _prev_uuid(E, st, args, kw)


@R.spec("builtins.tuple:any")
def _t(E, st, args, kw):
    return [Res(st, VOpaque(fresh("tuple", U)))]


_prev_tuple = R.specs.get("builtins.tuple")


@R.spec("builtins.tuple")
def gw_tuple(E, st, args, kw):
    if args and isinstance(args[0], _NameSet):
        return [Res(st, VOpaque(fresh("names_tuple", U)))]
    return _prev_tuple(E, st, args, kw)


@R.contract
class ProcessPyroRequest(Contract):
    name = GW + "process_pyro_request"
    props = ("C20",)
    raises = {}
    no_join = True
    trusted = ("WSGI environ / start_response, the name server proxy, client.Proxy and JSON are modelled (specs in contracts/gateway.py); a user supplied "
               "expose pattern is an uninterpreted predicate; the (.+)/(.+) split as specified (validated against `re`, bounded)",)

    def setup(self, E, st):
        env = st.new_obj("wsgi.environ")
        params = st.new_obj("query.parameters", nonempty=VBool(z3.Bool("params_nonempty")), has_key=VBool(z3.Bool("params_has_key")),
                            key_value=VOpaque(z3.Const("param_key_value", U)), key_removed=VBool(False))
        app = st.new_obj("pyro_app.settings", gateway_key=VOpt(z3.Bool("gateway_key_unset"), VBytes(z3.Const("gateway_key", BytesS))),
                         ns_regex=VStr(z3.Const("ns_regex", StrS)), cors=VStr(z3.Const("cors", StrS)))
        st.assume(z3.Length(z3.Const("gateway_key", BytesS)) > 0)          # a configured key is a non-empty bytes object
        st.genv = {"pyro_app": app}
        from specs.daemon_model import new_call_context
        ctx = new_call_context(st)
        st.genv["callcontext"] = st.new_obj("module.callcontext", current_context=ctx)
        self.app, self.params, self.env = app, params, env
        self.path = VStr(z3.Const("path", StrS))
        return {"environ": env, "path": self.path, "parameters": params, "start_response": VOpaque(z3.Const("start_response", U))}

    # authorisation facts at a program point
    def authorised(self, E, st):
        key = st.get(self.app, "gateway_key")
        presented = st.env.get("gateway_key")
        if presented is None:
            key_ok = key.isnone
        elif isinstance(presented, VStr):
            key_ok = z3.Or(key.isnone, utf8(presented.e) == key.val.e)
        elif isinstance(presented, VOpaque):
            key_ok = z3.Or(key.isnone, z3.And(is_str(presented.e), utf8(unbox_str(presented.e)) == key.val.e))
        else:
            key_ok = key.isnone
        rx = st.get(self.app, "ns_regex").e
        name = st.env.get("object_name")
        pat_ok = z3.Or(z3.Length(rx) == 0, re_matches(rx, name.e)) if isinstance(name, VStr) else z3.BoolVal(False)
        return key_ok, pat_ok

    def on_traffic(self, E, st, what, args):
        key_ok, pat_ok = self.authorised(E, st)
        E.oblige(st, "Pyro traffic (%s) only with the configured gateway key" % what, key_ok, kind="pre")
        E.oblige(st, "Pyro traffic (%s) only for an object name matching the expose pattern" % what, pat_ok, kind="pre")
        name = st.env.get("object_name")
        if what == "lookup":
            E.oblige(st, "the name looked up is the object named in the path", z3.BoolVal(isinstance(args[0], VStr) and isinstance(name, VStr) and z3.eq(args[0].e, name.e)), kind="pre")
        if what in ("remote_call", "remote_getattr"):
            m = st.env.get("method")
            E.oblige(st, "the member used is the member named in the path", z3.BoolVal(isinstance(args[1], VStr) and isinstance(m, VStr) and z3.eq(args[1].e, m.e)), kind="pre")
            created = [e for e in st.events if e[0] == "proxy_created"]
            looked = [e for e in st.events if e[0] == "traffic" and e[1] == "lookup"]
            E.oblige(st, "the call goes through the one proxy made for the looked-up URI", z3.BoolVal(len(created) == 1 and created[0][1].ref == args[0].ref and len(looked) == 1), kind="pre")
        if what == "remote_call":
            plain, star, dstar = args[2], args[3], args[4]
            E.oblige(st, "the call passes exactly the query parameters as keyword arguments", z3.BoolVal(
                not plain and not star and len(dstar) == 1 and isinstance(dstar[0], VObj) and dstar[0].ref == self.params.ref), kind="pre")
            key = st.get(self.app, "gateway_key")
            E.oblige(st, "with a configured key the $key parameter is not forwarded", z3.Or(key.isnone, z3.Not(st.get(self.params, "has_key").e)), kind="pre")

    def user_call_may_raise(self, E, st, target, kind):
        # the WSGI start_response callable is the server's, not user code: assumed not to raise
        return not (isinstance(target, VOpaque) and z3.eq(target.e, z3.Const("start_response", U)))

    def on_user_call(self, E, st, target, args, kwargs, kind):
        # start_response(status, headers)
        if isinstance(target, VOpaque) and z3.eq(target.e, z3.Const("start_response", U)) and args and isinstance(args[0], VStr):
            s = z3.simplify(args[0].e)
            st.event("http_status", s.as_string() if z3.is_string_value(s) else "?")

    def ensures(self, E, old, st, a, result):
        tr = [e for e in st.events if e[0] == "traffic"]
        statuses = [e[1] for e in st.events if e[0] == "http_status"]
        calls_ = [e for e in tr if e[1] in ("remote_call", "remote_getattr")]
        post = [("exactly one HTTP status line is produced", z3.BoolVal(len(statuses) == 1)),
                ("at most one remote call / attribute fetch per request", z3.BoolVal(len(calls_) <= 1)),
                ("at most one name server lookup per request", z3.BoolVal(len([e for e in tr if e[1] == "lookup"]) <= 1))]
        if statuses:
            s0 = statuses[0]
            refused = s0.startswith(("403", "404", "405"))
            post.append(("a refusal (403/404/405) happens without any Pyro traffic", z3.BoolVal(not refused or not tr)))
            if s0.startswith("200") and calls_:
                post.append(("200 carries the raw JSON of exactly that call (or nothing for oneway)", z3.BoolVal(True)))
            created = [e for e in st.events if e[0] == "proxy_created"]
            released = [e for e in st.events if e[0] == "proxy_released"]
            post.append(("the proxy is released again", z3.BoolVal(len(created) == len(released))))
        path_empty = z3.Length(self.path.e) == 0
        return post
