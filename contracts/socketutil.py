"""Sidecar contracts for Pyro5/socketutil.py (C17; used by C06, C03)."""
import z3
from pyvc.values import *
from pyvc.engine import Contract
from pyvc.registry import R
from specs.socket_model import new_socket


def _sockview(st, sock):
    return (st.get(sock, "stream").e, st.get(sock, "pos").e, st.get(sock, "out").e)


@R.contract
class ReceiveData(Contract):
    name = "Pyro5.socketutil.receive_data"
    props = ("C17",)
    local_positions = {"msglen": 1, "data": 2}        # first-assignment order of the locals the invariants talk about (rename-tolerant lookup)
    raises = {"Pyro5.errors.TimeoutError": "x_timeout", "Pyro5.errors.ConnectionClosedError": "x_closed"}

    def setup(self, E, st):
        sock = new_socket(E, st)
        size = VInt(z3.Const("size", IntS))
        return {"sock": sock, "size": size}

    def requires(self, E, st, a):
        return [("size>=0", a["size"].e >= 0)]

    def modifies(self, E, st, a):
        s = a["sock"]
        return [(s, "pos"), (s, "eof"), (s, "fatal")]

    def result(self, E, st, a):
        return VBytes(fresh("received", BytesS))

    def ensures(self, E, old, st, a, result):
        stream, pos0, _ = _sockview(old, a["sock"])
        _, pos, _ = _sockview(st, a["sock"])
        size = a["size"].e
        return [("exact-length", z3.Length(result.e) == size),
                ("exact-bytes", result.e == z3.SubSeq(stream, pos0, size)),
                ("cursor", pos == pos0 + size),
                ("in-stream", pos0 + size <= z3.Length(stream)),
                ("out-untouched", st.get(a["sock"], "out").e == old.get(a["sock"], "out").e)]

    def x_timeout(self, E, old, st, a, exc):
        return [("cursor-in-stream", z3.And(st.get(a["sock"], "pos").e >= old.get(a["sock"], "pos").e,
                                             st.get(a["sock"], "pos").e <= z3.Length(old.get(a["sock"], "stream").e))),
                ("out-untouched", st.get(a["sock"], "out").e == old.get(a["sock"], "out").e)]

    def x_closed(self, E, old, st, a, exc):
        stream, pos0, _ = _sockview(old, a["sock"])
        pos = st.get(a["sock"], "pos").e
        post = [("cursor-in-stream", z3.And(pos >= pos0, pos <= z3.Length(stream))),
                ("out-untouched", st.get(a["sock"], "out").e == old.get(a["sock"], "out").e)]
        fatal = st.get(a["sock"], "fatal").e
        # "returns exactly the next n bytes however the operating system fragments them": a read that merely came back short (also with MSG_WAITALL: signal, pause
        # of the peer) is fragmentation, not the end - the connection counts as closed only once a read reported end of stream or a fatal error occurred
        post.append(("connection-closed is raised only after a read reported end of stream or a fatal socket error", z3.Or(st.get(a["sock"], "eof").e, fatal)))
        if st.has(exc, "partialData"):
            pd = st.get(exc, "partialData")
            post.append(("partialData==received-so-far", pd.e == z3.SubSeq(stream, pos0, pos - pos0)))
            post.append(("short", z3.And(z3.Length(pd.e) <= a["size"].e, z3.Implies(a["size"].e > 0, z3.Length(pd.e) < a["size"].e))))
        else:
            # the property (and receive_data's docstring): the connection-closed error carries the bytes received so far - also when the cause is
            # a fatal socket error rather than end of stream
            post.append(("the connection-closed error carries the bytes received so far (partialData)", z3.BoolVal(False)))
        return post

    def exc_fields(self, E, st, a, qname, exc):
        if qname.endswith("ConnectionClosedError"):
            # call-site view: partialData may or may not be present; model it as present iff not fatal
            pass

    def _inv_accum(self, E, old, st, a):
        stream, pos0, _ = _sockview(old, a["sock"])
        pos = st.get(a["sock"], "pos").e
        data, msglen = E.local(st, "data").e, E.local(st, "msglen").e
        return [("data==stream[pos0:pos]", data == z3.SubSeq(stream, pos0, pos - pos0)),
                ("msglen==len(data)", msglen == z3.Length(data)),
                ("msglen<=size", msglen <= a["size"].e),
                ("pos", z3.And(pos == pos0 + msglen, pos <= z3.Length(stream))),
                ("no-fatal-yet", z3.Not(st.get(a["sock"], "fatal").e)),
                ("out-untouched", st.get(a["sock"], "out").e == old.get(a["sock"], "out").e)]

    def loop_inv(self, k, E, old, st, a):
        if k == 0:
            stream, pos0, _ = _sockview(old, a["sock"])
            return [("nothing-read", z3.And(E.local(st, "msglen").e == 0, z3.Length(E.local(st, "data").e) == 0,
                                            st.get(a["sock"], "pos").e == pos0)),
                    ("no-fatal-yet", z3.Not(st.get(a["sock"], "fatal").e)),
                    ("out-untouched", st.get(a["sock"], "out").e == old.get(a["sock"], "out").e)]
        return self._inv_accum(E, old, st, a)

    def loop_modifies(self, k, E, st, a):
        s = a["sock"]
        return [(s, "pos"), (s, "eof"), (s, "fatal")]


@R.contract
class SendData(Contract):
    name = "Pyro5.socketutil.send_data"
    props = ("C17",)
    raises = {"Pyro5.errors.TimeoutError": "x_any", "Pyro5.errors.ConnectionClosedError": "x_any"}

    def setup(self, E, st):
        sock = new_socket(E, st)
        data = VBytes(z3.Const("data", BytesS))
        return {"sock": sock, "data": data}

    def modifies(self, E, st, a):
        return [(a["sock"], "out")]

    def ensures(self, E, old, st, a, result):
        out0 = old.get(a["sock"], "out").e
        return [("every-byte-once-in-order", st.get(a["sock"], "out").e == z3.Concat(out0, a["data"].e)),
                ("returns-None", isinstance(result, VNone)),
                ("inbound-untouched", st.get(a["sock"], "pos").e == old.get(a["sock"], "pos").e)]

    def x_any(self, E, old, st, a, exc):
        # on failure what was transmitted is a prefix of the buffer: nothing twice, nothing out of order
        out0 = old.get(a["sock"], "out").e
        out = st.get(a["sock"], "out").e
        return [("sent-is-prefix", z3.And(z3.PrefixOf(out0, out),
                                          z3.PrefixOf(out, z3.Concat(out0, a["data"].e)))),
                ("inbound-untouched", st.get(a["sock"], "pos").e == old.get(a["sock"], "pos").e)]

    def loop_inv(self, k, E, old, st, a):
        out0 = old.get(a["sock"], "out").e
        return [("out++data==out0++orig", z3.Concat(st.get(a["sock"], "out").e, st.env["data"].e) == z3.Concat(out0, a["data"].e)),
                ("out-extends-out0", z3.PrefixOf(out0, st.get(a["sock"], "out").e)),
                ("inbound-untouched", st.get(a["sock"], "pos").e == old.get(a["sock"], "pos").e)]

    def loop_modifies(self, k, E, st, a):
        return [(a["sock"], "out")]


def new_connection(E, st, name="conn"):
    """a SocketConnection wrapping a model socket"""
    sock = new_socket(E, st, name + "_sock")
    conn = st.new_obj("Pyro5.socketutil.SocketConnection", sock=sock)
    return conn


@R.contract
class ConnRecv(Contract):
    """SocketConnection.recv(size) == receive_data(self.sock, size): the exact-read contract lifted to the connection"""
    name = "Pyro5.socketutil.SocketConnection.recv"
    props = ("C17", "C06", "C03")
    raises = {"Pyro5.errors.TimeoutError": "x_any", "Pyro5.errors.ConnectionClosedError": "x_any"}

    def setup(self, E, st):
        return {"self": new_connection(E, st), "size": VInt(z3.Const("size", IntS))}

    def requires(self, E, st, a):
        return [("size>=0", a["size"].e >= 0)]

    def modifies(self, E, st, a):
        s = st.get(a["self"], "sock")
        return [(s, "pos"), (s, "eof"), (s, "fatal")]

    def result(self, E, st, a):
        return VBytes(fresh("received", BytesS))

    def ensures(self, E, old, st, a, result):
        sock = st.get(a["self"], "sock")
        stream, pos0, _ = _sockview(old, sock)
        size = a["size"].e
        return [("exact-length", z3.Length(result.e) == size),
                ("exact-bytes", result.e == z3.SubSeq(stream, pos0, size)),
                ("cursor", st.get(sock, "pos").e == pos0 + size),
                ("in-stream", pos0 + size <= z3.Length(stream)),
                ("out-untouched", st.get(sock, "out").e == old.get(sock, "out").e)]

    def refine_result(self, E, old, st, a, res):
        """for a constant size n <= 64 the received bytes are handed on element by element: stream[pos0+i], i < n
        (a consequence of exact-bytes and in-stream; lets fixed-size headers be decoded by plain arithmetic)"""
        n = E._const_int(a["size"])
        if n is None or n > 64:
            return res
        sock = old.get(a["self"], "sock")
        stream, pos0 = old.get(sock, "stream").e, old.get(sock, "pos").e
        units = [stream[pos0 + i] for i in range(n)]
        st.assume(*[z3.And(u >= 0, u <= 255) for u in units])      # socket model: the stream consists of bytes
        return VBytes.from_units(units)

    def x_any(self, E, old, st, a, exc):
        sock = st.get(a["self"], "sock")
        return [("cursor-in-stream", z3.And(st.get(sock, "pos").e >= old.get(sock, "pos").e,
                                             st.get(sock, "pos").e <= z3.Length(old.get(sock, "stream").e))),
                ("out-untouched", st.get(sock, "out").e == old.get(sock, "out").e)]


@R.contract
class ConnSend(Contract):
    name = "Pyro5.socketutil.SocketConnection.send"
    props = ("C17", "C03")
    raises = {"Pyro5.errors.TimeoutError": "x_any", "Pyro5.errors.ConnectionClosedError": "x_any"}

    def setup(self, E, st):
        return {"self": new_connection(E, st), "data": VBytes(z3.Const("data", BytesS))}

    def modifies(self, E, st, a):
        return [(st.get(a["self"], "sock"), "out")]

    def ensures(self, E, old, st, a, result):
        sock = st.get(a["self"], "sock")
        return [("every-byte-once-in-order", st.get(sock, "out").e == z3.Concat(old.get(sock, "out").e, a["data"].e)),
                ("inbound-untouched", st.get(sock, "pos").e == old.get(sock, "pos").e)]

    def x_any(self, E, old, st, a, exc):
        sock = st.get(a["self"], "sock")
        out0, out = old.get(sock, "out").e, st.get(sock, "out").e
        return [("sent-is-prefix", z3.And(z3.PrefixOf(out0, out), z3.PrefixOf(out, z3.Concat(out0, a["data"].e)))),
                ("inbound-untouched", st.get(sock, "pos").e == old.get(sock, "pos").e)]


@R.lemma("C17:retry-delays-never-end", props=("C17",))
def retry_delays_never_end(E):
    """receive_data / send_data draw their back-off delays with next(delays) inside the retry handlers: the generator __retrydelays must never be exhausted, or a bare
    StopIteration escapes instead of the bytes / ConnectionClosedError / TimeoutError (the contracts of receive_data / send_data ASSUME `next(delays)` yields a value).
    Syntactic sufficient condition, checked on the AST of the current tree: the function's last statement is `while True:` (a constant-true test) whose body contains a
    `yield` and no `break` / `return` / `raise`, and no `return` / `raise` occurs before it - so the generator can only be left through a yield."""
    import ast
    from pyvc.engine import Module, State
    mod = Module.load("Pyro5.socketutil")
    fn = mod.funcs.get("__retrydelays")
    st = State()
    E.oblige(st, "the retry-delay generator __retrydelays still exists", z3.BoolVal(fn is not None), kind="lemma")
    if fn is None:
        return
    body = [s for s in fn.body if not (isinstance(s, ast.Expr) and isinstance(s.value, ast.Constant))]
    last = body[-1] if body else None
    endless = isinstance(last, ast.While) and isinstance(last.test, ast.Constant) and last.test.value is True and not last.orelse
    inner = list(ast.walk(last)) if endless else []
    ok_inner = endless and any(isinstance(n, (ast.Yield, ast.YieldFrom)) for n in inner) and not any(isinstance(n, (ast.Break, ast.Return, ast.Raise)) for n in inner)
    early = [n for s in body[:-1] for n in ast.walk(s) if isinstance(n, (ast.Return, ast.Raise))]
    E.oblige(st, "the retry-delay generator never ends: it closes with `while True:` around a yield, without break / return / raise (an exhausted generator would let "
                 "StopIteration escape from receive_data / send_data on the next retryable error)", z3.BoolVal(bool(ok_inner) and not early), kind="lemma")
    users = [q for q in ("receive_data", "send_data") if q in mod.funcs and any(isinstance(n, ast.Name) and n.id == "__retrydelays" for n in ast.walk(mod.funcs[q]))]
    E.oblige(st, "receive_data and send_data take their delays from that generator", z3.BoolVal(len(users) == 2), kind="lemma")
