"""Sidecar contracts for Pyro5/protocol.py (C06; used by C01, C03, C05, C08)."""
import z3
from pyvc.values import *
from pyvc.engine import Contract, Res, QInv
from pyvc.registry import R
from specs.pystruct import (pack_term, unpack_terms, unpack_units, new_context, zcompress, zdecompress, zvalid, ascii_enc, ascii_dec,
                            is_ascii_s, is_ascii_b, be_int, assume_bytes, ascii_enc_facts)
from specs.seqdict import new_seqdict
from specs.socket_model import new_socket

HEADER_FMT = "!4sHBBHHII16sHH"
FLAGS_COMPRESSED = 2
FLAGS_CORR_ID = 64
MAGIC = 0x4dc5
VERSION = 502
PYRO = bytes_const(b"PYRO")


def bit(x, k):
    return (x / (2 ** k)) % 2


# ---------------------------------------------------------------------------------------------------------------------
# spec functions of the wire format (definitions, not assumptions): tile(j) = the first j annotation chunks, off(j) its length

class WireSpec:
    def __init__(self, st, d, tag="w"):
        """d: seqdict object (keys: str, vals: bytes)"""
        self.keys, self.vals, self.n = st.get(d, "keys"), st.get(d, "vals"), st.get(d, "n").e
        self.tile = z3.Function(fresh_name("tile_" + tag), IntS, BytesS)
        self.off = z3.Function(fresh_name("off_" + tag), IntS, IntS)
        j = z3.Int("j!wire")
        self.defs = [self.tile(0) == z3.Empty(BytesS), self.off(0) == 0,
                     z3.ForAll([j], z3.Implies(z3.And(0 <= j, j < self.n), self.tile(j + 1) == z3.Concat(self.tile(j), self.chunk(j))),
                               patterns=[self.tile(j + 1)]),
                     z3.ForAll([j], z3.Implies(z3.And(0 <= j, j < self.n), self.off(j + 1) == self.off(j) + 8 + z3.Length(self.vals[j])),
                               patterns=[self.off(j + 1)])]
        st.assume(*self.defs)

    def chunk(self, j):
        hdr, _ranges = pack_term("!4sI", [ascii_enc(self.keys[j]), z3.Length(self.vals[j])])
        return z3.Concat(hdr, self.vals[j])


def header_term(msgtype, ser, flags, seq, dlen, alen, corr):
    t, _r = pack_term(HEADER_FMT, [PYRO, z3.IntVal(VERSION), msgtype, ser, flags, seq, dlen, alen, corr, z3.IntVal(0), z3.IntVal(MAGIC)])
    return t


@R.contract
class SendingMessageInit(Contract):
    local_positions = {"annotation_data": 4}
    no_join = True      # proved path by path (the joined, disjunctive states make the concatenation obligations time out)
    name = "Pyro5.protocol.SendingMessage.__init__"
    props = ("C06", "C01")
    raises = {"Pyro5.errors.ProtocolError": "x_protocol", "struct.error": "x_struct",
              "builtins.UnicodeEncodeError": "x_unicode"}
    trusted = ("annotations=None is not run separately: `annotations or {}` makes it the n=0 case of the dict model",)

    def setup(self, E, st):
        self_ = st.new_obj("Pyro5.protocol.SendingMessage")
        ann = new_seqdict(st, "ann", StrS, BytesS, VStr, VBytes, distinct=False)   # key distinctness is not needed here
        a = {"self": self_, "msgtype": VInt(z3.Int("msgtype")), "flags": VInt(z3.Int("flags")), "seq": VInt(z3.Int("seq")),
             "serializer_id": VInt(z3.Int("serializer_id")), "payload": VBytes(z3.Const("payload", BytesS)), "annotations": ann}
        st.genv = {"current_context": new_context(st)}
        a["__W"] = W = WireSpec(st, ann)
        # lemma (by induction, obligations generated here): offsets are non-negative
        st.assume(E.induction(st, "off>=0", lambda j: W.off(j) >= 0, W.n))
        return a

    def prepare_call(self, E, st, a, outcome):
        ann = a["annotations"]
        if isinstance(ann, VNone):
            from specs.seqdict import empty_seqdict
            ann = empty_seqdict(st)
        if not (isinstance(ann, VObj) and ann.cls == "seqdict"):
            raise Unsupported("SendingMessage with annotations %r" % (ann,))
        a["__W"] = WireSpec(st, ann)
        if outcome is None:
            m = a["self"]
            st.set(m, "data", VBytes(fresh("msg_wire_bytes", BytesS)))
            st.set(m, "flags", VInt(fresh("msg_flags", IntS)))
            st.set(m, "corr_id", VBytes(fresh("msg_corr", BytesS)))
            for f, k in (("type", "msgtype"), ("seq", "seq"), ("serializer_id", "serializer_id")):
                st.set(m, f, VInt(fresh("msg_" + f, IntS)))

    def requires(self, E, st, a):
        # field values over their full (encodable) ranges; flags fit 16 bits; MAX_MESSAGE_SIZE below the 4 GB of the format
        f = a["flags"].e
        mx = E.qualified("Pyro5.config.MAX_MESSAGE_SIZE").e
        return [("flags-16bit", z3.And(f >= 0, f < 65536)),
                ("type-8bit", z3.And(a["msgtype"].e >= 0, a["msgtype"].e < 256)),
                ("serializer-8bit", z3.And(a["serializer_id"].e >= 0, a["serializer_id"].e < 256)),
                ("seq-16bit", z3.And(a["seq"].e >= 0, a["seq"].e < 65536)),
                ("max-size-32bit", z3.And(mx >= 0, mx < 2 ** 32))]

    def modifies(self, E, st, a):
        return []

    def final_flags(self, E, old, a):
        f = a["flags"].e
        comp = self.compressed(E, a)
        ctx = old.genv["current_context"]
        corr = old.get(ctx, "correlation_id")
        f1 = f - 2 * bit(f, 1) + z3.If(comp, 2, 0)
        if isinstance(corr, VOpt):
            has_corr, cb = z3.Not(corr.isnone), old.get(corr.val, "bytes").e
        elif isinstance(corr, VObj):
            has_corr, cb = z3.BoolVal(True), old.get(corr, "bytes").e
        else:
            has_corr, cb = z3.BoolVal(False), bytes_const(b"\0" * 16)
        f2 = f1 + z3.If(z3.And(has_corr, bit(f1, 6) == 0), 64, 0)
        return f1, f2, has_corr, cb

    def compressed(self, E, a):
        return z3.And(E.qualified("Pyro5.config.COMPRESSION").e, z3.Length(a["payload"].e) > 100)

    def wire_payload(self, E, a):
        p = a["payload"].e
        return z3.If(self.compressed(E, a), zcompress(p), p)

    def ensures(self, E, old, st, a, result):
        W = a["__W"]
        s = a["self"]
        f1, f2, has_corr, corrbytes = self.final_flags(E, old, a)
        p2 = self.wire_payload(E, a)
        corr = z3.If(has_corr, corrbytes, bytes_const(b"\0" * 16))
        total = z3.Length(p2) + W.off(W.n)
        expect = z3.Concat(header_term(a["msgtype"].e, a["serializer_id"].e, f2, a["seq"].e, z3.Length(p2), W.off(W.n), corr),
                           W.tile(W.n), p2)
        maxsize = E.qualified("Pyro5.config.MAX_MESSAGE_SIZE").e
        return [("data==header++chunks++payload", st.get(s, "data").e == expect),
                ("size-within-limit", total <= maxsize),
                ("fields", z3.And(st.get(s, "type").e == a["msgtype"].e, st.get(s, "seq").e == a["seq"].e,
                                  st.get(s, "serializer_id").e == a["serializer_id"].e)),
                ("flags-attr: caller bits kept, COMPRESSED iff compressed (CORR_ID is only in the header)", st.get(s, "flags").e == f1),
                ("corr_id", st.get(s, "corr_id").e == corr),
                ("every annotation id is 4 ascii characters and every value is shorter than 4 GB",
                 z3.ForAll([z3.Int("i!encpost")], z3.Implies(z3.And(0 <= z3.Int("i!encpost"), z3.Int("i!encpost") < W.n), z3.And(
                     z3.Length(W.keys[z3.Int("i!encpost")]) == 4, is_ascii_s(W.keys[z3.Int("i!encpost")]), z3.Length(W.vals[z3.Int("i!encpost")]) < 2 ** 32))))]

    def x_protocol(self, E, old, st, a, exc):
        # refused: too large (before anything is built) or a malformed annotation id (witness: the loop's ghost index)
        W = a["__W"]
        total = z3.Length(self.wire_payload(E, a)) + W.off(W.n)
        too_large = total > E.qualified("Pyro5.config.MAX_MESSAGE_SIZE").e
        if "idx0" in st.ghost:
            j = st.ghost["idx0"].e
            why = z3.And(0 <= j, j < W.n, z3.Length(W.keys[j]) != 4)
        else:
            why = too_large
        return [("refusal-justified", why), ("nothing-built", z3.BoolVal(not st.has(a["self"], "data")))]

    def x_struct(self, E, old, st, a, exc):
        W = a["__W"]
        if "idx0" in st.ghost:
            j = st.ghost["idx0"].e
            why = z3.And(0 <= j, j < W.n, z3.Length(W.vals[j]) >= 2 ** 32)
        else:
            why = z3.BoolVal(False)       # the header fields are in range by the precondition and the size check
        return [("only-for-an-annotation-value-of-4GB-or-more", why), ("nothing-built", z3.BoolVal(not st.has(a["self"], "data")))]

    def x_unicode(self, E, old, st, a, exc):
        W = a["__W"]
        j = st.ghost["idx0"].e if "idx0" in st.ghost else z3.IntVal(-1)
        return [("only-for-a-non-ascii-id", z3.And(0 <= j, j < W.n, z3.Not(is_ascii_s(W.keys[j])))),
                ("nothing-built", z3.BoolVal(not st.has(a["self"], "data")))]

    def local_abstraction(self, E, st, name, val):
        if name == "annotation_data" and isinstance(val, VList) and not val.items:
            return VJoinList(z3.Empty(BytesS), z3.IntVal(0))
        return val

    def sum_function(self, E, st, tag):
        return E.cur_args["__W"].off

    def loop_inv(self, k, E, old, st, a):
        W = a["__W"]
        j = st.ghost["idx0"].e
        ad = E.local(st, "annotation_data")
        i = z3.Int("i!inv")
        return [("0<=j<=n", z3.And(0 <= j, j <= W.n)),
                ("joined==tile(j)", ad.joined == W.tile(j)),
                ("len(joined)==off(j)", z3.Length(ad.joined) == W.off(j)),
                ("ids-so-far-4-ascii", z3.ForAll([i], z3.Implies(z3.And(0 <= i, i < j), z3.And(z3.Length(W.keys[i]) == 4, is_ascii_s(W.keys[i]))))),
                ("values-so-far-shorter-than-4GB", z3.ForAll([i], z3.Implies(z3.And(0 <= i, i < j), z3.Length(W.vals[i]) < 2 ** 32))),
                ("no-data-yet", z3.BoolVal(not st.has(a["self"], "data")))]

    def loop_modifies(self, k, E, st, a):
        return []


# ---------------------------------------------------------------------------------------------------------------------
# decoder

from pyvc.stdlib import from_bytes_term          # noqa: E402
from pyvc.values import seq_slice, simple_slice  # noqa: E402

wpos = z3.Function("wpos", BytesS, IntS, IntS)   # spec function: offset of the k-th annotation chunk in a payload


def assume_walk(st, P):
    """definition of wpos on payload P, and `P consists of bytes`"""
    st.assume(*walk_defs(P))


def walk_defs(P):
    k, x = z3.Ints("k!walk x!byte")
    return [wpos(P, 0) == 0,
            z3.ForAll([k], z3.Implies(k >= 0, wpos(P, k + 1) == wpos(P, k) + 8 + from_bytes_term(
                simple_slice(P, wpos(P, k) + 4, wpos(P, k) + 8))), patterns=[wpos(P, k + 1)]),
            # P consists of bytes (0..255), so every decoded chunk length is a natural number
            z3.ForAll([k], z3.Implies(k >= 0, wpos(P, k + 1) >= wpos(P, k) + 8), patterns=[wpos(P, k + 1)])]


def chunk_facts(P, keys, vals, k):
    """what the k-th log entry must be: id = ascii of the 4 id bytes, value = the bytes up to the next chunk"""
    idb = simple_slice(P, wpos(P, k), wpos(P, k) + 4)
    return z3.And(keys[k] == ascii_dec(idb), is_ascii_b(idb),
                  vals[k] == simple_slice(P, wpos(P, k) + 8, wpos(P, k + 1)),
                  wpos(P, k) + 8 <= wpos(P, k + 1))


def new_receiving_message(st, name="msg", parsed=True):
    """a ReceivingMessage as left by __init__ (header parsed, no payload yet)"""
    m = st.new_obj("Pyro5.protocol.ReceivingMessage")
    if parsed:
        for f in ("type", "serializer_id", "flags", "seq", "data_size", "annotations_size"):
            st.set(m, f, VInt(z3.Int(name + "_" + f)))
        st.set(m, "corr_id", VBytes(z3.Const(name + "_corr_id", BytesS)))
        st.set(m, "data", NONE)
        from specs.seqdict import empty_seqdict
        st.set(m, "annotations", empty_seqdict(st))
        st.assume(*[z3.And(st.get(m, f).e >= 0, st.get(m, f).e < 2 ** bits) for f, bits in
                    (("type", 8), ("serializer_id", 8), ("flags", 16), ("seq", 16), ("data_size", 32), ("annotations_size", 32))])
    return m


@R.contract
class AddPayload(Contract):
    local_positions = {"i": 0}
    name = "Pyro5.protocol.ReceivingMessage.add_payload"
    props = ("C06", "C01")
    raises = {"Pyro5.errors.ProtocolError": "x_protocol", "builtins.AssertionError": "x_assert",
              "builtins.UnicodeDecodeError": "x_any", "zlib.error": "x_zlib"}

    def setup(self, E, st):
        m = new_receiving_message(st)
        P = VBytes(z3.Const("payload", BytesS))
        assume_walk(st, P.e)
        return {"self": m, "payload": P}

    def requires(self, E, st, a):
        return [("no-payload-yet", z3.BoolVal(isinstance(st.get(a["self"], "data"), VNone))),
                ("fresh-annotations", st.get(st.get(a["self"], "annotations"), "n").e == 0)]

    def modifies(self, E, st, a):
        m = a["self"]
        ann = st.get(m, "annotations")
        return [(m, "data"), (m, "flags"), (m, "data_size"), (m, "annotations")]

    def result(self, E, st, a):
        return NONE

    def prepare_call(self, E, st, a, outcome):
        from specs.seqdict import empty_seqdict
        m = a["self"]
        if outcome is None or outcome == "zlib.error":
            st.set(m, "data", VBytes(fresh("msg_data", BytesS)))
        elif outcome == "Pyro5.errors.ProtocolError":
            # refused on the length check (nothing set) or because the compressed body is not exactly one stream (annotations parsed, raw body kept)
            st.set(m, "data", VOpt(fresh("no_data_set", BoolS), VBytes(fresh("msg_data", BytesS))))
        ann = empty_seqdict(st)
        st.set(ann, "n", VInt(fresh("ann_n", IntS)))
        st.set(m, "annotations", ann)
        assume_walk(st, a["payload"].e)

    def _views(self, old, st, a):
        m = a["self"]
        P = a["payload"].e
        A = old.get(m, "annotations_size").e
        D = old.get(m, "data_size").e
        ann = st.get(m, "annotations")
        return m, P, A, D, st.get(ann, "n").e, st.get(ann, "keys"), st.get(ann, "vals")

    def ensures(self, E, old, st, a, result):
        m, P, A, D, n, keys, vals = self._views(old, st, a)
        k = z3.Int("k!post")
        f0 = old.get(m, "flags").e
        comp = bit(f0, 1) == 1
        body = simple_slice(P, A, None)
        data = st.get(m, "data")
        return [("length-matches-header", z3.Length(P) == A + D),
                ("chunks-end-exactly-at-annotations_size", wpos(P, n) == A),
                ("annotation-count-is-natural", n >= 0),
                ("every-chunk-decoded (chunk k = bytes wpos(k)..wpos(k+1), so the chunks tile [0, annotations_size) exactly)",
                 z3.ForAll([k], z3.Implies(z3.And(0 <= k, k < n), chunk_facts(P, keys, vals, k)))),
                ("no-annotations-iff-size-0", (n == 0) == (A == 0)),
                # (the body itself, or - compressed - the data of the ONE complete zlib stream the body consists of: nothing left over, the length fields tile the bytes exactly)
                ("data", z3.If(comp, z3.And(zvalid(body), data.e == zdecompress(body)), data.e == body)),
                ("flags: COMPRESSED cleared, rest kept", st.get(m, "flags").e == f0 - 2 * bit(f0, 1)),
                ("data_size", st.get(m, "data_size").e == z3.If(comp, z3.Length(data.e), D)),
                ("header-fields-kept", z3.And(*[st.get(m, f).e == old.get(m, f).e for f in ("type", "serializer_id", "seq", "annotations_size")]))]

    def x_protocol(self, E, old, st, a, exc):
        m, P, A, D, n, keys, vals = self._views(old, st, a)
        body = simple_slice(P, A, None)
        comp = bit(old.get(m, "flags").e, 1) == 1
        return [("refused as a protocol error only on a length mismatch, or when the body of a compressed message is not exactly one complete zlib stream",
                 z3.Or(z3.Length(P) != A + D, z3.And(comp, z3.Not(zvalid(body))))),
                ("no-data-set on a length mismatch", z3.Implies(z3.Length(P) != A + D, z3.BoolVal(isinstance(st.get(m, "data"), VNone))))]

    def x_assert(self, E, old, st, a, exc):
        # the chunk walk overshot annotations_size: the chunks do not tile the annotation area
        m, P, A, D, n, keys, vals = self._views(old, st, a)
        return [("walk-overshoots", z3.And(z3.Length(P) == A + D, wpos(P, n) > A)), ("no-data-set", z3.BoolVal(isinstance(st.get(m, "data"), VNone)))]

    def x_any(self, E, old, st, a, exc):
        m, P, A, D, n, keys, vals = self._views(old, st, a)
        return [("after-length-check", z3.Length(P) == A + D), ("no-data-set", z3.BoolVal(isinstance(st.get(m, "data"), VNone)))]

    def x_zlib(self, E, old, st, a, exc):
        m, P, A, D, n, keys, vals = self._views(old, st, a)
        return [("flagged-compressed-but-invalid", z3.And(z3.Length(P) == A + D, bit(old.get(m, "flags").e, 1) == 1, z3.Not(zvalid(simple_slice(P, A, None)))))]

    def loop_inv(self, k_, E, old, st, a):
        m, P, A, D, n, keys, vals = self._views(old, st, a)
        i = E.local(st, "i").e
        k = z3.Int("k!inv")
        def nlog(s_):
            return s_.get(s_.get(m, "annotations"), "n").e

        def body(s_, kk):
            ann = s_.get(m, "annotations")
            return chunk_facts(P, s_.get(ann, "keys"), s_.get(ann, "vals"), kk)
        return [("i==wpos(n)", z3.And(i == wpos(P, n), n >= 0, i >= 0)),
                ("log-so-far-decoded", QInv(nlog, body)),
                ("length-checked", z3.Length(P) == A + D),
                ("payload-is-view-of-arg", st.env["payload"].e == P),
                ("header-untouched", z3.And(*[st.get(m, f).e == old.get(m, f).e for f in ("type", "serializer_id", "seq", "annotations_size", "flags", "data_size")])),
                ("no-data-yet", z3.BoolVal(isinstance(st.get(m, "data"), VNone)))]

    def loop_hints(self, k_, E, old, head, st, a):
        m = a["self"]
        P = a["payload"].e
        n_h = head.get(head.get(m, "annotations"), "n").e
        w = wpos(P, n_h)
        return [("walk-definition-at-n", wpos(P, n_h + 1) == w + 8 + from_bytes_term(simple_slice(P, w + 4, w + 8)))]

    def loop_modifies(self, k, E, st, a):
        ann = st.get(a["self"], "annotations")
        return [(ann, "n"), (ann, "keys"), (ann, "vals")]


class TagIs:
    """`tag == b"PYRO"` as a z3 Bool: elementwise when the elements are known, sequence equality otherwise"""

    def __init__(self, seq, units=None):
        self.seq, self.units = seq, units

    def __eq__(self, other):        # other is the PYRO constant
        if self.units is not None:
            return z3.And([u == c for u, c in zip(self.units, b"PYRO")])
        return self.seq == other


def header_fields(hb):
    """the 11 header fields as z3 terms of a 40-byte value (VBytes with known elements, or a z3 sequence)"""
    if isinstance(hb, VBytes):
        if hb.units is not None and len(hb.units) == 40:
            f = [t for _ch, t in unpack_units(HEADER_FMT, hb.units)]
            f[0] = TagIs(f[0], hb.units[0:4])
            return f
        hb = hb.e
    f = [t for _ch, t in unpack_terms(HEADER_FMT, hb)]
    f[0] = TagIs(f[0])
    return f


@R.contract
class ReceivingMessageInit(Contract):
    name = "Pyro5.protocol.ReceivingMessage.__init__"
    props = ("C06",)
    raises = {"Pyro5.errors.ProtocolError": "x_protocol", "struct.error": "x_struct"}
    trusted = ("verified for payload=None (the way recv_stub calls it); with a payload it delegates to add_payload's contract",)

    def setup(self, E, st):
        m = st.new_obj("Pyro5.protocol.ReceivingMessage")
        return {"self": m, "header": VBytes(z3.Const("header", BytesS)), "payload": NONE}

    def modifies(self, E, st, a):
        return []

    def result(self, E, st, a):
        return NONE

    def _ok(self, E, a):
        tag, ver, typ, ser, flags, seq, dsz, asz, corr, _res, magic = header_fields(a["header"])
        mx = E.qualified("Pyro5.config.MAX_MESSAGE_SIZE").e
        return (z3.And(tag == PYRO, ver == VERSION, magic == MAGIC), dsz + asz <= mx, (typ, ser, flags, seq, dsz, asz, corr))

    def ensures(self, E, old, st, a, result):
        m = a["self"]
        wellformed, fits, (typ, ser, flags, seq, dsz, asz, corr) = self._ok(E, a)
        post = [("40-bytes", z3.Length(a["header"].e) == 40), ("magic-version-tag", wellformed), ("size-within-limit", fits)]
        if st.has(m, "type"):
            post += [("fields==header", z3.And(st.get(m, "type").e == typ, st.get(m, "serializer_id").e == ser, st.get(m, "flags").e == flags,
                                               st.get(m, "seq").e == seq, st.get(m, "data_size").e == dsz,
                                               st.get(m, "annotations_size").e == asz, st.get(m, "corr_id").e == corr)),
                     ("field-ranges", z3.And(typ >= 0, typ < 256, ser >= 0, ser < 256, flags >= 0, flags < 65536, seq >= 0, seq < 65536,
                                             dsz >= 0, dsz < 2 ** 32, asz >= 0, asz < 2 ** 32)),
                     ("no-payload-yet", z3.BoolVal(isinstance(st.get(m, "data"), VNone))),
                     ("fresh-annotations", st.get(st.get(m, "annotations"), "n").e == 0)]
        else:
            post.append(("fields-set", z3.BoolVal(False)))
        return post

    def x_protocol(self, E, old, st, a, exc):
        wellformed, fits, _f = self._ok(E, a)
        return [("refusal-justified", z3.And(z3.Length(a["header"].e) == 40, z3.Or(z3.Not(wellformed), z3.Not(fits))))]

    def x_struct(self, E, old, st, a, exc):
        return [("only-for-wrong-header-length", z3.Length(a["header"].e) != 40)]

    # call-site view: a fresh object gets its fields from the post
    def prepare_call(self, E, st, a, outcome=None):
        if outcome is not None:
            return
        m = a["self"]
        for f in ("type", "serializer_id", "flags", "seq", "data_size", "annotations_size"):
            st.set(m, f, VInt(fresh("hdr_" + f, IntS)))
        st.set(m, "corr_id", VBytes(fresh("hdr_corr", BytesS)))
        st.set(m, "data", NONE)
        from specs.seqdict import empty_seqdict
        st.set(m, "annotations", empty_seqdict(st))


@R.contract
class Validate(Contract):
    name = "Pyro5.protocol.ReceivingMessage.validate"
    props = ("C06",)
    raises = {"Pyro5.errors.ProtocolError": "x_protocol", "builtins.ValueError": "x_value"}

    def setup(self, E, st):
        return {"data": VBytes(z3.Const("data", BytesS))}

    def _prefix_ok(self, d):
        if isinstance(d, VBytes) and d.units is not None:
            u = d.units
            n = len(u)
            conds = [z3.BoolVal(n >= 4)] + [u[i] == b"PYRO"[i] for i in range(min(4, n))]
            if n >= 6:
                conds += [u[4] == VERSION // 256, u[5] == VERSION % 256]
            if n >= 40:
                conds += [u[38] == MAGIC // 256, u[39] == MAGIC % 256]
            return z3.And(conds)
        d = d.e if isinstance(d, VBytes) else d
        ln = z3.Length(d)
        return z3.And(ln >= 4, z3.PrefixOf(PYRO, d),
                      z3.Implies(ln >= 6, z3.SubSeq(d, 4, 2) == bytes_const(VERSION.to_bytes(2, "big"))),
                      z3.Implies(ln >= 40, z3.SubSeq(d, 38, 2) == bytes_const(MAGIC.to_bytes(2, "big"))))

    def ensures(self, E, old, st, a, result):
        return [("looks-like-pyro", self._prefix_ok(a["data"]))]

    def x_protocol(self, E, old, st, a, exc):
        return [("refusal-justified", z3.And(z3.Length(a["data"].e) >= 4, z3.Not(self._prefix_ok(a["data"]))))]

    def x_value(self, E, old, st, a, exc):
        return [("too-short", z3.Length(a["data"].e) < 4)]


from contracts.socketutil import new_connection    # noqa: E402


@R.contract
class RecvStub(Contract):
    name = "Pyro5.protocol.recv_stub"
    props = ("C06", "C03", "C05", "C08")
    variants = ("accept-2-types", "accept-any")
    raises = {"Pyro5.errors.ProtocolError": "x_protocol", "Pyro5.errors.TimeoutError": "x_comm",
              "Pyro5.errors.ConnectionClosedError": "x_comm", "builtins.AssertionError": "x_body",
              "builtins.UnicodeDecodeError": "x_body", "zlib.error": "x_body"}

    def setup(self, E, st):
        conn = new_connection(E, st)
        self.t0, self.t1 = z3.Int("accepted0"), z3.Int("accepted1")
        acc = VList([VInt(self.t0), VInt(self.t1)]) if self.variant == "accept-2-types" else NONE
        stream = st.get(st.get(conn, "sock"), "stream").e
        pos0 = st.get(st.get(conn, "sock"), "pos").e
        # spec functions of the decoder are about the payload bytes of *this* message
        assume_walk(st, self.payload(st, conn, stream, pos0))
        return {"connection": conn, "accepted_msgtypes": acc}

    def payload(self, st, conn, stream, pos0):
        tag, ver, typ, ser, flags, seq, dsz, asz, corr, _r, magic = header_fields(
            VBytes.from_units([stream[pos0 + i] for i in range(40)]))
        return z3.SubSeq(stream, pos0 + 40, asz + dsz)

    def modifies(self, E, st, a):
        s = st.get(a["connection"], "sock")
        return [(s, "pos"), (s, "eof"), (s, "fatal")]

    def result(self, E, st, a):
        m = st.new_obj("Pyro5.protocol.ReceivingMessage")
        ReceivingMessageInit.prepare_call(None, E, st, {"self": m}, None)
        st.set(m, "data", VBytes(fresh("msg_data", BytesS)))
        # the message comes back with whatever annotations the stream carried: any number of entries (the postcondition says which)
        st.set(st.get(m, "annotations"), "n", VInt(fresh("received_ann_n", IntS)))
        return m

    def _hdr(self, old, a):
        sock = old.get(a["connection"], "sock")
        stream, pos0 = old.get(sock, "stream").e, old.get(sock, "pos").e
        # the 40 header bytes, element by element
        return sock, stream, pos0, header_fields(VBytes.from_units([stream[pos0 + i] for i in range(40)]))

    def ensures(self, E, old, st, a, result):
        sock, stream, pos0, (tag, ver, typ, ser, flags, seq, dsz, asz, corr, _r, magic) = self._hdr(old, a)
        m = result
        P = z3.SubSeq(stream, pos0 + 40, asz + dsz)
        ann = st.get(m, "annotations")
        n, keys, vals = st.get(ann, "n").e, st.get(ann, "keys"), st.get(ann, "vals")
        k = z3.Int("k!post")
        comp = bit(flags, 1) == 1
        body = simple_slice(P, asz, None)
        data = st.get(m, "data")
        post = [("consumed-exactly-one-message", st.get(sock, "pos").e == pos0 + 40 + asz + dsz),
                ("message-inside-stream", pos0 + 40 + asz + dsz <= z3.Length(stream)),
                ("well-formed-header", z3.And(tag == PYRO, ver == VERSION, magic == MAGIC)),
                ("size-within-limit", asz + dsz <= E.qualified("Pyro5.config.MAX_MESSAGE_SIZE").e),
                ("fields==header", z3.And(st.get(m, "type").e == typ, st.get(m, "serializer_id").e == ser, st.get(m, "seq").e == seq,
                                          st.get(m, "annotations_size").e == asz, st.get(m, "corr_id").e == corr,
                                          st.get(m, "flags").e == flags - 2 * bit(flags, 1))),
                ("chunks-end-exactly-at-annotations_size", wpos(P, n) == asz),
                ("annotation-count-is-natural", n >= 0),
                ("every-chunk-decoded", z3.ForAll([k], z3.Implies(z3.And(0 <= k, k < n), chunk_facts(P, keys, vals, k)))),
                # (the body itself, or - compressed - the data of the ONE complete zlib stream the body consists of: nothing left over, the length fields tile the bytes exactly)
                ("data", z3.If(comp, z3.And(zvalid(body), data.e == zdecompress(body)), data.e == body)),
                ("field-ranges", z3.And(typ >= 0, typ < 256, ser >= 0, ser < 256, flags >= 0, flags < 65536, seq >= 0, seq < 65536,
                                        dsz >= 0, asz >= 0)),
                ("corr_id-16-bytes", z3.Length(st.get(m, "corr_id").e) == 16),
                ("out-untouched", st.get(sock, "out").e == old.get(sock, "out").e)]
        if not isinstance(a["accepted_msgtypes"], VNone):
            acc = a["accepted_msgtypes"]
            post.append(("type-accepted", z3.Or([typ == x.e for x in acc.items])))
        return post

    def x_protocol(self, E, old, st, a, exc):
        # refused after the 6-byte prefix or after the 40-byte header: never after reading any of the body
        sock, stream, pos0, (tag, ver, typ, ser, flags, seq, dsz, asz, corr, _r, magic) = self._hdr(old, a)
        pos = st.get(sock, "pos").e
        mx = E.qualified("Pyro5.config.MAX_MESSAGE_SIZE").e
        wellformed = z3.And(tag == PYRO, ver == VERSION, magic == MAGIC)
        acc = a["accepted_msgtypes"]
        wrong_type = z3.BoolVal(False) if isinstance(acc, VNone) else z3.Not(z3.Or([typ == x.e for x in acc.items]))
        # (since fix be83d31 a third protocol refusal exists: the body of a compressed message that is not exactly one complete zlib stream - known only once the body is
        #  there; like every body-level failure it leaves the stream message-aligned)
        body = z3.SubSeq(stream, pos0 + 40 + asz, dsz)
        body_refused = z3.And(wellformed, asz + dsz <= mx, z3.Not(wrong_type), bit(flags, 1) == 1, pos == pos0 + 40 + asz + dsz, z3.Not(zvalid(body)))
        post = [("refused-before-the-body (prefix or header), or - compressed body that is not exactly one zlib stream - after exactly this message",
                 z3.Or(pos == pos0 + 6, pos == pos0 + 40, body_refused)),
                ("too-large-refused-at-header", z3.Implies(z3.And(wellformed, asz + dsz > mx), pos == pos0 + 40)),
                ("out-untouched", st.get(sock, "out").e == old.get(sock, "out").e)]
        post.append(("refusal-justified", z3.Or(z3.Not(wellformed), asz + dsz > mx, wrong_type, body_refused)))
        return post

    def x_comm(self, E, old, st, a, exc):
        sock = old.get(a["connection"], "sock")
        return [("out-untouched", st.get(sock, "out").e == old.get(sock, "out").e)]

    def x_body(self, E, old, st, a, exc):
        # undecodable body: raised only after the whole message was consumed (stream stays message-aligned)
        sock, stream, pos0, (tag, ver, typ, ser, flags, seq, dsz, asz, corr, _r, magic) = self._hdr(old, a)
        return [("whole-message-consumed", st.get(sock, "pos").e == pos0 + 40 + asz + dsz),
                ("out-untouched", st.get(sock, "out").e == old.get(sock, "out").e)]
