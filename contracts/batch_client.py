"""Sidecar contract for the client side of batches (C11): BatchProxy.__call__ / BatchProxy._pyroInvoke - every submit sends exactly the calls queued
since the previous submit (the queue object itself, once) and leaves an empty queue behind, oneway or not."""
import z3
from pyvc.values import *
from pyvc.engine import Contract, Res, Unsupported
from pyvc.registry import R
from specs.opaque import may_raise


@R.spec("Pyro5.client.Proxy._pyroClaimOwnership", doc="thread-ownership bookkeeping of the proxy: no effect on the batch")
def claim(E, st, args, kw):
    return [Res(st, NONE)]


@R.spec("Pyro5.client.Proxy._pyroInvokeBatch", doc="declared: one remote <batch> request carrying the given call list (C03/C11 server side); any result or any Exception")
def invoke_batch(E, st, args, kw):
    out = [may_raise(E, st, "invoke_batch")]
    res = VOpaque(fresh("batch_results", U))
    st.event("invoke_batch", args[1], args[2] if len(args) > 2 else kw.get("oneway", VBool(False)), res)
    out.insert(0, Res(st, res))
    return out


@R.spec("Pyro5.client.BatchProxy.__resultsgenerator", doc="generator over the results that re-raises a wrapped exception at its position (7-line repo function, as specified)")
def results_generator(E, st, args, kw):
    return [Res(st, st.new_obj("results_generator", results=args[1]))]


class _BatchBase(Contract):
    props = ("C11",)
    raises = {"builtins.Exception": "x_any"}
    raises_any_subclass = ("builtins.Exception",)
    no_join = True
    log_calls = False
    trusted = ("Proxy._pyroInvokeBatch by its declared interface (one <batch> request with exactly the list it is given)",)

    def mk(self, E, st):
        self.queue = VOpaque(z3.Const("queued_calls", U))
        self.proxy = st.new_obj("Pyro5.client.Proxy")
        self.bp = st.new_obj("Pyro5.client.BatchProxy", _BatchProxy__proxy=self.proxy, _BatchProxy__calls=self.queue)
        return self.bp

    def sent(self, st):
        return [e for e in st.events if e[0] == "invoke_batch"]

    # call-site view (one submit function calling the other): the callee may have replaced the queue and made the remote request; nothing more is promised
    def modifies(self, E, st, a):
        return [(a["self"], "_BatchProxy__calls")] if isinstance(a.get("self"), VObj) else []

    def result(self, E, st, a):
        return VOpaque(fresh("submit_result", U))

    def common(self, st, oneway_term):
        ev = self.sent(st)
        ok = len(ev) == 1
        post = [("one submit is exactly one batch request", z3.BoolVal(ok))]
        if ok:
            calls, oneway, res = ev[0][1], ev[0][2], ev[0][3]
            post.append(("... carrying the queue object itself (all calls queued so far, in order)", z3.BoolVal(isinstance(calls, VOpaque) and z3.eq(calls.e, self.queue.e))))
            if oneway_term is not None:
                post.append(("... with the caller's oneway choice", oneway.e == oneway_term if isinstance(oneway, VBool) else z3.BoolVal(False)))
        q = st.get(self.bp, "_BatchProxy__calls")
        post.append(("afterwards the queue is a new, empty list: the next submit cannot repeat these calls", z3.BoolVal(isinstance(q, VList) and not q.items)))
        return ev, post

    def x_any(self, E, old, st, a, exc):
        if E.cur_contract is not self:
            return []
        q = st.get(self.bp, "_BatchProxy__calls")
        return [("only the remote request can fail", z3.BoolVal(len(self.sent(st)) == 0 and "invoke_batch" in str(st.get(exc, "__cls__").term))),
                ("a failed submit leaves an empty queue too: part of the batch may have run already, the next submit must not repeat it",
                 z3.BoolVal(isinstance(q, VList) and not q.items))]


@R.contract
class BatchCall(_BatchBase):
    name = "Pyro5.client.BatchProxy.__call__"

    def setup(self, E, st):
        self.oneway = z3.Const("oneway", BoolS)
        return {"self": self.mk(E, st), "oneway": VBool(self.oneway)}

    def ensures(self, E, old, st, a, result):
        if E.cur_contract is not self:
            return []
        ev, post = self.common(st, self.oneway)
        gen = isinstance(result, VObj) and result.cls == "results_generator"
        post.append(("a oneway batch returns nothing; otherwise the caller gets the generator over exactly this request's results",
                     z3.If(self.oneway, z3.BoolVal(isinstance(result, VNone)),
                           z3.BoolVal(gen and len(ev) == 1 and isinstance(st.get(result, "results"), VOpaque) and z3.eq(st.get(result, "results").e, ev[0][3].e)))))
        return post


@R.contract
class BatchInvoke(_BatchBase):
    name = "Pyro5.client.BatchProxy._pyroInvoke"

    def setup(self, E, st):
        return {"self": self.mk(E, st), "name": VOpaque(z3.Const("name", U)), "args": VOpaque(z3.Const("args", U)), "kwargs": VOpaque(z3.Const("kwargs", U))}

    def ensures(self, E, old, st, a, result):
        if E.cur_contract is not self:
            return []
        ev, post = self.common(st, None)
        post.append(("the caller gets the generator over this request's results", z3.BoolVal(isinstance(result, VObj) and result.cls == "results_generator")))
        return post
