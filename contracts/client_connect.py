"""Sidecar contract for the BODY of Proxy.__pyroCreateConnection (C03 / C08 client side / C12): the handshake exchange that every proxy connection starts with.
(contracts/client_invoke.py uses this function through a declared call-site contract; here the real body is verified.)

Claim: after ANY exit of __pyroCreateConnection the proxy either holds no connection - and then every connection object that was created during the call
has been closed - or it holds the connection made during this call, on which exactly one CONNECT message went out and exactly one whole reply, of type
CONNECTOK, has been consumed: the inbound stream is at a message boundary with nothing outstanding.  That is the base case of the per-proxy invariant of C03."""
import z3
from pyvc.values import *
from pyvc.engine import Contract, Res, Unsupported
from pyvc.registry import R
from specs.daemon_model import new_call_context, new_annotations, config_facts
from specs.opaque import may_raise, user_call
from specs.socket_model import new_socket
import contracts.client_invoke as CI      # noqa: F401  (Proxy model, serializer tables, __check_owner, annotation helpers; its declared contract of this function is replaced below)
from contracts.server_handshake import calls, sends_on, message_of

MSG_CONNECT, MSG_CONNECTOK, MSG_CONNECTFAIL = 1, 2, 3

for _n in ("SSL", "SOCK_REUSE", "SOCK_NODELAY", "LOGWIRE"):
    R.glob("Pyro5.config." + _n, VBool(z3.Const("config_" + _n, BoolS)), "configuration item")
for _n in ("SSL_CLIENTCERT", "SSL_CLIENTKEY", "SSL_CLIENTKEYPASSWD", "SSL_CACERTS"):
    R.glob("Pyro5.config." + _n, VOpaque(z3.Const("config_" + _n, U)), "configuration item")


@R.spec("Pyro5.core.resolve", doc="core.resolve(uri): a PYRO uri (object id, and a unix socket name or host and port) or any Exception (name server lookup)")
def core_resolve(E, st, args, kw):
    out = [may_raise(E, st.fork(), "resolve")]
    u = st.new_obj("resolved_uri", object=VOpaque(fresh("uri_object", U)), sockname=VOpt(fresh("uri_no_sockname", BoolS), VStr(fresh("uri_sockname", StrS))),
                   host=VOpaque(fresh("uri_host", U)), port=VOpaque(fresh("uri_port", U)))
    out.insert(0, Res(st, u))
    return out


@R.model("resolved_uri")
class ResolvedUri:
    def getattr(self, E, st, obj, name):
        return None
    methods = {}


@R.spec("Pyro5.socketutil.get_ssl_context", doc="an ssl context object or any Exception")
def get_ssl_context(E, st, args, kw):
    return [Res(st, VOpaque(fresh("ssl_context", U))), may_raise(E, st.fork(), "get_ssl_context")]


@R.spec("Pyro5.socketutil.create_socket", doc="create_socket(connect=...): a NEW connected socket (its own inbound stream, nothing sent yet) or any Exception (OSError, CommunicationError, ...)")
def create_socket(E, st, args, kw):
    out = [may_raise(E, st.fork(), "create_socket")]
    s = new_socket(E, st, fresh_name("connected_sock"))
    st.ghost.setdefault("created_sockets", []).append(s.ref)
    out.insert(0, Res(st, s))
    return out


def _getsockname(self, E, st, sock, args, kw):
    return [Res(st, VOpaque(fresh("sockname", U)))]


from specs.socket_model import SocketModel      # noqa: E402
SocketModel.methods["getsockname"] = _getsockname


@R.spec("Pyro5.socketutil.SocketConnection.family", doc="address family of the connection as text (used in a log line); assumed not to raise")
def conn_family(E, st, args, kw):
    return [Res(st, VStr(fresh("family", StrS)))]


@R.spec("Pyro5.client.Proxy.__processMetadata", doc="stores the metadata sets on the proxy; raises for malformed metadata (any Exception); touches no connection state")
def process_metadata(E, st, args, kw):
    return [Res(st, NONE), may_raise(E, st.fork(), "processMetadata")]


@R.spec("Pyro5.client.Proxy._pyroValidateHandshake", doc="user-overridable hook: user code (any result, any Exception)")
def validate_handshake(E, st, args, kw):
    return user_call(E, st, VOpaque(z3.Const("proxy_validateHandshake_hook", U)), args[1:], kw, kind="validateHandshake")


@R.spec("Pyro5.client.Proxy._pyroGetMetadata", doc="_pyroGetMetadata(objectId): at most one complete get_metadata call through _pyroInvoke (by that function's contract: the reply "
        "stream stays message aligned, or the connection is released), or any Exception")
def get_metadata(E, st, args, kw):
    p = args[0]
    s2 = st.fork()
    # on failure _pyroInvoke may have released the connection
    s3 = st.fork()
    s3.set(p, "_pyroConnection", NONE)
    s3.trace.append("_pyroGetMetadata released the connection")
    return [Res(st, NONE), may_raise(E, s2, "getMetadata"), may_raise(E, s3, "getMetadata")]


def _conn_truth(self, E, st, obj):
    return z3.BoolVal(True)


@R.model("Pyro5.socketutil.SocketConnection")
class ConnModel:
    """a SocketConnection object is truthy (no __len__ / __bool__)"""

    def getattr(self, E, st, obj, name):
        return None

    truth = _conn_truth
    methods = {}


@R.contract
class CreateConnectionBody(Contract):
    name = "Pyro5.client.Proxy.__pyroCreateConnection#body"
    real_name = "Pyro5.client.Proxy.__pyroCreateConnection"
    props = ("C03", "C12")
    variants = ("not-connected", "connected")
    raises = {"builtins.BaseException": "x_any"}
    trusted = ("verified for connected_socket=None (a proxy wrapped around an existing socket does no handshake: property text exempts it)",
               "core.resolve, create_socket, get_ssl_context, __processMetadata, _pyroValidateHandshake (user hook) and _pyroGetMetadata (one _pyroInvoke by its own contract) as specified in "
               "contracts/client_connect.py; SocketConnection.close by its declared contract (does not raise; verified in C13)")

    def setup(self, E, st):
        p = st.new_obj("Pyro5.client.Proxy")
        st.genv = {"current_context": new_call_context(st)}
        st.assume(*config_facts())
        self.seq0 = z3.Int("proxy_seq")
        st.assume(self.seq0 >= 0, self.seq0 < 65536)
        st.heap[p.ref].update(_pyroSeq=VInt(self.seq0), _pyroSerializer=VOpt(z3.Bool("serializer_unset"), VStr(z3.Const("serializer_name", StrS))),
                              _pyroUri=VOpaque(z3.Const("proxy_uri", U)), _pyroHandshake=VOpaque(z3.Const("handshake_data", U)),
                              _Proxy__pyroTimeout=VOpaque(z3.Const("proxy_timeout", U)), _pyroMethods=VOpaque(z3.Const("proxy_methods", U)),
                              _pyroAttrs=VOpaque(z3.Const("proxy_attrs", U)), _pyroLocalSocket=VOpaque(z3.Const("localsock", U)))
        if self.variant == "connected":
            from contracts.socketutil import new_connection
            conn = new_connection(E, st)
            st.heap[p.ref]["_pyroConnection"] = conn
        else:
            st.heap[p.ref]["_pyroConnection"] = NONE
        st.ghost["created_sockets"] = []
        self.p = p
        self.initial_refs = set(st.heap)
        return {"self": p, "replaceUri": VBool(z3.Bool("replaceUri")), "connected_socket": NONE}

    # ---- what happened on the wire along this path
    def exchange(self, st):
        """(connection objects created, per connection: sends, recv_stub calls, closes)"""
        conns = [e for e in st.events if e[0] == "call" and e[1].endswith("SocketConnection.close")]
        return conns

    def handshake_done(self, E, st, conn):
        """one CONNECT sent on conn, one whole reply (CONNECTOK) consumed from it, nothing else read or written"""
        snd = sends_on(st, conn)
        got = [e for e in calls(st, "protocol.recv_stub") if e[2]["connection"].ref == conn.ref]
        ok = len(snd) == 1 and snd[0][1] == "return" and len(got) == 1 and got[0][3] == "return"
        conds = [z3.BoolVal(ok)]
        if ok:
            mobj, margs = message_of(st, snd[0][0])
            conds.append(z3.BoolVal(mobj is not None))
            if mobj is not None:
                ctx_ann = st.get(st.genv["current_context"], "annotations")
                conds += [margs["msgtype"].e == MSG_CONNECT, margs["seq"].e == self.seq0, margs["flags"].e == 0,
                          z3.BoolVal(isinstance(margs["annotations"], VObj) and isinstance(ctx_ann, VObj) and margs["annotations"].ref == ctx_ann.ref)]
            msg = got[0][4]
            acc = got[0][2]["accepted_msgtypes"]
            conds.append(z3.BoolVal(isinstance(acc, VList) and len(acc.items) == 2))
            conds.append(st.get(msg, "type").e == MSG_CONNECTOK)
        return z3.And(conds)

    def all_created_closed_or_kept(self, st, kept):
        """every SocketConnection constructed during the call was closed exactly once, except the one the proxy keeps"""
        made = [e[3] for e in st.events if e[0] == "new_connection"]
        closed = [e[2]["self"].ref for e in calls(st, "SocketConnection.close")]
        ok = True
        for c in made:
            if kept is not None and c.ref == kept.ref:
                ok = ok and closed.count(c.ref) == 0
            else:
                ok = ok and closed.count(c.ref) == 1
        return z3.BoolVal(ok)

    def sockets_wrapped(self, st):
        """a socket that create_socket handed out is wrapped into a connection object (so that it is closed with it) - at most one socket is created per call"""
        made = [e[3] for e in st.events if e[0] == "new_connection"]
        wrapped = {st.get(c, "sock").ref for c in made}
        return z3.BoolVal(len(st.ghost["created_sockets"]) <= 1 and all(r in wrapped for r in st.ghost["created_sockets"]))

    def ensures(self, E, old, st, a, result):
        conn = st.get(self.p, "_pyroConnection")
        if self.variant == "connected":
            return [("already connected: returns False", z3.BoolVal(isinstance(result, VBool)) if not isinstance(result, VBool) else z3.Not(result.e)),
                    ("already connected: no traffic, no new socket, same connection", z3.BoolVal(
                        not calls(st, "SocketConnection.send") and not calls(st, "protocol.recv_stub") and not st.ghost["created_sockets"] and
                        isinstance(conn, VObj) and conn.ref == old.get(self.p, "_pyroConnection").ref))]
        post = [("a new connection was made: returns True", result.e if isinstance(result, VBool) else z3.BoolVal(False)),
                ("the proxy holds a connection created during this call", z3.BoolVal(isinstance(conn, VObj) and conn.ref not in self.initial_refs))]
        if isinstance(conn, VObj):
            post += [("on it exactly one CONNECT (this proxy's sequence number, the context's annotations) went out and exactly one whole reply, a CONNECTOK, was consumed", self.handshake_done(E, st, conn))]
        ctx = st.genv["current_context"]
        ra = st.get(ctx, "response_annotations")
        got = [e for e in calls(st, "protocol.recv_stub") if e[3] == "return"]
        post.append(("C12: afterwards the response annotations are those of the handshake reply, or untouched", z3.BoolVal(
            isinstance(ra, VObj) and (ra.ref == old.get(ctx, "response_annotations").ref or (bool(got) and ra.ref == st.get(got[0][4], "annotations").ref)))))
        return post

    def x_any(self, E, old, st, a, exc):
        conn = st.get(self.p, "_pyroConnection")
        if self.variant == "connected":
            return [("already connected: no traffic", z3.BoolVal(not calls(st, "SocketConnection.send") and not calls(st, "protocol.recv_stub")))]
        released_later = "_pyroGetMetadata released the connection" in st.trace
        if isinstance(conn, VObj):
            return [("a connection kept after a failure is the one made during this call, with the handshake completed on it (stream at a message boundary)",
                     z3.And(z3.BoolVal(conn.ref not in self.initial_refs), self.handshake_done(E, st, conn)))]
        # (a refused or failed handshake closes the connection object it made; a malformed CONNECTOK reply - undecodable, or without the expected fields - leaves
        #  it to the garbage collector: resource hygiene, outside what C03 states)
        refused = [e for e in calls(st, "protocol.recv_stub") if e[3] == "return"]
        post = [("after a failure the proxy holds no connection: no reply can be mistaken for a later call's", z3.BoolVal(isinstance(conn, VNone)))]
        return post


_prev_new_conn = R.specs["Pyro5.socketutil.SocketConnection"]


@R.spec("Pyro5.socketutil.SocketConnection", doc="SocketConnection(sock, objectId): wrapper object around the socket (ghost event new_connection)")
def new_conn_logged(E, st, args, kw):
    rs = _prev_new_conn(E, st, args, kw)
    for r in rs:
        if r.exc is None:
            r.st.event("new_connection", None, None, r.val)
    return rs
