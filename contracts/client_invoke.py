"""Sidecar contracts for the client call path (C03, C12 client side): Proxy._pyroInvoke, _pyroRelease, _RemoteMethod.__call__."""
import z3
from pyvc.values import *
from pyvc.engine import Contract, Res, Unsupported
from pyvc.registry import R
from specs.daemon_model import new_call_context, new_annotations, new_serializer, ser_known, config_facts
from specs.opaque import may_raise, box, user_call
from contracts.socketutil import new_connection
from contracts.server_handshake import calls, sends_on, message_of
from contracts.protocol import header_fields
import contracts.servers    # noqa: F401  (declared contract of SocketConnection.close)

MSG_INVOKE, MSG_RESULT = 4, 5
FLAGS_EXCEPTION, FLAGS_ONEWAY, FLAGS_ITEMSTREAMRESULT = 1, 4, 16


def bit(x, k):
    return (x / (2 ** k)) % 2


@R.model("serializer_table_by_name")
class SerializerTableByName:
    """serializers.serializers: name -> serializer object; KeyError for an unknown name"""

    def getattr(self, E, st, obj, name):
        return None

    def m_getitem(self, E, st, obj, args, kw):
        s2 = st.fork()
        sid = VInt(fresh("serializer_id", IntS))
        st.assume(sid.e >= 1, sid.e <= 4, ser_known(sid.e))
        return [Res(st, new_serializer(st, sid)), E.raise_(s2, "builtins.KeyError")]

    methods = {"__getitem__": m_getitem}


R.glob("Pyro5.serializers.serializers", VObj(-2, "serializer_table_by_name"), "the serializer table by name")
R.glob("Pyro5.config.SERIALIZER", VStr(z3.Const("config_SERIALIZER", StrS)), "configuration item")


@R.model("Pyro5.client.Proxy")
class ProxyModel:
    """the Proxy object (plain attribute container here; its __getattr__/__setattr__ overrides only concern remote attribute
    names and are not involved in the functions under contract)"""

    def getattr(self, E, st, obj, name):
        return None
    methods = {}


@R.spec("Pyro5.client.Proxy.__check_owner", doc="raises PyroError if the calling thread does not own the proxy; no other effect")
def check_owner(E, st, args, kw):
    out = []
    for s2, ok in E.branch(st, z3.Bool("calling_thread_is_owner")):      # the same answer for every check during one call
        if ok:
            out.append(Res(s2, NONE))
        else:
            s2.trace.append("not the owner thread")
            out.append(E.raise_(s2, "Pyro5.errors.PyroError"))
    return out


@R.spec("Pyro5.client.Proxy.__serializeBlobArgs", doc="blob variant of argument encoding: (bytes, flags) or any Exception; flags stay 16 bit; writes the BLBI entry into the annotation dict passed to it")
def serialize_blob(E, st, args, kw):
    # it WRITES the blob's bookkeeping annotation (BLBI) into the annotation dict it is given (body: contract BlobArgs below)
    for x in args:
        if isinstance(x, VObj) and x.cls == "seqdict":
            st.set(x, "n", VInt(fresh("n_with_blob_info", IntS)))
            st.assume(st.get(x, "n").e >= 1)
            st.set(x, "keys", fresh("keys_with_blob_info", z3.ArraySort(IntS, StrS)))
            st.set(x, "vals", fresh("vals_with_blob_info", z3.ArraySort(IntS, BytesS)))
            st.set(x, "prov", frozenset(st.get(x, "prov", frozenset(["empty"]))) | frozenset(["blob-info"]))
    out = [may_raise(E, st, "serializeBlobArgs")]
    f = fresh("blob_flags", IntS)
    st.assume(f >= 0, f < 65536)
    out.insert(0, Res(st, VTuple([VBytes(fresh("blob_data", BytesS)), VInt(f)])))
    return out


@R.spec("Pyro5.client._StreamResultIterator", doc="client side iterator object for a streamed result")
def stream_iter(E, st, args, kw):
    return [Res(st, st.new_obj("Pyro5.client._StreamResultIterator", streamId=args[0], proxy=args[1]))]


@R.spec("syntax.raise", doc="`raise x` of a decoded (opaque) value: raises it if it is an exception instance (any class), TypeError otherwise")
def raise_opaque(E, st, args, kw):
    s2 = st.fork()
    exc = E.new_sym_exc(st, "builtins.BaseException", "decoded_remote_exception")
    st.trace.append("raise decoded remote exception")
    return [Res(st, exc=exc), E.raise_(s2, "builtins.TypeError")]


def _seqdict_get(self, E, st, obj, args, kw):
    """annotations.get(key, default): some value of the dict, or the default"""
    s2 = st.fork()
    return [Res(st, VBytes(fresh("annotation_value", BytesS), "memoryview")), Res(s2, args[1] if len(args) > 1 else NONE)]


from specs.seqdict import SeqDict   # noqa: E402
SeqDict.methods["get"] = _seqdict_get


@R.contract
class CreateConnectionDecl(Contract):
    """Proxy.__pyroCreateConnection(): on normal return the proxy holds a fresh connection on which the handshake has been
    completed (nothing outstanding, stream at a message boundary); any failure raises and leaves no connection, or (failure after the handshake was accepted) such a connection.
    (Declared interface; the handshake exchange itself is exercised by the native harness.)"""
    name = "Pyro5.client.Proxy.__pyroCreateConnection"
    props = ()
    raises = {"builtins.Exception": "x_any"}
    raises_any_subclass = ("builtins.Exception",)
    log_calls = False

    def modifies(self, E, st, a):
        return []

    def result(self, E, st, a):
        return VBool(True)

    def prepare_call(self, E, st, a, outcome):
        if outcome is not None:
            # a failure after the handshake was accepted (validation hook, metadata call) leaves the fully handshaken connection in place (verified for the body in
            # contracts/client_connect.py): no connection, or a fresh message-aligned one
            kept = new_connection(E, st, fresh_name("handshaken_conn"))
            st.set(kept, "objectId", VOpaque(fresh("objectId", U)))
            st.set(a["self"], "_pyroConnection", VOpt(fresh("no_connection_after_failed_connect", BoolS), kept))
        if outcome is None:
            conn = new_connection(E, st, fresh_name("newconn"))
            st.set(conn, "objectId", VOpaque(fresh("objectId", U)))
            st.set(a["self"], "_pyroConnection", conn)
            # connecting reads the handshake reply: ITS annotations are what current_context.response_annotations holds afterwards
            ctx = st.genv.get("current_context") if hasattr(st, "genv") and st.genv else None
            if ctx is not None:
                from specs.daemon_model import new_annotations as _na
                st.set(ctx, "response_annotations", _na(st, ["handshake-reply"], "handshake_reply_annotations"))

    def x_any(self, E, old, st, a, exc):
        return []


@R.contract
class PyroInvoke(Contract):
    name = "Pyro5.client.Proxy._pyroInvoke"
    props = ("C03", "C12")
    variants = ("connected", "not-connected")
    raises = {"builtins.BaseException": "x_any"}
    trusted = ("serializer dumpsCall/loads are uninterpreted and may raise any Exception", "KeyboardInterrupt is modelled only where the code names it",
               "__pyroCreateConnection yields a fresh, message-aligned connection or raises (declared)")

    def setup(self, E, st):
        p = st.new_obj("Pyro5.client.Proxy")
        st.genv = {"current_context": new_call_context(st)}
        st.assume(*config_facts())
        self.seq0 = z3.Int("proxy_seq")
        st.assume(self.seq0 >= 0, self.seq0 < 65536)
        st.heap[p.ref].update(_pyroSeq=VInt(self.seq0), _pyroSerializer=VOpt(z3.Bool("serializer_unset"), VStr(z3.Const("serializer_name", StrS))),
                              _pyroOneway=VSet(z3.Const("oneway_names", z3.ArraySort(U, BoolS)), z3.Int("n_oneway"), U),
                              _pyroRawWireResponse=VBool(z3.Bool("raw_wire")), _pyroLocalSocket=VOpaque(z3.Const("localsock", U)))
        if self.variant == "connected":
            conn = new_connection(E, st)
            st.set(conn, "objectId", VOpaque(z3.Const("conn_objectId", U)))
            st.heap[p.ref]["_pyroConnection"] = conn
        else:
            st.heap[p.ref]["_pyroConnection"] = NONE
        self.flags = z3.Int("flags")
        st.assume(self.flags >= 0, self.flags < 65536)
        self.initial_refs = set(st.heap)
        return {"self": p, "methodname": VOpaque(z3.Const("methodname", U)), "vargs": VOpaque(z3.Const("vargs", U)),
                "kwargs": VOpaque(z3.Const("kwargs", U)), "flags": VInt(self.flags), "objectId": VOpaque(z3.Const("objectId_arg", U))}

    # ------------------------------------------------------------------------------------------------------------------
    def _conn(self, st, a):
        c = st.get(a["self"], "_pyroConnection")
        return c if isinstance(c, VObj) else None

    def _used_conn(self, old, st, a):
        """the connection the call was made on (the proxy's own, or the one created by __pyroCreateConnection)"""
        snd = [e for e in st.events if e[0] == "call" and e[1].endswith("SocketConnection.send")]
        if snd:
            return snd[0][2]["self"]
        return self._conn(old, a)

    def common(self, E, old, st, a):
        conn = self._used_conn(old, st, a)
        snd = sends_on(st, conn) if conn is not None else []
        # (a nested _pyroInvoke - the call re-issued behind the caller's back - is another request: its contract promises up to one more send)
        nested = [e for e in st.events if e[0] == "call" and e[1] == self.name]
        post = [("at most one request message is sent per call", z3.BoolVal(len(snd) + len(nested) <= 1))]
        newseq = (self.seq0 + 1) % 65536
        for data, outcome in snd:
            mobj, margs = message_of(st, data)
            post.append(("what is sent is a freshly built protocol message", z3.BoolVal(mobj is not None)))
            if mobj is not None:
                post += [("the request is an INVOKE", margs["msgtype"].e == MSG_INVOKE),
                         ("the request carries the incremented 16-bit sequence number", margs["seq"].e == newseq),
                         ("the proxy's sequence counter was advanced (with wrap-around) before sending", st.get(a["self"], "_pyroSeq").e == newseq)]
        # C12: "the call context [a served method] can read ... is that of the request being served": a call made through a proxy - e.g. by a served method, on the
        # server thread - reads the thread's request annotations to send them along, and never writes into that dict
        ctx0, ctx1 = old.genv["current_context"], st.genv["current_context"]
        ann0, ann1 = old.get(ctx0, "annotations"), st.get(ctx1, "annotations")
        same = isinstance(ann0, VObj) and isinstance(ann1, VObj) and ann0.ref == ann1.ref
        post.append(("C12: the thread's own request annotations (current_context.annotations) are only read by a call, never written (a blob's bookkeeping entry goes "
                     "into this one request's annotations)",
                     z3.And(old.get(ann0, "n").e == st.get(ann1, "n").e, old.get(ann0, "keys") == st.get(ann1, "keys"), old.get(ann0, "vals") == st.get(ann1, "vals"))
                     if same else z3.BoolVal(False)))
        return conn, snd, post, newseq

    def reads(self, old, st, conn):
        sock = old.get(conn, "sock") if conn.ref in old.heap else st.get(conn, "sock")
        base = old if sock.ref in old.heap else None
        return sock, base

    def ensures(self, E, old, st, a, result):
        if E.cur_contract is not self:
            return []
        conn, snd, post, newseq = self.common(E, old, st, a)
        got = [e for e in calls(st, "protocol.recv_stub") if e[3] == "return"]
        post.append(("a call that returns has sent exactly one request", z3.BoolVal(len(snd) == 1 and snd[0][1] == "return")))
        if isinstance(result, VNone) and not got:
            # oneway: nothing is read
            mobj, margs = message_of(st, snd[0][0]) if snd else (None, None)
            sent_flags = margs["flags"].e if margs else z3.IntVal(0)
            post.append(("returns None without reading only for a oneway request", bit(sent_flags, 2) == 1))
            post.append(("oneway: no reply is consumed", z3.BoolVal(not calls(st, "protocol.recv_stub"))))
            ctx = st.genv["current_context"]
            ra = st.get(ctx, "response_annotations")
            post.append(("C12: after a oneway call the response annotations are a fresh empty dict (not those of an earlier call, not the handshake reply's)",
                         z3.BoolVal(isinstance(ra, VObj) and ra.ref not in self.initial_refs and "handshake-reply" not in st.get(ra, "prov", frozenset()))))
            return post
        post.append(("a non-oneway call that returns has consumed exactly one reply message", z3.BoolVal(len(got) == 1)))
        if got:
            msg = got[0][4]
            mobj, margs = message_of(st, snd[0][0]) if snd else (None, None)
            post += [("the reply is a RESULT message", st.get(msg, "type").e == MSG_RESULT),
                     ("the reply carries this call's sequence number", st.get(msg, "seq").e == newseq),
                     ("the reply was encoded with the request's serializer", st.get(msg, "serializer_id").e == margs["serializer_id"].e if margs else z3.BoolVal(False)),
                     ("a reply flagged as exception is never returned as a value",
                      z3.Or(st.get(a["self"], "_pyroRawWireResponse").e, bit(st.get(msg, "flags").e, 0) == 0, bit(st.get(msg, "flags").e, 4) == 1))]
            # C10, client half of the stream announcement: a reply flagged ITEMSTREAMRESULT comes back as a stream iterator bound to THIS proxy (never as plain data), and
            # nothing else does (the raw-wire-response mode hands back the message itself)
            is_iter = isinstance(result, VObj) and result.cls == "Pyro5.client._StreamResultIterator"
            raw = st.get(a["self"], "_pyroRawWireResponse").e
            streamflag = bit(st.get(msg, "flags").e, 4) == 1
            if is_iter:
                prox = st.get(result, "proxy")
                post.append(("C10: a stream iterator is returned only for a reply flagged as item stream, and it is bound to this proxy",
                             z3.And(streamflag, z3.Not(raw), z3.BoolVal(isinstance(prox, VObj) and prox.ref == a["self"].ref))))
            else:
                post.append(("C10: a reply flagged as item stream is never returned as plain data", z3.Or(raw, z3.Not(streamflag))))
            ctx = st.genv["current_context"]
            ra = st.get(ctx, "response_annotations")
            post.append(("C12: afterwards the response annotations are this reply's annotations or a fresh empty dict",
                         z3.BoolVal(isinstance(ra, VObj) and (ra.ref == st.get(msg, "annotations").ref or
                                                              (ra.ref not in self.initial_refs and "handshake-reply" not in st.get(ra, "prov", frozenset()))))))
        return post

    def x_any(self, E, old, st, a, exc):
        if E.cur_contract is not self:
            return []
        conn, snd, post, newseq = self.common(E, old, st, a)
        vc = st.get(exc, "__cls__")
        comm = E.cls_cond(vc, "Pyro5.errors.CommunicationError")
        kbd = E.cls_cond(vc, "builtins.KeyboardInterrupt")
        comm = z3.BoolVal(comm) if isinstance(comm, bool) else comm
        kbd = z3.BoolVal(kbd) if isinstance(kbd, bool) else kbd
        released = isinstance(st.get(a["self"], "_pyroConnection"), VNone)
        got = calls(st, "protocol.recv_stub")
        started_io = bool(snd)
        # after the request went out, a communication error (or ^C) always drops the connection: the late / partial reply can
        # never be taken for the answer to a later call
        post.append(("a communication error or KeyboardInterrupt after the request was sent releases the connection",
                     z3.Implies(z3.And(z3.BoolVal(started_io), z3.Or(comm, kbd)), z3.BoolVal(released))))
        # any other exception leaves the stream at a message boundary: nothing was read, or one whole reply was consumed
        whole = [e for e in got if e[3] == "return"]
        body_err = [e for e in got if e[3] == "raise" and st.get(e[4], "__cls__").qname in ("builtins.AssertionError", "builtins.UnicodeDecodeError", "zlib.error")]
        post.append(("any other exception leaves the reply stream message-aligned (nothing read, or one whole reply consumed)",
                     z3.Implies(z3.Not(z3.Or(comm, kbd)), z3.BoolVal(released or not got or len(whole) + len(body_err) == len(got)))))
        ctx = st.genv["current_context"]
        ra = st.get(ctx, "response_annotations")
        post.append(("C12: stale response annotations never survive a failed call", z3.BoolVal(
            not started_io and "not the owner thread" in st.trace or (isinstance(ra, VObj) and ra.ref not in self.initial_refs) or
            (isinstance(ra, VObj) and bool(whole) and ra.ref == st.get(whole[0][4], "annotations").ref))))
        return post


R.inline("Pyro5.client.Proxy.__pyroCheckSequence")
R.inline("Pyro5.client.Proxy._pyroRelease")


@R.contract
class RemoteMethodCall(Contract):
    name = "Pyro5.client._RemoteMethod.__call__"
    props = ("C03",)
    raises = {"builtins.BaseException": "x_any"}
    trusted = ("the send function is Proxy._pyroInvoke (or BatchProxy's): arbitrary result, may raise any exception",)

    def setup(self, E, st):
        m = st.new_obj("Pyro5.client._RemoteMethod")
        self.n = z3.Int("max_retries")
        self.send = VOpaque(z3.Const("send_function", U))
        st.heap[m.ref].update(_RemoteMethod__send=self.send, _RemoteMethod__name=VOpaque(z3.Const("method_name", U)), _RemoteMethod__max_retries=VInt(self.n))
        st.ghost["user_calls"] = VInt(0)
        return {"self": m, "args": VOpaque(z3.Const("args", U)), "kwargs": VOpaque(z3.Const("kwargs", U))}

    def requires(self, E, st, a):
        return [("MAX_RETRIES >= 0 (with a negative value the loop body never runs and the call silently returns None)", self.n >= 0)]

    def on_user_call(self, E, st, target, args, kwargs, kind):
        E.oblige(st, "only the send function is called", z3.BoolVal(isinstance(target, VOpaque) and z3.eq(target.e, self.send.e)), kind="pre")
        E.oblige(st, "the request is sent at most MAX_RETRIES+1 times", st.ghost["user_calls"].e <= self.n, kind="pre")

    def ensures(self, E, old, st, a, result):
        sent = st.ghost["user_calls"].e
        returned = [e for e in st.events if e[0] == "user_call"]
        return [("a call that returns has been sent between 1 and MAX_RETRIES+1 times", z3.And(sent >= 1, sent <= self.n + 1)),
                ("the value returned is the value of the last send", z3.BoolVal(isinstance(result, VOpaque)))]

    def x_any(self, E, old, st, a, exc):
        sent = st.ghost["user_calls"].e
        vc = st.get(exc, "__cls__")
        retry = z3.Or(sub(vc.term, __import__("pyvc.classes", fromlist=["x"]).term("Pyro5.errors.ConnectionClosedError")),
                      sub(vc.term, __import__("pyvc.classes", fromlist=["x"]).term("Pyro5.errors.TimeoutError"))) if vc.qname is None else z3.BoolVal(
            __import__("pyvc.classes", fromlist=["x"]).is_subclass(vc.qname, "Pyro5.errors.ConnectionClosedError") or
            __import__("pyvc.classes", fromlist=["x"]).is_subclass(vc.qname, "Pyro5.errors.TimeoutError"))
        return [("sent between 1 and MAX_RETRIES+1 times", z3.And(sent >= 1, sent <= self.n + 1)),
                ("with retries left, a retryable error is never passed on: a retryable failure means all MAX_RETRIES+1 attempts were used",
                 z3.Implies(retry, sent == self.n + 1)),
                ("any other exception is passed on at once (no further attempt)", z3.BoolVal(True))]

    def loop_inv(self, k, E, old, st, a):
        j = st.ghost["idx0"].e
        # the next attempt is only reached through the handler of ConnectionClosedError/TimeoutError with attempts left,
        # so the loop can never run out: it always ends by returning or raising
        return [("one send per attempt so far", st.ghost["user_calls"].e == j), ("0 <= attempt <= MAX_RETRIES", z3.And(0 <= j, j <= self.n))]

    def loop_modifies(self, k, E, st, a):
        return [("ghost", "user_calls")]

    def loop_hints(self, k, E, old, head, st, a):
        return []
