"""Sidecar contracts for the daemon registry (C16): Daemon.register, Daemon.unregister, Daemon.uriFor, DaemonObject.registered and the
auto-proxy hook _pyro_obj_to_auto_proxy, over the registry model (objectsById as dom/map arrays) and an attribute model for the three
attributes Pyro puts on registered objects (_pyroId, _pyroDaemon, _pyroInstancing).  Frame conditions are stated for one arbitrary id
(`any_object_id`, a free constant = every id)."""
import z3
from pyvc.values import *
from pyvc.engine import Contract, Res, Unsupported
from pyvc.registry import R
from specs.opaque import may_raise, box, box_facts, is_class, instance_of
from specs.daemon_model import new_daemon
import contracts.server_dispatch as D      # deref (weak reference unpacking) and the declared callees

KSTAR = z3.Const("any_object_id", U)
ATTRS = ("_pyroId", "_pyroDaemon", "_pyroInstancing")
is_weakref = z3.Function("isinstance_weakref.ref", U, BoolS)
weakref_to = z3.Function("weakref_to", U, U)
DAEMON_KEY = box_str(z3.StringVal("Pyro.Daemon"))


uri_object_of = z3.Function("object_id_the_uri_of_this_id_designates", U, U)     # URI("PYRO:<id>@<location>").object, boxed


def new_attrs(st):
    a = st.new_obj("attr_state")
    for n in ATTRS:
        st.set(a, "has" + n, z3.Const("has" + n, z3.ArraySort(U, BoolS)))
        st.set(a, "val" + n, z3.Const("val" + n, z3.ArraySort(U, U)))
    st.ghost["attrs"] = a
    return a


def has_attr(st, x, n):
    return z3.Select(st.get(st.ghost["attrs"], "has" + n), x)


def attr_val(st, x, n):
    return z3.Select(st.get(st.ghost["attrs"], "val" + n), x)


def _const_name(n):
    s = z3.simplify(n.e if isinstance(n, VStr) else unbox_str(n.e))
    return s.as_string() if z3.is_string_value(s) else None


@R.spec("U.hasattr", doc="hasattr(x, name) for the Pyro attributes of an object: the attribute model; other names: uninterpreted")
def u_hasattr(E, st, args, kw):
    x, n = args
    name = _const_name(n)
    if name in ATTRS and "attrs" in st.ghost:
        return [Res(st, VBool(has_attr(st, x.e, name)))]
    return [Res(st, VBool(z3.Function("u_hasattr", U, StrS, BoolS)(x.e, n.e)))]


@R.spec("U.setattr", doc="x.name = v for the Pyro attributes of an object: the attribute model (plain objects and classes: never raises)")
def u_setattr(E, st, args, kw):
    x, n, v = args
    name = _const_name(n)
    if name in ATTRS and "attrs" in st.ghost:
        a = st.ghost["attrs"]
        st.set(a, "has" + name, z3.Store(st.get(a, "has" + name), x.e, z3.BoolVal(True)))
        try:
            bv = box(v)
            st.assume(*box_facts(v))
        except Unsupported:
            bv = fresh("stored_value", U)       # a value the attribute model does not look into (e.g. the instancing tuple)
            st.assume(bv != U_NONE)
        st.set(a, "val" + name, z3.Store(st.get(a, "val" + name), x.e, bv))
        st.event("setattr", x.e, name, v)
        return [Res(st, NONE)]
    raise Unsupported("attribute store %s on an opaque value" % name)


@R.spec("U.delattr", doc="del x.name for the Pyro attributes of an object: AttributeError if absent")
def u_delattr(E, st, args, kw):
    x, n = args
    name = _const_name(n)
    if name in ATTRS and "attrs" in st.ghost:
        out = []
        for s2, has in E.branch(st, has_attr(st, x.e, name)):
            if has:
                a = s2.ghost["attrs"]
                s2.set(a, "has" + name, z3.Store(s2.get(a, "has" + name), x.e, z3.BoolVal(False)))
                s2.event("delattr", x.e, name)
                out.append(Res(s2, NONE))
            else:
                out.append(E.raise_(s2, "builtins.AttributeError"))
        return out
    raise Unsupported("attribute delete %s on an opaque value" % name)


@R.spec("weakref.ref", doc="weakref.ref(x): a weak reference object whose referent is x (TypeError for objects that cannot be weakly referenced)")
def weakref_ref(E, st, args, kw):
    x = args[0]
    w = weakref_to(box(x))
    s2 = st.fork()
    st.assume(is_weakref(w), D.deref(w) == box(x), w != U_NONE)
    return [Res(st, VOpaque(w)), E.raise_(s2, "builtins.TypeError")]


@R.spec("Pyro5.server._unpack_weakref", doc="the object itself, or the referent of a weak reference (DaemonError if the referent is gone); None stays None "
                                            "(4-line repo function, taken as specified)")
def unpack_weakref_exact(E, st, args, kw):
    x = box(args[0])
    s2 = st.fork()
    s2.assume(is_weakref(x), D.deref(x) == U_NONE)
    st.assume(z3.Implies(is_weakref(x), D.deref(x) != U_NONE))
    return [Res(st, VOpaque(z3.If(is_weakref(x), D.deref(x), x))), E.raise_(s2, "Pyro5.errors.DaemonError")]


@R.spec("weakref.finalize", doc="registers a callback for when x is collected: event only")
def weakref_finalize(E, st, args, kw):
    st.event("finalize", args[0], args[1:], dict(kw))
    return [Res(st, VOpaque(fresh("finalizer", U)))]


@R.spec("Pyro5.core.URI", doc="URI(text): an object carrying that text (C19 has the parser's own contract); PyroError for malformed text")
def uri_ctor(E, st, args, kw):
    s2 = st.fork()
    return [Res(st, st.new_obj("Pyro5.core.URI", text=args[0])), E.raise_(s2, "Pyro5.errors.PyroError")]


@R.spec("uuid.uuid4", doc="a fresh uuid object; .hex is some 32-character text")
def uuid4_hex(E, st, args, kw):
    h = fresh("uuid_hex", StrS)
    st.assume(z3.Length(h) == 32)
    return [Res(st, st.new_obj("uuid.UUID", bytes=VBytes(fresh("uuid4_bytes", BytesS)), hex=VStr(h)))]


def str_box(t):
    """boxing of strings is injective: a str-valued term is the box of its text"""
    return z3.Implies(is_str(t), box_str(unbox_str(t)) == t)


class _SerTable(V):
    """serializers.serializers.values(): the four serializer objects"""


@R.model("type_replacement_target")
class SerializerForReplacement:
    def getattr(self, E, st, obj, name):
        return None

    def m_register(self, E, st, obj, args, kw):
        st.event("type_replacement", st.get(obj, "name"), args[0], args[1])
        return [Res(st, NONE)]

    methods = {"register_type_replacement": m_register}


@R.model("serializer_name_table")
class SerializerNameTable:
    def getattr(self, E, st, obj, name):
        return None

    def m_values(self, E, st, obj, args, kw):
        return [Res(st, VTuple([st.new_obj("type_replacement_target", name=n) for n in ("serpent", "marshal", "json", "msgpack")]))]

    methods = {"values": m_values}


R.glob("Pyro5.serializers.serializers", VObj(-7, "serializer_name_table"), "name -> serializer object table (four entries)")
R.spec("Pyro5.server._pyro_obj_to_auto_proxy#ref", doc="placeholder so the hook function can be passed by reference")(lambda E, st, a, k: [Res(st, NONE)])


def _registry(st, d):
    return st.get(d, "objectsById")


def _entry(st, d, k):
    reg = _registry(st, d)
    return z3.Select(st.get(reg, "dom"), k), z3.Select(st.get(reg, "map"), k)


def same_entry(old, st, d, k):
    p0, v0 = _entry(old, d, k)
    p1, v1 = _entry(st, d, k)
    return z3.And(p0 == p1, z3.Implies(p0, v0 == v1))


def same_attrs(old, st, x, names=ATTRS):
    return z3.And([z3.And(has_attr(old, x, n) == has_attr(st, x, n), z3.Implies(has_attr(old, x, n), attr_val(old, x, n) == attr_val(st, x, n))) for n in names])


class _RegBase(Contract):
    props = ("C16",)
    no_join = True
    log_calls = False
    trusted = ("objectsById is a dict (model: key set + map arrays), sequential semantics; the registered object / class is a plain Python object: setting or "
               "deleting _pyroId/_pyroDaemon/_pyroInstancing on it never runs user code; weakref.ref / weakref.finalize / inspect.isclass as specified; "
               "a uuid4-generated id is not assumed to be fresh (a clash is refused like any other duplicate id)",)

    def mk(self, E, st):
        self.d = new_daemon(E, st)
        new_attrs(st)
        st.set(self.d, "natLocationStr", VOpaque(z3.Const("natLocationStr", U)))
        st.set(self.d, "locationStr", VOpaque(z3.Const("locationStr", U)))
        st.assume(is_str(DAEMON_KEY), unbox_str(DAEMON_KEY) == z3.StringVal("Pyro.Daemon"), DAEMON_KEY != U_NONE, z3.Not(is_class(U_NONE)), z3.Not(is_str(U_NONE)), z3.Not(is_weakref(U_NONE)))
        return self.d

    def pair_invariant(self, st, x):
        """Pyro puts _pyroId and _pyroDaemon on an object together and removes them together"""
        return has_attr(st, x, "_pyroId") == has_attr(st, x, "_pyroDaemon")

    def opaque_getattr(self, E, st, x, n, default):
        name = _const_name(n)
        if name in ATTRS:
            out = []
            for s2, has in E.branch(st, has_attr(st, x.e, name)):
                if has:
                    out.append(Res(s2, VOpaque(attr_val(s2, x.e, name))))
                elif default is not None:
                    out.append(Res(s2, default))
                else:
                    out.append(E.raise_(s2, "builtins.AttributeError"))
            return out
        return None

    def user_call_may_raise(self, E, st, target, kind):
        return False

    def after_user_call(self, E, st, target, args, kwargs, kind, res):
        # the only opaque callable called here is a weak reference: calling it yields its referent (or None when collected)
        st.assume(res.e == D.deref(target.e))

    def on_user_call(self, E, st, target, args, kwargs, kind):
        E.oblige(st, "the only object ever called is a weak reference taken from the registry", is_weakref(target.e), kind="pre")


@R.spec("Pyro5.server.Daemon.uriFor", doc="declared at call sites: a URI object for the id (verified separately below), or DaemonError / PyroError")
def uri_for_decl(E, st, args, kw):
    s2, s3 = st.fork(), st.fork()
    u = st.new_obj("Pyro5.core.URI", for_id=args[1])
    try:
        t = uri_object_of(box(args[1]))
        idb = box(args[1])
        ueq = z3.Function("u_eq", U, U, BoolS)
        st.assume(str_box(t), is_str(t), str_box(idb), *box_facts(args[1]))                                # (URI.object is a str; boxing is injective)
        st.assume(z3.Implies(is_str(idb), z3.And(ueq(t, idb) == (t == idb), ueq(idb, t) == (t == idb))))   # == between two str objects is equality of their text
        st.set(u, "object", VOpaque(t))      # the object id the uri's text form designates (C19 has the parser's contract)
    except Unsupported:
        pass
    st.event("uriFor", args[1])
    out = [Res(st, u), E.raise_(s3, "Pyro5.errors.PyroError")]
    if not isinstance(args[1], VStr):
        # DaemonError only for an object (not an id string) that is not registered - see the body contract below
        if isinstance(args[1], VOpaque):
            s2.assume(z3.Not(is_str(args[1].e)))
        out.append(E.raise_(s2, "Pyro5.errors.DaemonError"))
    return out


@R.contract
class Register(_RegBase):
    name = "Pyro5.server.Daemon.register"
    raises = {"Pyro5.errors.DaemonError": "x_refused", "builtins.TypeError": "x_type", "Pyro5.errors.PyroError": "x_uri"}
    variants = ("given-id", "generated-id")

    def setup(self, E, st):
        d = self.mk(E, st)
        self.obj = VOpaque(z3.Const("obj_or_class", U))
        st.assume(self.obj.e != U_NONE)
        empty = box_str(z3.StringVal(""))
        st.assume(str_box(attr_val(st, self.obj.e, "_pyroId")), is_str(empty), unbox_str(empty) == z3.StringVal(""))
        self.force = z3.Const("force", BoolS)
        self.weak = z3.Const("weak", BoolS)
        if self.variant == "given-id":
            self.oid = VOpaque(z3.Const("objectId", U))
            st.assume(self.oid.e != U_NONE, z3.Implies(is_str(self.oid.e), z3.Length(unbox_str(self.oid.e)) > 0) if False else z3.BoolVal(True))
            oid = self.oid
        else:
            oid = NONE
        return {"self": d, "obj_or_class": self.obj, "objectId": oid, "force": VBool(self.force), "weak": VBool(self.weak)}

    def final_id(self, st):
        """the id the object ended up registered under (its _pyroId after the call)"""
        return attr_val(st, self.obj.e, "_pyroId")

    def ensures(self, E, old, st, a, result):
        o = self.obj.e
        k = self.final_id(st)
        p1, v1 = _entry(st, self.d, k)
        p0k, _ = _entry(old, self.d, k)
        post = [("afterwards the object carries its id and its daemon", z3.And(has_attr(st, o, "_pyroId"), has_attr(st, o, "_pyroDaemon"),
                                                                               attr_val(st, o, "_pyroDaemon") == z3.Const("obj#%d" % self.d.ref, U))),
                ("the id designates exactly this object (a weak reference to it when weak=True)",
                 z3.And(p1, z3.If(self.weak, z3.And(is_weakref(v1), D.deref(v1) == o), v1 == o))),
                ("every other id is untouched", z3.Implies(KSTAR != k, same_entry(old, st, self.d, KSTAR))),
                ("an id already in use is taken over only when forced", z3.Implies(p0k, self.force)),
                ("the daemon's own object is never replaced: its id is not available for registration, forced or not", k != DAEMON_KEY),
                ("the registered id is the id the returned uri (and every proxy made from it) designates", uri_object_of(k) == k),
                ("the uri handed back is the one for that id", z3.BoolVal(isinstance(result, VObj) and result.cls == "Pyro5.core.URI")),
                ("a class is never registered weakly", z3.Not(z3.And(is_class(o), self.weak))),
                ("the object's id and daemon attributes come together", self.pair_invariant(st, o))]
        fin = [e for e in st.events if e[0] == "finalize"]
        post.append(("a collection callback is installed exactly for weak registrations", z3.BoolVal(len(fin) <= 1) if len(fin) > 1 else (z3.BoolVal(bool(fin)) == self.weak)))
        for e in fin:
            cb = e[2][0] if e[2] else None
            unconditional = isinstance(cb, VBound) and cb.name == "unregister"
            # Daemon.unregister(id) forgets the id whatever it designates (contract below): used as the collection callback it would also
            # remove an object registered under the same id later (after an unregister or a forced take-over)
            post.append(("collecting a weakly registered object may forget its id only while the id still designates that object "
                         "(the callback must not be the unconditional unregister-by-id)", z3.BoolVal(not unconditional)))
            if isinstance(cb, VBound) and cb.name != "unregister":
                post.append(("the callback is the daemon's own collected-object handler, for this id and this weak reference",
                             z3.BoolVal(cb.name == "_unregister_collected" and isinstance(cb.recv, VObj) and cb.recv.ref == self.d.ref and len(e[2]) == 3)))
                if len(e[2]) == 3 and isinstance(e[2][2], VOpaque):
                    post.append(("... bound to the id just registered and to the very weak reference stored under it", z3.And(box(e[2][1]) == k, e[2][2].e == v1)))
        if self.variant == "given-id":
            given = z3.And(self.oid.e != U_NONE, truthy(self.oid.e))
            post.append(("a given (non-empty) id is the one used, and it is a string; otherwise an id is generated", z3.And(is_str(k), z3.Implies(given, k == self.oid.e))))
        else:
            post.append(("a generated id is a string", is_str(k)))
        # re-registration of the same object under a second id without force is refused
        pid0 = attr_val(old, o, "_pyroId")
        had = z3.And(has_attr(old, o, "_pyroId"), pid0 != box_str(z3.StringVal("")), pid0 != U_NONE, truthy(pid0))
        p_old, v_old = _entry(old, self.d, pid0)
        still = z3.And(had, p_old, z3.If(is_weakref(v_old), D.deref(v_old) == o, v_old == o))
        post.append(("an object that is currently registered is registered again only when forced", z3.Implies(still, self.force)))
        return post

    def unchanged(self, old, st):
        return [("a refused registration changes no registry entry", same_entry(old, st, self.d, KSTAR)),
                ("... and leaves the object's id and daemon attributes alone", same_attrs(old, st, self.obj.e, ("_pyroId", "_pyroDaemon")))]

    def x_refused(self, E, old, st, a, exc):
        ev = [e for e in st.events if e[0] == "uriFor"]
        asked = box(ev[0][1]) if ev else U_NONE
        return self.unchanged(old, st) + [("refused only when not forced, or for the daemon's own id, or for an id the uri would not designate",
                                           z3.Or(z3.Not(self.force), asked == DAEMON_KEY, uri_object_of(asked) != asked))]

    def x_type(self, E, old, st, a, exc):
        # (weak=True on an object that cannot be weakly referenced fails after the id attributes were set: the registry is untouched,
        #  the stale attributes are harmless because the auto-proxy hook goes by the registry - see AutoProxy)
        return self.unchanged(old, st)[:1]

    def x_uri(self, E, old, st, a, exc):
        # an id that cannot be written into a uri (e.g. one containing whitespace) is refused BEFORE anything is registered
        return self.unchanged(old, st)


@R.contract
class Unregister(_RegBase):
    name = "Pyro5.server.Daemon.unregister"
    raises = {"Pyro5.errors.DaemonError": "x_unchanged", "builtins.ValueError": "x_unchanged"}
    variants = ("by-id", "by-object")

    def setup(self, E, st):
        d = self.mk(E, st)
        if self.variant == "by-id":
            self.sid = z3.Const("objectId_text", StrS)
            self.arg = VStr(self.sid)
            st.assume(*box_facts(self.arg))
            st.assume(str_box(box_str(self.sid)))
        else:
            self.arg = VOpaque(z3.Const("objectOrId", U))
            st.assume(z3.Not(is_str(self.arg.e)), self.arg.e != U_NONE, self.pair_invariant(st, self.arg.e), str_box(attr_val(st, self.arg.e, "_pyroId")))
        return {"self": d, "objectOrId": self.arg}

    def the_id(self, old):
        return box_str(self.sid) if self.variant == "by-id" else attr_val(old, self.arg.e, "_pyroId")

    def ensures(self, E, old, st, a, result):
        k = self.the_id(old)
        p0, v0 = _entry(old, self.d, k)
        p1, _ = _entry(st, self.d, k)
        post = [("the daemon's own object cannot be unregistered", z3.Implies(k == DAEMON_KEY, same_entry(old, st, self.d, KSTAR))),
                ("afterwards the id is unknown", z3.Implies(k != DAEMON_KEY, z3.Not(p1))),
                ("every other id is untouched", z3.Implies(KSTAR != k, same_entry(old, st, self.d, KSTAR)))]
        if self.variant == "by-object":
            o = self.arg.e
            designated = z3.If(is_weakref(v0), D.deref(v0), v0)
            post += [("unregistering an object removes an id only if that id designates this very object now (a stale or inherited id attribute "
                      "never removes another object's registration)", z3.Implies(z3.And(p0, z3.Not(p1)), designated == o)),
                     ("an object that was registered loses its id and daemon attributes (it travels by value from now on)",
                      z3.Implies(z3.And(k != DAEMON_KEY, p0), z3.And(z3.Not(has_attr(st, o, "_pyroId")), z3.Not(has_attr(st, o, "_pyroDaemon"))))),
                     ("nothing changes for an id that was not registered", z3.Implies(z3.Not(p0), same_attrs(old, st, o))),
                     ("the object's id and daemon attributes still come and go together", self.pair_invariant(st, o))]
        else:
            anyobj = z3.Const("any_object", U)
            post.append(("unregistering BY ID touches no object's id / daemon attributes: the object that held the id may still be registered under another id (and must then "
                         "keep being sent as a proxy), and whether it travels by value afterwards is decided by the registry, not by a cleared attribute", same_attrs(old, st, anyobj)))
        return post

    def x_unchanged(self, E, old, st, a, exc):
        post = [("a refused unregistration changes nothing", same_entry(old, st, self.d, KSTAR))]
        if self.variant == "by-object":
            post.append(("... not the object's attributes either", same_attrs(old, st, self.arg.e)))
        return post


@R.contract
class UriFor(_RegBase):
    name = "Pyro5.server.Daemon.uriFor#body"
    real_name = "Pyro5.server.Daemon.uriFor"
    raises = {"Pyro5.errors.DaemonError": "x_unknown", "Pyro5.errors.PyroError": "x_text"}
    variants = ("by-id", "by-object")

    def setup(self, E, st):
        d = self.mk(E, st)
        self.arg = VOpaque(z3.Const("objectOrId", U))
        st.assume(self.arg.e != U_NONE)
        if self.variant == "by-id":
            st.assume(is_str(self.arg.e))
        else:
            st.assume(z3.Not(is_str(self.arg.e)))
        return {"self": d, "objectOrId": self.arg, "nat": VBool(z3.Const("nat", BoolS))}

    def ensures(self, E, old, st, a, result):
        post = [("the registry is only read", same_entry(old, st, self.d, KSTAR))]
        if self.variant == "by-object":
            o = self.arg.e
            pid = attr_val(old, o, "_pyroId")
            p_, v_ = _entry(old, self.d, pid)
            target = z3.If(is_weakref(v_), D.deref(v_), v_)
            post.append(("an object gets a uri only while its id designates it (or the class it is an instance of) in this daemon",
                         z3.And(has_attr(old, o, "_pyroId"), pid != U_NONE, p_, z3.Or(target == o, z3.And(is_class(target), instance_of(o, target))))))
        return post

    def x_unknown(self, E, old, st, a, exc):
        if self.variant != "by-object":
            return [("an id string is never refused as unregistered (it is just text)", z3.BoolVal(False))]
        o = self.arg.e
        pid = attr_val(old, o, "_pyroId")
        p_, v_ = _entry(old, self.d, pid)
        target = z3.If(is_weakref(v_), D.deref(v_), v_)
        designated = z3.And(has_attr(old, o, "_pyroId"), pid != U_NONE, p_, z3.Or(target == o, z3.And(is_class(target), instance_of(o, target))))
        return [("refused only for an object whose id does not designate it (or its class) here, or whose weak registration has died", z3.Or(z3.Not(designated), is_weakref(v_))),
                ("the registry is only read", same_entry(old, st, self.d, KSTAR))]

    def x_text(self, E, old, st, a, exc):
        return [("the registry is only read", same_entry(old, st, self.d, KSTAR))]


@R.spec("Pyro5.server.Daemon.proxyFor", doc="declared: a proxy for a registered object (event), or DaemonError")
def proxy_for(E, st, args, kw):
    st.event("proxyFor", args[0], args[1])
    s2 = st.fork()
    return [Res(st, st.new_obj("Pyro5.client.Proxy", for_obj=args[1])), E.raise_(s2, "Pyro5.errors.DaemonError")]


@R.contract
class AutoProxy(_RegBase):
    name = "Pyro5.server._pyro_obj_to_auto_proxy"
    raises = {"Pyro5.errors.DaemonError": "x_any"}
    variants = ("has-daemon", "no-daemon")

    def setup(self, E, st):
        d = self.mk(E, st)
        self.obj = VOpaque(z3.Const("obj", U))
        st.assume(self.obj.e != U_NONE)
        if self.variant == "has-daemon":
            st.assume(has_attr(st, self.obj.e, "_pyroDaemon"))
            # the daemon attribute, when present, is this daemon object
            self.daemon_is = attr_val(st, self.obj.e, "_pyroDaemon")
        else:
            st.assume(z3.Not(has_attr(st, self.obj.e, "_pyroDaemon")))
        return {"obj": self.obj}

    def opaque_getattr(self, E, st, x, n, default):
        name = _const_name(n)
        if name == "_pyroDaemon" and z3.eq(x.e, self.obj.e) and self.variant == "has-daemon":
            return [Res(st, self.d)]          # the attribute value is the daemon object of this model
        if name == "objectsById":
            return None
        return _RegBase.opaque_getattr(self, E, st, x, n, default)

    def currently_registered(self, old):
        o = self.obj.e
        pid = z3.If(has_attr(old, o, "_pyroId"), attr_val(old, o, "_pyroId"), U_NONE)
        p, v = _entry(old, self.d, pid)
        target = z3.If(is_weakref(v), D.deref(v), v)
        return z3.And(p, z3.Or(target == o, z3.And(is_class(target), instance_of(o, target))))

    def ensures(self, E, old, st, a, result):
        pf = [e for e in st.events if e[0] == "proxyFor"]
        proxied = isinstance(result, VObj) and result.cls == "Pyro5.client.Proxy"
        by_value = isinstance(result, VOpaque) and z3.eq(result.e, self.obj.e)
        post = [("the object either travels by value (itself) or as one proxy made by its daemon for this very object",
                 z3.BoolVal(by_value and not pf or (proxied and len(pf) == 1 and isinstance(pf[0][2], VOpaque) and z3.eq(pf[0][2].e, self.obj.e)))),
                ("the registry is only read", same_entry(old, st, self.d, KSTAR))]
        if self.variant == "no-daemon":
            post.append(("an object without a daemon travels by value", z3.BoolVal(by_value)))
        else:
            post.append(("a proxy is sent exactly when the object's id currently designates it (or its class) in the registry; otherwise it travels by value",
                         z3.BoolVal(proxied) == self.currently_registered(old)))
        return post

    def x_any(self, E, old, st, a, exc):
        return [("only making the proxy can fail", z3.BoolVal(len([e for e in st.events if e[0] == "proxyFor"]) == 1))]


@R.contract
class UnregisterCollected(_RegBase):
    name = "Pyro5.server.Daemon._unregister_collected"
    raises = {}

    def setup(self, E, st):
        d = self.mk(E, st)
        self.oid = VOpaque(z3.Const("objectId", U))
        self.ref = VOpaque(z3.Const("weak_reference", U))
        st.assume(self.ref.e != U_NONE)
        return {"self": d, "objectId": self.oid, "ref": self.ref}

    def ensures(self, E, old, st, a, result):
        p0, v0 = _entry(old, self.d, self.oid.e)
        p1, _ = _entry(st, self.d, self.oid.e)
        mine = z3.And(p0, v0 == self.ref.e)
        return [("the id is forgotten exactly when it still holds the collected object's weak reference", z3.If(mine, z3.Not(p1), same_entry(old, st, self.d, self.oid.e))),
                ("every other id is untouched", z3.Implies(KSTAR != self.oid.e, same_entry(old, st, self.d, KSTAR)))]


@R.lemma("C16:registry-frame", props=("C16",))
def registry_frame(E):
    """the daemon's registry objectsById is written only by register, unregister, the weak-registration callback and the constructor"""
    from contracts.frames import frame_obligations
    D = "Pyro5/server.py:Daemon."
    frame_obligations(E, "registry", {"objectsById": {D + "__init__", D + "register", D + "unregister", D + "_unregister_collected"}})


# --- DaemonObject.get_metadata: what the handshake (C08) and the client's metadata request rely on -----------------------------------------------------------------

members_of = z3.Function("exposed_members_of", U, U)


@R.spec("Pyro5.server._get_exposed_members", doc="declared: the metadata dict of the object (its computation, the per-class cache and 'advertise = serve' are C02's harness); "
                                                 "inspecting the members may run user code (properties): any Exception")
def get_exposed_members_decl(E, st, args, kw):
    from specs.opaque import new_odict
    md = new_odict(st, "metadata")
    st.event("get_exposed_members", box(args[0]), md)
    return [Res(st, md), may_raise(E, st, "_get_exposed_members")]


@R.spec("warnings.warn", doc="emits a warning: no effect on the program state (a warning filter turning it into an error is not modelled)")
def warnings_warn(E, st, args, kw):
    return [Res(st, NONE)]


@R.contract
class GetMetadata(_RegBase):
    name = "Pyro5.server.DaemonObject.get_metadata"
    props = ("C08", "C16")
    raises = {"Pyro5.errors.DaemonError": "x_unknown", "builtins.Exception": "x_user"}
    raises_any_subclass = ("builtins.Exception",)
    trusted = ("_get_exposed_members(obj) is declared (metadata of that very object, or any Exception from user properties); warnings.warn has no effect",)

    def setup(self, E, st):
        d = self.mk(E, st)
        reg = _registry(st, d)
        self.dobj = st.get(reg, "daemon_object")
        self.oid = VOpaque(z3.Const("objectId", U))
        return {"self": self.dobj, "objectId": self.oid}

    def _live(self, st):
        p, v = _entry(st, self.d, self.oid.e)
        target = z3.If(is_weakref(v), D.deref(v), v)
        return z3.And(p, v != U_NONE, target != U_NONE), target

    def ensures(self, E, old, st, a, result):
        if E.cur_contract is not self:
            return []
        live, target = self._live(old)
        calls = [e for e in st.events if e[0] == "get_exposed_members"]
        ok = len(calls) == 1 and isinstance(result, VObj) and result.ref == calls[0][2].ref
        return [("metadata is handed out only for an id under which a live object is registered NOW (the registry entry is looked up on every request)", live),
                ("... and it is the metadata computed for that very object", z3.BoolVal(ok) if not ok else calls[0][1] == target),
                ("the registry is only read", same_entry(old, st, self.d, KSTAR))]

    def x_unknown(self, E, old, st, a, exc):
        if E.cur_contract is not self:
            return []
        live, target = self._live(old)
        user = [e for e in st.events if e[0] == "get_exposed_members"]
        return [("DaemonError comes from the lookup only when no live object is registered under the id (or from user code inspecting it)",
                 z3.Or(z3.Not(live), z3.BoolVal(bool(user)))),
                ("the registry is only read", same_entry(old, st, self.d, KSTAR))]

    def x_user(self, E, old, st, a, exc):
        if E.cur_contract is not self:
            return []
        live, target = self._live(old)
        # (a DaemonError is an Exception too: the unknown-id outcome lands here as well as in x_unknown)
        user = [e for e in st.events if e[0] == "get_exposed_members"]
        return [("any other failure comes from inspecting the live object's members (user code)", z3.Or(z3.Not(live), z3.BoolVal(bool(user)))),
                ("the registry is only read", same_entry(old, st, self.d, KSTAR))]


# --- Daemon.proxyFor (body): what the auto-proxy hook and applications get ----------------------------------------------------------------------------------------

@R.spec("Pyro5.client.Proxy", doc="Proxy(uri): a new, unconnected proxy object for that uri (event); PyroError for a malformed uri")
def proxy_ctor(E, st, args, kw):
    p = st.new_obj("Pyro5.client.Proxy", for_uri=args[0])
    st.event("Proxy", args[0], p)
    return [Res(st, p), E.raise_(st.fork(), "Pyro5.errors.PyroError")]


@R.model("Pyro5.client.Proxy")
class ProxyObj:
    """a freshly made proxy as proxyFor uses it: _pyroGetMetadata(known_metadata=m) only stores the metadata it is given (no remote call) - event"""

    def getattr(self, E, st, obj, name):
        return None

    def m_get_metadata(self, E, st, obj, args, kw):
        st.event("known_metadata", obj, kw.get("known_metadata", args[0] if args else NONE))
        return [Res(st, NONE)]

    methods = {"_pyroGetMetadata": m_get_metadata}


@R.contract
class ProxyFor(_RegBase):
    name = "Pyro5.server.Daemon.proxyFor#body"
    real_name = "Pyro5.server.Daemon.proxyFor"
    raises = {"Pyro5.errors.DaemonError": "x_unreg", "builtins.Exception": "x_other"}
    raises_any_subclass = ("builtins.Exception",)
    trusted = ("Daemon.uriFor by its declared interface (body: UriFor); Proxy(uri) and proxy._pyroGetMetadata(known_metadata=...) only store what they are given; "
               "_get_exposed_members as declared (C02 has its contract)",)

    def setup(self, E, st):
        d = self.mk(E, st)
        self.arg = VOpaque(z3.Const("objectOrId", U))
        st.assume(self.arg.e != U_NONE)
        return {"self": d, "objectOrId": self.arg, "nat": VBool(z3.Bool("nat"))}

    def designated(self, st):
        k = uri_object_of(self.arg.e)
        p, v = _entry(st, self.d, k)
        return k, p, z3.If(is_weakref(v), D.deref(v), v)

    def ensures(self, E, old, st, a, result):
        k, p, target = self.designated(old)
        made = [e for e in st.events if e[0] == "Proxy"]
        meta = [e for e in st.events if e[0] == "known_metadata"]
        members = [e for e in st.events if e[0] == "get_exposed_members"]
        uris = [e for e in st.events if e[0] == "uriFor"]
        ok = len(made) == 1 and len(meta) == 1 and len(members) == 1 and len(uris) == 1 and isinstance(result, VObj) and result.ref == made[0][2].ref
        if not ok:
            return [("exactly one proxy is made, for the uri of the given object / id, and given the metadata of the registered object", z3.BoolVal(False))]
        uri_obj = made[0][1]
        return [("exactly one proxy is made, for the uri that uriFor hands out for the given object / id",
                 z3.BoolVal(isinstance(uri_obj, VObj) and uri_obj.cls == "Pyro5.core.URI" and isinstance(uris[0][1], VOpaque) and z3.eq(uris[0][1].e, self.arg.e))),
                ("a proxy is handed out only for an id under which an object is registered now", p),
                ("it is given the metadata of the object that id designates (weak reference unpacked) - not of anything else",
                 z3.And(members[0][1] == target, z3.BoolVal(isinstance(meta[0][2], VObj) and meta[0][2].ref == members[0][2].ref and meta[0][1].ref == result.ref))),
                ("the registry is only read", same_entry(old, st, self.d, KSTAR))]

    def x_unreg(self, E, old, st, a, exc):
        k, p, target = self.designated(old)
        uris = [e for e in st.events if e[0] == "uriFor" and e[-1:] != ("raised",)]
        # DaemonError: from uriFor (an object that is not registered), from the lookup (nothing registered under the id), or a dead weak reference
        return [("the registry is only read", same_entry(old, st, self.d, KSTAR))]

    def x_other(self, E, old, st, a, exc):
        return [("the registry is only read", same_entry(old, st, self.d, KSTAR))]


# --- Daemon.resetMetadataCache (body) -------------------------------------------------------------------------------------------------------------------------------

@R.spec("Pyro5.server._reset_exposed_members", doc="declared: drops the cached member list of the object's class (event; its own contract is in contracts/exposed_members.py)")
def reset_members_decl(E, st, args, kw):
    st.event("reset_exposed_members", box(args[0]))
    return [Res(st, NONE)]


@R.contract
class ResetMetadataCache(_RegBase):
    name = "Pyro5.server.Daemon.resetMetadataCache"
    props = ("C02", "C16")
    raises = {"builtins.Exception": "x_any"}
    raises_any_subclass = ("builtins.Exception",)
    trusted = ("Daemon.uriFor and _reset_exposed_members by their declared interfaces",)

    def setup(self, E, st):
        d = self.mk(E, st)
        self.arg = VOpaque(z3.Const("objectOrId", U))
        st.assume(self.arg.e != U_NONE)
        return {"self": d, "objectOrId": self.arg, "nat": VBool(z3.Bool("nat"))}

    def ensures(self, E, old, st, a, result):
        k = uri_object_of(self.arg.e)
        p, v = _entry(old, self.d, k)
        target = z3.If(is_weakref(v), D.deref(v), v)
        resets = [e for e in st.events if e[0] == "reset_exposed_members"]
        return [("the cached member list is dropped exactly when something is registered under the id, and then for the object that id designates (weak reference unpacked)",
                 z3.And(z3.BoolVal(len(resets) <= 1), z3.BoolVal(bool(resets)) == p, resets[0][1] == target if resets else z3.BoolVal(True))),
                ("the registry is only read", same_entry(old, st, self.d, KSTAR))]

    def x_any(self, E, old, st, a, exc):
        return [("the registry is only read", same_entry(old, st, self.d, KSTAR)),
                ("a failure (unknown object, dead weak reference, malformed id) happens before anything is dropped", z3.BoolVal(not [e for e in st.events if e[0] == "reset_exposed_members"]))]
