"""Sidecar contracts for serializer symmetry (C01): SerializerBase.recreate_classes against the structural spec function `recreated`, and the
dumps / dumpsCall / loads / loadsCall quadruple of each serializer against "one library call with the serializer's fixed option set; arguments and
results go through the same conversion".  The library codecs themselves (serpent, json, marshal, msgpack) are assumed: their value mapping is
observed by the bounded harness only."""
import ast
import z3
from pyvc.values import *
from pyvc.engine import Contract, Res, Out, Unsupported, QInv
from pyvc.registry import R
from specs.opaque import may_raise, box, u_getitem, u_len
import contracts.deserialize  # noqa: F401   (dict_to_class contract used at the call site)

RC = z3.Function("recreated", U, U)                      # spec function: recreate_classes of a decoded literal
CONV = z3.Function("marshallable", U, U)                 # spec function: MarshalSerializer.convert_obj_into_marshallable
key_at = z3.Function("dict_key_at", U, IntS, U)          # j-th key / value of a dict in iteration order
val_at = z3.Function("dict_value_at", U, IntS, U)
n_items = z3.Function("dict_len", U, IntS)
decoded = z3.Function("library_decode", StrS, BytesS, U)  # what <lib>.loads / unpackb yields for these bytes (with the serializer's fixed options)
LIT = z3.Const("literal", U)


class Mapped(V):
    """result of a comprehension over an opaque iterable: kind(list/set/tuple/gen/dict), the iterable, the comprehension's id"""
    __slots__ = ("kind", "it", "cid")

    def __init__(self, kind, it, cid):
        self.kind, self.it, self.cid = kind, it, cid


class Items(V):
    """d.items() of an opaque dict"""
    __slots__ = ("d",)

    def __init__(self, d):
        self.d = d

    def iter_spec_v(self, E, st):
        n = n_items(self.d)
        return (n, lambda j: VTuple([VOpaque(key_at(self.d, j)), VOpaque(val_at(self.d, j))]), [n >= 0])


@R.method("VOpaque", "items")
def u_items(E, st, recv, args, kw):
    out = []
    for s2, isnone in E.branch(st, recv.e == U_NONE):
        out.append(E.raise_(s2, "builtins.AttributeError") if isnone else Res(s2, Items(recv.e)))
    return out


_prev_comp = R.specs.get("syntax.listcomp")
_comp_ids = [0]


@R.spec("syntax.listcomp", doc="comprehension over an opaque iterable: evaluated once for an arbitrary element; event (kind, iterable, element, value); "
                               "the result is `Mapped`.  One generator, no filter.")
def comp(E, st, args, kw):
    node, module = args
    gen = node.generators[0]
    rs = E.ev(gen.iter, st, module)
    if len(rs) != 1 or rs[0].exc is not None or not isinstance(rs[0].val, (VOpaque, Items)):
        return _prev_comp(E, st, args, kw)
    if len(node.generators) != 1 or gen.ifs:
        raise Unsupported("comprehension with filter / several generators at line %d" % node.lineno)
    it = rs[0].val
    st = rs[0].st
    kind = {ast.ListComp: "list", ast.SetComp: "set", ast.GeneratorExp: "gen", ast.DictComp: "dict"}[type(node)]
    _comp_ids[0] += 1
    cid = _comp_ids[0]
    if isinstance(it, Items):
        elem = VTuple([VOpaque(fresh("key", U)), VOpaque(fresh("value", U))])
        it_e = it.d
        over_items = True
    else:
        elem = VOpaque(fresh("elem", U))
        it_e = it.e
        over_items = False
    saved = dict(st.env)
    outs = []
    for ao in E.assign(gen.target, elem, st):
        if ao.kind != "next":
            raise Unsupported("comprehension target")
        exprs = [node.key, node.value] if kind == "dict" else [node.elt]
        oks, excs = E.ev_list(exprs, ao.st, module)
        for r in excs:
            r.st.env = dict(saved)
            outs.append(r)
        for s2, vals in oks:
            s2.env = dict(saved)
            s2.event("comp", cid, kind, it_e, over_items, elem, vals)
            outs.append(Res(s2, Mapped(kind, it_e, cid)))
    return outs


_prev_tuple = R.specs.get("builtins.tuple")


@R.spec("builtins.tuple", doc="tuple(<generator comprehension over an opaque iterable>)")
def b_tuple(E, st, args, kw):
    if args and isinstance(args[0], Mapped) and args[0].kind == "gen":
        return [Res(st, Mapped("tuple", args[0].it, args[0].cid))]
    return _prev_tuple(E, st, args, kw)


_prev_dict = R.specs.get("builtins.dict")


@R.spec("builtins.dict", doc="{} as an assignment log over opaque keys and values")
def b_dict(E, st, args, kw):
    if not args and not kw:
        return [Res(st, st.new_obj("seqdict", n=VInt(0), keys=z3.Const(fresh_name("log_keys"), z3.ArraySort(IntS, U)),
                                   vals=z3.Const(fresh_name("log_vals"), z3.ArraySort(IntS, U)), kwrap=VOpaque, vwrap=VOpaque, name="empty"))]
    return _prev_dict(E, st, args, kw)


_prev_type = R.specs.get("builtins.type")
_literal_kind = [None]


@R.spec("builtins.type", doc="type(literal) for the decoded literal of the recreate_classes contract: the builtin type of the variant")
def b_type(E, st, args, kw):
    v = args[0]
    if len(args) == 1 and isinstance(v, VOpaque) and z3.eq(v.e, LIT) and _literal_kind[0] in ("set", "list", "tuple", "dict"):
        return [Res(st, E.qualified("builtins." + _literal_kind[0]))]
    return _prev_type(E, st, args, kw)


if "builtins.set" not in R.specs:
    @R.spec("builtins.set", doc="the type object `set` (only compared by identity here)")
    def b_set(E, st, args, kw):
        raise Unsupported("set(...) call")


def _comps(st):
    return [e for e in st.events if e[0] == "comp"]


def _calls(st, suffix):
    return [e for e in st.events if e[0] == "call" and e[1].endswith(suffix)]


# ----------------------------------------------------------------------------------------------------------------------
@R.contract
class RecreateClasses(Contract):
    name = "Pyro5.serializers.SerializerBase.recreate_classes"
    props = ("C01", "C04")
    variants = ("set", "list", "tuple", "dict-tagged", "dict-plain", "other")
    local_positions = {"result": 2}
    raises = {"builtins.Exception": "x_any"}
    raises_any_subclass = ("builtins.Exception",)
    no_join = True
    trusted = ("the decoded literal is plain data of exactly one builtin container type or an atom (what the library decoders yield); iteration order of a dict "
               "is its item order; dict_to_class by its contract (C04)",)

    def setup(self, E, st):
        _literal_kind[0] = self.variant.split("-")[0]
        self.lit = VOpaque(LIT)
        st.assume(LIT != U_NONE)
        has_tag = z3.Function("u_contains", U, U, BoolS)(LIT, box_str(z3.StringVal("__class__")))
        if self.variant == "dict-tagged":
            st.assume(has_tag)
        if self.variant == "dict-plain":
            st.assume(z3.Not(has_tag))
        if self.variant == "other":
            from pyvc import classes as CL
            for q in ("builtins.set", "builtins.list", "builtins.tuple", "builtins.dict"):
                if CL.known(q):
                    st.assume(typeof(LIT) != CL.term(q))
        self.me = st.new_obj("Pyro5.serializers.SerializerBase")
        return {"self": self.me, "literal": self.lit}

    def result(self, E, st, a):
        return VOpaque(RC(box(a["literal"])))

    def x_any(self, E, old, st, a, exc):
        if E.cur_contract is not self or getattr(E, "at_call_site", False):
            return []
        d2c = _calls(st, "dict_to_class")
        rec = _calls(st, "recreate_classes")
        return [("recreation fails only because re-creating some element fails", z3.BoolVal(any(e[3] == "raise" for e in d2c + rec)))]

    def elementwise(self, st, kind, result):
        cs = _comps(st)
        ok = isinstance(result, Mapped) and result.kind == kind and len(cs) == 1 and z3.eq(cs[0][3], LIT) and not cs[0][4]
        post = [("a %s comes back as a %s built by one pass over exactly the literal's elements" % (kind, kind), z3.BoolVal(ok))]
        if ok:
            _, cid, k, it, over_items, elem, vals = cs[0]
            v = vals[0]
            post.append(("each element is replaced by its own re-creation (the same function, applied to every element, whatever its type)",
                         v.e == RC(elem.e) if isinstance(v, VOpaque) else z3.BoolVal(False)))
        return post

    def ensures(self, E, old, st, a, result):
        if E.cur_contract is not self or getattr(E, "at_call_site", False):
            return []
        v = self.variant
        if v in ("set", "list", "tuple"):
            return self.elementwise(st, v, result)
        if v == "dict-tagged":
            d2c = _calls(st, "dict_to_class")
            ok = len(d2c) == 1 and d2c[0][3] == "return" and isinstance(d2c[0][2]["data"], VOpaque) and z3.eq(d2c[0][2]["data"].e, LIT)
            return [("a class-tagged dict is handed (whole, once) to dict_to_class", z3.BoolVal(ok)),
                    ("... and what that builds is the result", z3.BoolVal(ok and isinstance(result, VOpaque) and z3.eq(result.e, d2c[0][4].e))),
                    ("nothing inside a tagged dict is re-created separately", z3.BoolVal(not _calls(st, "recreate_classes") and not _comps(st)))]
        if v == "dict-plain":
            if not (isinstance(result, VObj) and result.cls == "seqdict"):
                return [("a plain dict comes back as a new dict", z3.BoolVal(False))]
            n = st.get(result, "n").e
            k0 = fresh("k0", IntS)
            return [("the new dict has exactly the literal's items", n == n_items(LIT)),
                    ("every key is kept and every value replaced by its own re-creation, in item order",
                     z3.Implies(z3.And(0 <= k0, k0 < n), z3.And(z3.Select(st.get(result, "keys"), k0) == key_at(LIT, k0),
                                                              z3.Select(st.get(result, "vals"), k0) == RC(val_at(LIT, k0)))))]
        return [("anything else is returned as it is", z3.BoolVal(isinstance(result, VOpaque) and z3.eq(result.e, LIT))),
                ("... untouched", z3.BoolVal(not _comps(st) and not _calls(st, "dict_to_class")))]

    def loop_modifies(self, k, E, st, a):
        r = E.local(st, "result")
        return [(r, "n"), (r, "keys"), (r, "vals")]

    def loop_inv(self, k, E, old, st, a):
        r = E.local(st, "result")
        idx = st.ghost["idx%d" % k].e
        return [("index", z3.And(0 <= idx, idx <= n_items(LIT), st.get(r, "n").e == idx)),
                ("entries so far", QInv(lambda s: s.get(E.local(s, "result"), "n").e,
                                        lambda s, j: z3.And(z3.Select(s.get(E.local(s, "result"), "keys"), j) == key_at(LIT, j),
                                                            z3.Select(s.get(E.local(s, "result"), "vals"), j) == RC(val_at(LIT, j)))))]


# ----------------------------------------------------------------------------------------------------------------------
# library codecs (assumed) and the four serializers

def _lib_encode(lib, out_kind):
    def h(E, st, args, kw):
        out = [may_raise(E, st, lib + "_encode")]
        res = VBytes(fresh(lib + "_encoded", BytesS)) if out_kind == "bytes" else VStr(fresh(lib + "_encoded", StrS))
        st.event("lib_encode", lib, args[0], dict(kw), res)
        out.insert(0, Res(st, res))
        return out
    return h


def _lib_decode(lib):
    def h(E, st, args, kw):
        out = [may_raise(E, st, lib + "_decode")]
        data = args[0]
        if isinstance(data, VStr):
            from specs.opaque import utf8
            term = utf8(data.e)
        else:
            term = data.e
        res = VOpaque(decoded(z3.StringVal(lib), term))
        st.event("lib_decode", lib, args[0], dict(kw), res)
        out.insert(0, Res(st, res))
        return out
    return h


R.spec("serpent.dumps", doc="library encoder (assumed): bytes or any Exception")(_lib_encode("serpent", "bytes"))
R.spec("serpent.loads", doc="library decoder (assumed): a value determined by the bytes, or any Exception")(_lib_decode("serpent"))
R.spec("marshal.dumps", doc="library encoder (assumed)")(_lib_encode("marshal", "bytes"))
R.spec("marshal.loads", doc="library decoder (assumed)")(_lib_decode("marshal"))
R.spec("json.dumps", doc="library encoder (assumed): str")(_lib_encode("json", "str"))
R.spec("json.loads", doc="library decoder (assumed)")(_lib_decode("json"))
R.spec("msgpack.packb", doc="library encoder (assumed)")(_lib_encode("msgpack", "bytes"))
R.spec("msgpack.unpackb", doc="library decoder (assumed)")(_lib_decode("msgpack"))
R.glob("Pyro5.serializers.msgpack", VModule("msgpack"), "the optional msgpack import succeeded (otherwise there is no msgpack serializer)")
R.glob("Pyro5.config.SERPENT_BYTES_REPR", VBool(z3.Const("config_SERPENT_BYTES_REPR", BoolS)), "configuration item: arbitrary fixed value")


@R.spec("Pyro5.serializers.SerializerBase._convertToBytes", doc="bytes of a bytes / bytearray / memoryview payload: same content (5-line repo function, as specified)")
def convert_to_bytes(E, st, args, kw):
    d = args[1]
    return [Res(st, VBytes(d.e, "bytes") if isinstance(d, VBytes) else d)]


for _c in ("SerpentSerializer", "MarshalSerializer", "JsonSerializer", "MsgpackSerializer"):
    R.specs["Pyro5.serializers.%s._convertToBytes" % _c] = convert_to_bytes
    for _m in ("default", "object_hook", "ext_hook"):
        R.spec("Pyro5.serializers.%s.%s" % (_c, _m), doc="hook method handed to the library by reference (its own contract is separate)")(
            lambda E, st, args, kw: [Res(st, VOpaque(fresh("hook_result", U)))])


@R.spec("Pyro5.serializers.MarshalSerializer.convert_obj_into_marshallable", doc="spec function `marshallable` of the value, or any Exception (class_to_dict of unknown classes)")
def conv_spec(E, st, args, kw):
    out = [may_raise(E, st, "convert")]
    st.event("convert", args[1])
    out.insert(0, Res(st, VOpaque(CONV(box(args[1])))))
    return out


def _inherited(base_q):
    def h(E, st, args, kw):
        return E.apply_contract(st, R.contracts[base_q], args, kw)
    return h


for _c in ("SerpentSerializer", "MarshalSerializer", "JsonSerializer", "MsgpackSerializer"):
    R.spec("Pyro5.serializers.%s.recreate_classes" % _c, doc="inherited from SerializerBase (same function, same contract)")(
        _inherited("Pyro5.serializers.SerializerBase.recreate_classes"))


def _bound_is(v, me, name):
    return isinstance(v, VBound) and isinstance(v.recv, VObj) and v.recv.ref == me.ref and v.name == name


class _Codec(Contract):
    props = ("C01",)
    raises = {"builtins.Exception": "x_any"}
    raises_any_subclass = ("builtins.Exception",)
    no_join = True
    log_calls = False
    lib = None
    cls = None
    trusted = ("the library codec is an assumed function of its input and option set; both directions use the options stated here and nothing else",)

    def mk_self(self, E, st):
        self.me = st.new_obj("Pyro5.serializers." + self.cls)
        return self.me

    def x_any(self, E, old, st, a, exc):
        return []

    # option sets (the serializer's fixed configuration) -----------------------------------------------------------
    def enc_opts_ok(self, kw):
        if self.lib == "serpent":
            return set(kw) == {"module_in_classname", "bytes_repr"} and isinstance(kw["module_in_classname"], VBool) and z3.is_true(kw["module_in_classname"].e) \
                and isinstance(kw["bytes_repr"], VBool) and z3.eq(kw["bytes_repr"].e, z3.Const("config_SERPENT_BYTES_REPR", BoolS))
        if self.lib == "marshal":
            return not kw
        if self.lib == "json":
            return set(kw) == {"ensure_ascii", "default"} and isinstance(kw["ensure_ascii"], VBool) and z3.is_false(kw["ensure_ascii"].e) and _bound_is(kw["default"], self.me, "default")
        if self.lib == "msgpack":
            return set(kw) == {"use_bin_type", "default"} and isinstance(kw["use_bin_type"], VBool) and z3.is_true(kw["use_bin_type"].e) and _bound_is(kw["default"], self.me, "default")

    def dec_opts_ok(self, kw):
        if self.lib == "msgpack":
            return set(kw) == {"raw", "object_hook", "ext_hook"} and isinstance(kw["raw"], VBool) and z3.is_false(kw["raw"].e) \
                and _bound_is(kw["object_hook"], self.me, "object_hook") and _bound_is(kw["ext_hook"], self.me, "ext_hook")
        return not kw

    def one_encode(self, st, result):
        ev = [e for e in st.events if e[0] == "lib_encode"]
        ok = len(ev) == 1 and ev[0][1] == self.lib
        post = [("exactly one call of the %s encoder" % self.lib, z3.BoolVal(ok))]
        if ok:
            post.append(("... with this serializer's fixed option set (the same for arguments and for results)", z3.BoolVal(bool(self.enc_opts_ok(ev[0][3])))))
            out = ev[0][4]
            if isinstance(out, VStr):
                from specs.opaque import utf8
                post.append(("the payload is the UTF-8 encoding of the encoder's text", result.e == utf8(out.e) if isinstance(result, VBytes) else z3.BoolVal(False)))
            else:
                post.append(("the payload is exactly the encoder's output", z3.BoolVal(isinstance(result, VBytes) and z3.eq(result.e, out.e))))
        return ev[0] if ok else None, post

    def one_decode(self, st, data):
        ev = [e for e in st.events if e[0] == "lib_decode"]
        ok = len(ev) == 1 and ev[0][1] == self.lib
        post = [("exactly one call of the %s decoder" % self.lib, z3.BoolVal(ok))]
        if ok:
            post.append(("... with this serializer's fixed option set (the same for arguments and for results)", z3.BoolVal(bool(self.dec_opts_ok(ev[0][3])))))
            d = ev[0][2]
            if isinstance(d, VStr):
                from specs.opaque import utf8
                post.append(("... on the UTF-8 decoding of exactly the payload received", utf8(d.e) == data.e))
            else:
                post.append(("... on exactly the payload received", z3.BoolVal(isinstance(d, VBytes)) if not isinstance(d, VBytes) else d.e == data.e))
        return ev[0] if ok else None, post


def _same_value(v, w):
    if isinstance(v, VOpaque) and isinstance(w, VOpaque):
        return z3.eq(v.e, w.e)
    return v is w


class _Dumps(_Codec):
    def setup(self, E, st):
        self.data = VOpaque(z3.Const("data", U))
        return {"self": self.mk_self(E, st), "data": self.data}

    def ensures(self, E, old, st, a, result):
        ev, post = self.one_encode(st, result)
        if ev is not None:
            payload = ev[2]
            if self.lib == "marshal":
                post.append(("a result is converted by the same function that converts every argument", z3.BoolVal(isinstance(payload, VOpaque)) if not isinstance(payload, VOpaque)
                             else payload.e == CONV(self.data.e)))
            else:
                post.append(("what is encoded is the value itself", z3.BoolVal(_same_value(payload, self.data))))
        return post


class _DumpsCall(_Codec):
    def x_any(self, E, old, st, a, exc):
        vc = st.get(exc, "__cls__")
        ok = (vc.qname is None and any(t in str(vc.term) for t in ("_encode", "convert"))) or vc.qname == "builtins.UnicodeEncodeError"
        return [("a call is refused only by the encoder or by the conversion of one of its values (in particular not for lacking keyword arguments)", z3.BoolVal(ok))]

    def setup(self, E, st):
        self.args = [VOpaque(z3.Const(n, U)) for n in ("obj", "method", "vargs", "kwargs")]
        return dict(zip(("obj", "method", "vargs", "kwargs"), self.args), self=self.mk_self(E, st))

    def ensures(self, E, old, st, a, result):
        ev, post = self.one_encode(st, result)
        if ev is None:
            return post
        payload = ev[2]
        obj, method, vargs, kwargs = self.args
        if self.lib == "json":
            dd = [e for e in st.events if e[0] == "dict_display"]
            ok = len(dd) == 1 and isinstance(payload, VOpaque) and z3.eq(payload.e, dd[0][1].e)
            post.append(("what is encoded is one dict display", z3.BoolVal(ok)))
            if ok:
                keys = [z3.simplify(k.e).as_string() if isinstance(k, VStr) else None for k in dd[0][2].items]
                vals = dd[0][3].items
                post.append(("... {'object', 'method', 'params', 'kwargs'} holding exactly the four arguments, unconverted",
                             z3.BoolVal(keys == ["object", "method", "params", "kwargs"] and all(_same_value(v, w) for v, w in zip(vals, self.args)))))
            return post
        ok = isinstance(payload, VTuple) and len(payload.items) == 4
        post.append(("what is encoded is the 4-tuple (object, method, vargs, kwargs)", z3.BoolVal(ok)))
        if not ok:
            return post
        p = payload.items
        post.append(("object id and method name travel unconverted", z3.BoolVal(_same_value(p[0], obj) and _same_value(p[1], method))))
        if self.lib != "marshal":
            post.append(("positional and keyword arguments are encoded as they are", z3.BoolVal(_same_value(p[2], vargs) and _same_value(p[3], kwargs))))
            return post
        cs = {e[1]: e for e in _comps(st)}
        okv = isinstance(p[2], Mapped) and p[2].kind == "list" and z3.eq(p[2].it, vargs.e) and p[2].cid in cs
        post.append(("every positional argument is converted by `marshallable`, the function dumps() applies to a result",
                     z3.BoolVal(False) if not okv else cs[p[2].cid][6][0].e == CONV(cs[p[2].cid][5].e)))
        if isinstance(p[3], Mapped):
            e = cs.get(p[3].cid)
            okk = p[3].kind == "dict" and z3.eq(p[3].it, kwargs.e) and e is not None and e[4]
            post.append(("every keyword argument keeps its name and is converted by the same function",
                         z3.BoolVal(False) if not okk else z3.And(e[6][0].e == e[5].items[0].e, e[6][1].e == CONV(e[5].items[1].e))))
        else:
            post.append(("absent keyword arguments (None: batch, attribute access) travel as None", z3.And(kwargs.e == U_NONE, z3.BoolVal(isinstance(p[3], (VOpaque, VNone))))))
        return post


class _Loads(_Codec):
    def setup(self, E, st):
        self.data = VBytes(z3.Const("data", BytesS))
        return {"self": self.mk_self(E, st), "data": self.data}

    def ensures(self, E, old, st, a, result):
        ev, post = self.one_decode(st, self.data)
        if ev is None:
            return post
        dec = ev[4]
        if self.lib == "msgpack":
            post.append(("the result is what the decoder (with the object and ext hooks) built", z3.BoolVal(_same_value(result, dec))))
        else:
            post.append(("the result is the re-creation of the whole decoded value", result.e == RC(dec.e) if isinstance(result, VOpaque) else z3.BoolVal(False)))
        return post


class _LoadsCall(_Loads):
    def ensures(self, E, old, st, a, result):
        ev, post = self.one_decode(st, self.data)
        if ev is None:
            return post
        dec = ev[4]
        if self.lib == "msgpack":
            post.append(("the call tuple is what the decoder (with the same hooks as for results) built", z3.BoolVal(_same_value(result, dec))))
            return post
        ok = isinstance(result, VTuple) and len(result.items) == 4 and all(isinstance(x, VOpaque) for x in result.items)
        post.append(("a 4-tuple (object, method, vargs, kwargs) comes back", z3.BoolVal(ok)))
        if ok:
            def part(i, name):
                return u_getitem(dec.e, box_str(z3.StringVal(name))) if self.lib == "json" else u_getitem(dec.e, box_int(z3.IntVal(i)))
            r = result.items
            post += [("object id and method name are the decoded ones", z3.And(r[0].e == part(0, "object"), r[1].e == part(1, "method"))),
                     ("positional arguments are re-created by the same function that re-creates a result", r[2].e == RC(part(2, "params"))),
                     ("keyword arguments are re-created by the same function that re-creates a result", r[3].e == RC(part(3, "kwargs")))]
        return post


def _mk(base, cls, lib, meth):
    name = "Pyro5.serializers.%s.%s" % (cls, meth)
    c = type("%s_%s" % (cls, meth), (base,), {"name": name, "cls": cls, "lib": lib})
    R.contract(c)
    return name


CODEC_CONTRACTS = []
for _cls, _lib in (("SerpentSerializer", "serpent"), ("MarshalSerializer", "marshal"), ("JsonSerializer", "json"), ("MsgpackSerializer", "msgpack")):
    for _meth, _base in (("dumps", _Dumps), ("dumpsCall", _DumpsCall), ("loads", _Loads), ("loadsCall", _LoadsCall)):
        CODEC_CONTRACTS.append(_mk(_base, _cls, _lib, _meth))


# ----------------------------------------------------------------------------------------------------------------------
# msgpack: the `long` extension (integers beyond 64 bit) - default() and ext_hook() must be inverse
from pyvc.engine import int_to_str                               # noqa: E402
from specs.pystruct import ascii_enc, ascii_dec, is_ascii_s, is_ascii_b, ascii_enc_facts, ascii_dec_facts   # noqa: E402
from specs.strings import int_parses, int_val, int_facts         # noqa: E402

for _q in ("builtins.complex", "datetime.datetime", "datetime.date", "decimal.Decimal", "numbers.Number", "array.array"):
    R.glob(_q, VClass(_q, None), "a class object (only used in isinstance tests)")


@R.model("msgpack_replacements")
class NoReplacements:
    """MsgpackSerializer.__type_replacements: assumed to hold no replacement for the builtin number types"""

    def getattr(self, E, st, obj, name):
        return None

    def m_get(self, E, st, obj, args, kw):
        return [Res(st, args[1] if len(args) > 1 else NONE)]

    methods = {"get": m_get}


@R.model("Pyro5.serializers.MsgpackSerializer")
class MsgpackSelf:
    def getattr(self, E, st, obj, name):
        if name == "_MsgpackSerializer__type_replacements":
            return [Res(st, VObj(-9, "msgpack_replacements"))]
        return None

    methods = {}


@R.spec("msgpack.ExtType", doc="msgpack.ExtType(code, data): a pair")
def ext_type(E, st, args, kw):
    return [Res(st, st.new_obj("msgpack.ExtType", code=args[0], data=args[1]))]


_prev_int = R.specs.get("builtins.int")


@R.spec("builtins.int", doc="int(<bytes>): the integer the ASCII text of the bytes spells (int_val of its decoding) or ValueError")
def b_int_bytes(E, st, args, kw):
    v = args[0]
    if isinstance(v, VBytes) and len(args) == 1:
        st.assume(*ascii_dec_facts(v.e))
        t = ascii_dec(v.e)
        out = []
        for s2, ok in E.branch(st, z3.And(is_ascii_b(v.e), int_parses(t))):
            out.append(Res(s2, VInt(int_val(t))) if ok else E.raise_(s2, "builtins.ValueError"))
        return out
    return _prev_int(E, st, args, kw)


_prev_isinstance = R.specs.get("builtins.isinstance")


@R.spec("builtins.isinstance", doc="isinstance(<int>, numbers.Number) is True; otherwise as before")
def b_isinstance_num(E, st, args, kw):
    v, c = args
    if isinstance(v, VInt) and isinstance(c, VClass) and c.qname == "numbers.Number":
        return [Res(st, VBool(True))]
    return _prev_isinstance(E, st, args, kw)


@R.contract
class MsgpackDefaultLong(Contract):
    name = "Pyro5.serializers.MsgpackSerializer.default#long"
    real_name = "Pyro5.serializers.MsgpackSerializer.default"
    props = ("C01",)
    raises = {}
    no_join = True
    trusted = ("no type replacement is registered for int; str(n) is the decimal text of n, which is ASCII",)

    def setup(self, E, st):
        self.n = z3.Const("n", IntS)
        st.assume(is_ascii_s(int_to_str(self.n)))
        return {"self": st.new_obj("Pyro5.serializers.MsgpackSerializer"), "obj": VInt(self.n)}

    def ensures(self, E, old, st, a, result):
        ok = isinstance(result, VObj) and result.cls == "msgpack.ExtType"
        if not ok:
            return [("an integer the wire format cannot hold becomes a `long` extension value", z3.BoolVal(False))]
        code, data = st.get(result, "code"), st.get(result, "data")
        return [("extension code 0x31", code.e == 0x31 if isinstance(code, VInt) else z3.BoolVal(False)),
                ("its payload is the ASCII decimal text of the integer", data.e == ascii_enc(int_to_str(self.n)) if isinstance(data, VBytes) else z3.BoolVal(False))]


@R.contract
class MsgpackExtHookLong(Contract):
    name = "Pyro5.serializers.MsgpackSerializer.ext_hook#long"
    real_name = "Pyro5.serializers.MsgpackSerializer.ext_hook"
    props = ("C01",)
    raises = {"builtins.ValueError": "x_bad"}
    no_join = True

    def setup(self, E, st):
        self.data = z3.Const("ext_data", BytesS)
        return {"self": st.new_obj("Pyro5.serializers.MsgpackSerializer"), "code": VInt(0x31), "data": VBytes(self.data)}

    def ensures(self, E, old, st, a, result):
        t = ascii_dec(self.data)
        return [("a `long` extension value decodes to the integer its ASCII text spells",
                 z3.And(is_ascii_b(self.data), int_parses(t), result.e == int_val(t)) if isinstance(result, VInt) else z3.BoolVal(False))]

    def x_bad(self, E, old, st, a, exc):
        t = ascii_dec(self.data)
        return [("refused only if the payload is not the ASCII text of an integer", z3.Not(z3.And(is_ascii_b(self.data), int_parses(t))))]


@R.lemma("C01:msgpack-long-roundtrip", props=("C01",))
def msgpack_long_roundtrip(E):
    """over the two contracts above: for every integer n, ext_hook(0x31, default(n).data) == n"""
    from pyvc.engine import State
    st = State()
    n = z3.Const("n", IntS)
    s = int_to_str(n)
    d = ascii_enc(s)
    # default's postcondition gives the payload d; ext_hook's contract on d: accepted iff ascii and parses, value int_val(ascii_dec(d))
    st.assume(is_ascii_s(s), *ascii_enc_facts(s))
    st.assume(*int_facts(n))
    E.oblige(st, "ext_hook accepts what default produced", z3.And(is_ascii_b(d), int_parses(ascii_dec(d))), kind="lemma")
    E.oblige(st, "... and yields the integer that was sent", int_val(ascii_dec(d)) == n, kind="lemma")
